"""Generators, adapters and the direct oracle for the two ragged containers (C05, C06, C07)."""
from __future__ import annotations

import math

import torch

from torch_frame.data import MultiEmbeddingTensor as MET
from torch_frame.data import MultiNestedTensor as MNT

MISSING = -1   # model-side code of a missing entry (int payload: -1 itself; float payload: NaN)


# ------------------------------------------------------------------ payload coding
def enc(v, payload):
    if payload == 'int':
        return int(v)
    return float('nan') if v == MISSING else v * 0.5


def dec(x, payload):
    if payload == 'int':
        return int(x)
    return MISSING if math.isnan(x) else int(round(x * 2))


def dtype_of(payload):
    return torch.long if payload == 'int' else torch.float32


# ------------------------------------------------------------------ generation
def gen_cells(rng, kind, R=None, C=None):
    R = rng.choice([0, 1, 1, 2, 3, 4, 5, 6]) if R is None else R
    C = rng.choice([0, 1, 1, 2, 3, 4, 5]) if C is None else C
    if kind == 'mnt':
        mode = rng.choice(['mixed', 'mixed', 'mixed', 'allempty', 'long'])
        def ln():
            if mode == 'allempty':
                return 0
            if mode == 'long':
                return rng.randint(0, 4)
            return rng.choice([0, 0, 1, 2, 3])
        cells = [[[rng.randint(-1, 9) for _ in range(ln())] for _ in range(C)] for _ in range(R)]
        return {'kind': 'mnt', 'R': R, 'C': C, 'cells': cells}
    widths = [rng.choice([0, 1, 1, 2, 3]) if rng.random() < .15 else rng.choice([1, 1, 2, 3]) for _ in range(C)]
    cells = [[[rng.randint(-1, 9) for _ in range(w)] for w in widths] for _ in range(R)]
    return {'kind': 'met', 'R': R, 'C': C, 'widths': widths, 'cells': cells}


def canonical_repr(spec):
    """the canonical storage (values, offset) of a cell grid, as plain ints (model-side container)"""
    R, C, cells = spec['R'], spec['C'], spec['cells']
    if spec['kind'] == 'mnt':
        values, offset = [], [0]
        for row in cells:
            for cell in row:
                values += cell
                offset.append(len(values))
        return {'R': R, 'C': C, 'values': values, 'offset': offset}
    widths = spec['widths']
    offset = [0]
    for w in widths:
        offset.append(offset[-1] + w)
    return {'R': R, 'C': C, 'W': offset[-1], 'values': [[v for cell in row for v in cell] for row in cells],
            'offset': offset}


def build_real(spec, payload):
    """construct the real container directly from canonical storage (works for R=0 / C=0 too)"""
    rep = canonical_repr(spec)
    dt = dtype_of(payload)
    if spec['kind'] == 'mnt':
        vals = torch.tensor([enc(v, payload) for v in rep['values']], dtype=dt)
        return MNT(rep['R'], rep['C'], vals, torch.tensor(rep['offset'], dtype=torch.long))
    vals = torch.tensor([[enc(v, payload) for v in row] for row in rep['values']], dtype=dt).reshape(rep['R'], rep['W'])
    return MET(rep['R'], rep['C'], vals, torch.tensor(rep['offset'], dtype=torch.long))


def real_repr(m, payload):
    """(num_rows, num_cols, values, offset) of a real container in model coding"""
    if isinstance(m, MNT):
        return {'R': int(m.num_rows), 'C': int(m.num_cols),
                'values': [dec(x, payload) for x in m.values.tolist()] if m.values.dim() == 1 else 'bad-ndim',
                'offset': [int(x) for x in m.offset.tolist()]}
    if m.values.dim() != 2:
        return {'R': int(m.num_rows), 'C': int(m.num_cols), 'W': -1, 'values': 'bad-ndim',
                'offset': [int(x) for x in m.offset.tolist()]}
    return {'R': int(m.num_rows), 'C': int(m.num_cols), 'W': int(m.values.shape[1]),
            'values': [[dec(x, payload) for x in row] for row in m.values.tolist()],
            'offset': [int(x) for x in m.offset.tolist()]}


def well_formed(rep, kind):
    """the representation invariant WF of the Lean model, evaluated on a real container's repr"""
    off = rep['offset']
    if rep['values'] == 'bad-ndim' or not off or off[0] != 0 or any(a > b for a, b in zip(off, off[1:])):
        return False
    if kind == 'mnt':
        return len(off) == rep['R'] * rep['C'] + 1 and off[-1] == len(rep['values'])
    return (len(off) == rep['C'] + 1 and rep['W'] == off[-1] and len(rep['values']) == rep['R']
            and all(len(r) == rep['W'] for r in rep['values']))


def cells_of_repr(rep, kind):
    R, C, off = rep['R'], rep['C'], rep['offset']
    if kind == 'mnt':
        return [[rep['values'][off[r * C + c]:off[r * C + c + 1]] for c in range(C)] for r in range(R)]
    return [[rep['values'][r][off[c]:off[c + 1]] for c in range(C)] for r in range(R)]


def cells_via_api(m, payload):
    """read every cell through the public m[i, j]"""
    return [[[dec(x, payload) for x in m[i, j].tolist()] for j in range(m.num_cols)] for i in range(m.num_rows)]


def rnd_bound(rng, n):
    return rng.choice([None, None, 0, 1, n - 1, n, n + 1, n + 5, -1, -n, -n - 1, -n - 7, rng.randint(-3, n + 3)])


def gen_index(rng, n, allow_bad=True):
    k = rng.choice(['int', 'slice', 'slice', 'slice', 'list', 'range', 'tensor', 'mask'])
    bad = allow_bad and rng.random() < .12
    if k == 'int':
        if bad or n == 0:
            return {'t': 'int', 'i': rng.choice([n, -n - 1, n + 3, -n - 4])}
        return {'t': 'int', 'i': rng.choice([0, n - 1, -1, -n, rng.randint(-n, n - 1)])}
    if k == 'slice':
        step = rng.choice([0, -1, -2]) if bad else rng.choice([None, None, 1, 1, 2, 3])
        return {'t': 'slice', 'a': rnd_bound(rng, n), 'b': rnd_bound(rng, n), 's': step}
    if k in ('list', 'tensor'):
        ln = rng.choice([0, 1, 2, 3, 4, 6])
        if n == 0:
            is_ = [rng.choice([0, -1, 1]) for _ in range(ln)] if bad else []
        elif bad:
            is_ = [rng.randint(-n - 2, n + 1) for _ in range(max(ln, 1))]
        else:
            is_ = [rng.randint(-n, n - 1) for _ in range(ln)]
        return {'t': 'list', 'is': is_, 'as': k}
    if k == 'range':
        a, b, s = rng.randint(0, max(n, 1)), rng.randint(0, n + (2 if bad else 0)), rng.choice([1, 1, 2, 3, -1])
        if s == -1:
            a, b = rng.randint(-1, n - 1 + (2 if bad else 0)), rng.randint(-1, max(n - 1, 0))
        is_ = list(range(a, b, s))
        return {'t': 'list', 'is': is_, 'as': 'range', 'range': [a, b, s]}
    ln = n + rng.choice([1, -1, 2]) if bad else n
    ln = max(ln, 0)
    p = rng.choice([.1, .5, .5, .9])
    return {'t': 'mask', 'bs': [rng.random() < p for _ in range(ln)]}


def to_py_index(ix):
    t = ix['t']
    if t == 'int':
        return ix['i']
    if t == 'slice':
        return slice(ix['a'], ix['b'], ix['s'])
    if t == 'list':
        if ix.get('as') == 'range':
            return range(*ix['range'])
        if ix.get('as') == 'tensor':
            return torch.tensor(ix['is'], dtype=torch.long)
        return list(ix['is'])
    return torch.tensor(ix['bs'], dtype=torch.bool)


def model_index(ix):
    """strip harness-only keys"""
    t = ix['t']
    if t == 'int':
        return {'t': 'int', 'i': ix['i']}
    if t == 'slice':
        return {'t': 'slice', 'a': ix['a'], 'b': ix['b'], 's': ix['s']}
    if t == 'list':
        return {'t': 'list', 'is': ix['is']}
    return {'t': 'mask', 'bs': ix['bs']}


def gen_ops(rng, R, C, nmax=6, allow_bad=True):
    """a selection program; tracks the (rows, cols) it expects so indices stay mostly in range"""
    ops = []
    r, c = R, C
    for _ in range(rng.randint(1, nmax)):
        u = rng.random()
        if u < .12:
            ops.append({'op': 'val', 'i': rng.randint(-r - 1, r), 'j': rng.randint(-c - 1, c)})
            continue
        if u < .3:
            ix0, ix1 = gen_index(rng, r, allow_bad), gen_index(rng, c, allow_bad)
            if ix0['t'] == 'int' and ix1['t'] == 'int':
                ix1 = {'t': 'slice', 'a': None, 'b': None, 's': None}
            ops.append({'op': 'sel2', 'ix0': ix0, 'ix1': ix1})
            r2, c2 = py_len(ix0, r), py_len(ix1, c)
            if r2 is None or c2 is None:
                break
            r, c = r2, c2
            continue
        dim = rng.choice([0, 0, 1])
        ix = gen_index(rng, r if dim == 0 else c, allow_bad)
        ops.append({'op': 'sel', 'ix': ix, 'dim': dim, 'via': rng.choice(['select', 'getitem'])})
        k = py_len(ix, r if dim == 0 else c)
        if k is None:
            break
        if dim == 0:
            r = k
        else:
            c = k
    return ops


def py_select(lst, ix):
    """Python's own list semantics for an index expression; raises like Python does."""
    n = len(lst)
    t = ix['t']
    if t == 'int':
        i = ix['i']
        if not -n <= i < n:
            raise IndexError
        return [lst[i]]
    if t == 'slice':
        if ix['s'] is not None and ix['s'] <= 0:
            raise ValueError
        return lst[slice(ix['a'], ix['b'], ix['s'])]
    if t == 'mask':
        if len(ix['bs']) != n:
            raise IndexError
        return [x for x, b in zip(lst, ix['bs']) if b]
    for i in ix['is']:
        if not -n <= i < n:
            raise IndexError
    return [lst[i] for i in ix['is']]


def py_len(ix, n):
    try:
        return len(py_select(list(range(n)), ix))
    except (IndexError, ValueError):
        return None


def ref_apply(ref, ncols, op):
    """apply one op to the nested-list reference (rows, ncols); returns (rows, ncols) or raises"""
    if op['op'] == 'sel':
        if op['dim'] == 0:
            return py_select(ref, op['ix']), ncols
        k = len(py_select(list(range(ncols)), op['ix']))
        return [py_select(row, op['ix']) for row in ref], k
    if op['op'] == 'sel2':
        rows = py_select(ref, op['ix0'])
        k = len(py_select(list(range(ncols)), op['ix1']))
        return [py_select(row, op['ix1']) for row in rows], k
    raise AssertionError


def real_apply(cur, op):
    if op['op'] == 'sel':
        ix = to_py_index(op['ix'])
        if op.get('via') == 'getitem':
            return cur[ix] if op['dim'] == 0 else cur[:, ix]
        return cur.select(ix, op['dim'])
    if op['op'] == 'sel2':
        return cur[to_py_index(op['ix0']), to_py_index(op['ix1'])]
    raise AssertionError


def run_real_program(spec, payload, ops):
    """Run a selection program on the real container.
    Returns (outcomes, final container or None, findings) where findings lists direct violations of
    the property text found on the way (independent of the Lean model)."""
    cur = build_real(spec, payload)
    kind = spec['kind']
    ref, ncols = [list(map(list, row)) for row in spec['cells']], spec['C']
    outs, findings = [], []
    for k, op in enumerate(ops):
        if cur is None:
            outs.append(None)
            continue
        before = real_repr(cur, payload)
        if op['op'] == 'val':
            try:
                got = [dec(x, payload) for x in cur[op['i'], op['j']].tolist()]
                out = {'ok': got}
            except Exception:
                got, out = None, 'raises'
            try:
                exp = ref[op['i']][op['j']] if (-len(ref) <= op['i'] < len(ref) and -ncols <= op['j'] < ncols) else None
                if exp is None:
                    raise IndexError
            except IndexError:
                exp = None
            if (exp is None) != (got is None) or (exp is not None and exp != got):
                findings.append((k, 'single-cell access differs from the nested list', exp, got))
            outs.append(out)
            continue
        try:
            new = real_apply(cur, op)
            out = {'ok': real_repr(new, payload)}
        except Exception as e:
            new, out = None, 'raises'
            exc = type(e).__name__
        try:
            eref, encols = ref_apply(ref, ncols, op)
        except (IndexError, ValueError):
            eref = None
        if (eref is None) != (new is None):
            findings.append((k, 'raises' if new is None else 'returns data where Python raises',
                             'raises' if eref is None else eref, 'raises' if new is None else out))
        elif new is not None:
            rep = out['ok']
            if not well_formed(rep, kind):
                findings.append((k, 'result is not a well-formed container', None, rep))
            elif rep['R'] != len(eref) or rep['C'] != encols or cells_of_repr(rep, kind) != eref:
                findings.append((k, 'selected cells differ from the nested-list selection', eref,
                                 cells_of_repr(rep, kind)))
            else:
                try:
                    if cells_via_api(new, payload) != eref:
                        findings.append((k, 'cells read through m[i,j] differ', eref, None))
                except Exception as e:
                    findings.append((k, f'reading the result raises {type(e).__name__}', eref, None))
        if real_repr(cur, payload) != before:
            findings.append((k, 'selection modified its source', before, real_repr(cur, payload)))
        outs.append(out)
        if new is None:
            cur = None
        else:
            cur = new
            if eref is not None:
                ref, ncols = eref, encols
    return outs, cur, findings

"""Abstract-frame generator, pandas renderer, canonicalisers and plain-Python oracle for the
materialization properties C01 / C02 / C04.

The ABSTRACT frame is the ground truth (DESIGN.md section 3): cells are generated as abstract values
(number / category / token list / numeric sequence / epoch second / vector / text) and only then RENDERED
to pandas objects - object and `str` dtype, nullable and numpy numeric dtypes, explicit time formats,
datetime64 in several units, sep-joined or list-valued multicategorical cells with padding - and given
index labels by several construction routes (assignment, set_index, concat, iloc).  What the encoded
cell must be is computed from the abstract cell alone (`expected_cell`, datetime for the calendar).

Abstract cell (JSON-able), None = missing:
  numerical            float | 'inf' | '-inf'
  categorical          str | int
  multicategorical     [token, ...]            (stripped tokens, repeats allowed)
  sequence_numerical   [float | 'nan', ...]
  timestamp            int (epoch seconds)  |  {'bad': text}
  embedding            [float, ...]            (fixed width per column; at least one non-missing cell)
  text_embedded / image_embedded   str
Canonical encoded value: int -> int, float -> [ieee754 bits], NaN -> None (same coding as Drivers/C01.lean).
"""
from __future__ import annotations

import datetime
import math
import os
import warnings

os.environ.setdefault('TQDM_DISABLE', '1')

import numpy as np
import pandas as pd
import torch

from harness import core

warnings.filterwarnings('ignore')

STYPES = ['numerical', 'categorical', 'text_embedded', 'text_tokenized', 'multicategorical',
          'sequence_numerical', 'timestamp', 'image_embedded', 'embedding']
EMB_KINDS = ('embedding', 'text_embedded', 'image_embedded')
EPOCH = datetime.datetime(1970, 1, 1)

NAME_POOL = ['a', 'B', 'b1', 'b10', 'b2', '_x', 'é', 'Z', 'aa', 'A', 'z9', 'col 1', 'k', 'Kq', 'm_2', 'ß', '0n', 'x.y']
NUM_POOL = [0.0, 0.5, -2.25, 3.0, 100.0, 1e10, 16777216.0, -0.125, 7.0, 1.0, 2.0, -1.0, 65504.0]
CAT_STR = ['a', 'b', 'c', 'd', 'é', '', ' x', 'A', 'NA', '日本', 'b ', '-1', 'nan', 'None', '0']
TOKENS = ['x', 'y', 'z', 'w', 'é', 'a b', 'Q', 'x1', 'yy', '-1', 'nan', 'None', '0']
SEPS = ['|', ',', ';', '::', '/']
TEXTS = ['hello', 'wörld', '', 'a b c', 'Hello', 'olleh', '12', 'the quick brown fox', ' pad ', 'None']
BAD_TIMES = ['garbage', '2020-13-45 00:00:00', 'n/a', '31/31/2000', 'yesterday']
TIME_FORMATS = [
    # (format handed to the library, strftime format used for rendering, resolution in seconds)
    ('%Y-%m-%d %H:%M:%S', '%Y-%m-%d %H:%M:%S', 1),
    ('%d/%m/%Y %H:%M:%S', '%d/%m/%Y %H:%M:%S', 1),
    ('%Y%m%d %H%M%S', '%Y%m%d %H%M%S', 1),
    ('%m-%d-%Y %H.%M.%S', '%m-%d-%Y %H.%M.%S', 1),
    ('%Y-%m-%dT%H:%M:%S', '%Y-%m-%dT%H:%M:%S', 1),
    ('%Y/%m/%d %H:%M', '%Y/%m/%d %H:%M', 60),
    ('%Y-%m-%d', '%Y-%m-%d', 86400),
    ('%d.%m.%Y', '%d.%m.%Y', 86400),
    (None, '%Y-%m-%d %H:%M:%S', 1),
]


def quiet():
    """no progress bars from the mini-batch embedder loop (in this process only)"""
    import torch_frame.data.mapper as M
    if getattr(M.tqdm, '__name__', '') != '_plain_iter':
        def _plain_iter(it, **kw):
            return it
        M.tqdm = _plain_iter


# ------------------------------------------------------------------------------------------ values
def fval(x):
    """abstract float -> python float"""
    if isinstance(x, str):
        return float(x)
    return float(x)


def cval(x):
    """python number -> canonical encoded value"""
    if isinstance(x, bool):
        return int(x)
    if isinstance(x, int):
        return int(x)
    x = float(x)
    return None if math.isnan(x) else [core.float_bits(x)]


def ckey(k):
    """a category as the library reports it -> canonical key (str | int)"""
    if isinstance(k, str):
        return k
    if isinstance(k, (bool, np.bool_)):
        return int(k)
    if isinstance(k, (int, np.integer)):
        return int(k)
    if isinstance(k, (float, np.floating)) and float(k).is_integer():
        return int(k)
    return repr(k)


def stub_vec(w, salt, s):
    """the deterministic stub text / image embedder (same arithmetic as Drivers/C01.lean `stubEmbed`)"""
    pos = sum((i + 1) * ord(c) for i, c in enumerate(s))
    return [float((len(s) * 31 + (j + 1) * pos + 7 * j + salt) % 251) for j in range(w)]


class Stub:
    """callable handed to TextEmbedderConfig / ImageEmbedderConfig; records what it receives"""

    def __init__(self, w, salt):
        self.w, self.salt, self.calls = w, salt, []

    def __call__(self, xs):
        self.calls.append(list(xs))
        return torch.tensor([stub_vec(self.w, self.salt, s) for s in xs], dtype=torch.float32).reshape(len(xs), self.w)


def epoch_of(y, mo, d, h=0, mi=0, s=0):
    return int((datetime.datetime(y, mo, d, h, mi, s) - EPOCH).total_seconds())


def components_of(sec):
    """the seven calendar components from Python's datetime (independent of the Lean calendar)"""
    t = EPOCH + datetime.timedelta(seconds=sec)
    return [t.year, t.month - 1, t.day - 1, t.weekday(), t.hour, t.minute, t.second]


# ------------------------------------------------------------------------------------------ generation
def _missing_rate(rng):
    return rng.choice([0.0, 0.0, 0.15, 0.3, 0.6])


def gen_time(rng):
    mode = rng.random()
    if mode < 0.25:
        y = rng.choice([1700, 1800, 1900, 1999, 2000, 2001, 2100, 2199, 2200, 1970, 1969, 2024, 2038])
        mo, d = rng.choice([(1, 1), (12, 31), (2, 28), (3, 1), (2, 29), (6, 30), (7, 31)])
        if (mo, d) == (2, 29) and not (y % 4 == 0 and (y % 100 != 0 or y % 400 == 0)):
            d = 28
        h, mi, s = rng.choice([(0, 0, 0), (23, 59, 59), (12, 0, 0), (0, 0, 1)])
        return epoch_of(y, mo, d, h, mi, s)
    y = rng.randint(1700, 2200)
    mo = rng.randint(1, 12)
    d = rng.randint(1, 28)
    return epoch_of(y, mo, d, rng.randint(0, 23), rng.randint(0, 59), rng.randint(0, 59))


def gen_col(rng, name, st, n, target_kind=None):
    """one abstract column + its render options"""
    pm = _missing_rate(rng)
    if target_kind is not None:
        pm = rng.choice([0.0, 0.0, 0.0, 0.2])
    miss = lambda: rng.random() < pm   # noqa: E731
    col = {'name': name, 'stype': st}
    if st == 'numerical':
        ints_only = rng.random() < 0.4
        def cell():
            if miss():
                return None
            if ints_only:
                return float(rng.randint(-5, 9))
            r = rng.random()
            if r < 0.08:
                return rng.choice(['inf', '-inf'])
            return rng.choice(NUM_POOL) if r < 0.6 else rng.randint(-40, 40) / 8.0
        cells = [cell() for _ in range(n)]
        if all(c is None for c in cells) and rng.random() < 0.8:
            cells[rng.randrange(n)] = 1.0
        dt = 'float64'
        if ints_only:
            dt = rng.choice(['float64', 'Int64', 'float32', 'int64'])
            if dt == 'int64' and any(c is None for c in cells):
                dt = 'Int64'
        else:
            dt = rng.choice(['float64', 'float64', 'float32'])
        col['r'] = {'dtype': dt}
    elif st == 'categorical':
        as_int = rng.random() < 0.25
        if target_kind == 'single':
            k = 1
        elif target_kind == 'binary':
            k = 2
        elif target_kind == 'multi':
            k = rng.randint(3, 5)
        else:
            k = rng.randint(1, 6)
        pool = rng.sample(range(0, 12), k) if as_int else rng.sample(CAT_STR, k)
        skew = rng.random() < 0.5
        def cell():
            if miss():
                return None
            return pool[min(int(rng.random() ** 2 * k), k - 1)] if skew else rng.choice(pool)
        cells = [cell() for _ in range(n)]
        if target_kind in ('binary', 'multi'):
            # make the class count what was asked for whenever the frame is long enough
            free = list(range(n))
            rng.shuffle(free)
            for v, i in zip(pool, free):
                cells[i] = v
        if all(c is None for c in cells) and rng.random() < 0.8:
            cells[rng.randrange(n)] = pool[0]
        if as_int:
            # (integer categories held in an OBJECT column are outside the stated domain: pandas refuses to merge an
            #  all-None object selection of such a column against the int64 category index - logged in the report)
            dt = rng.choice(['Int64', 'float64', 'int64'])
            if dt == 'int64' and any(c is None for c in cells):
                dt = 'Int64'
        else:
            dt = rng.choice(['object', 'str'])
        col['r'] = {'dtype': dt, 'na': rng.choice(['None', 'nan'])}
    elif st == 'multicategorical':
        how = rng.choice(['sep', 'sep', 'list'])
        sep = rng.choice(SEPS)
        k = rng.randint(1, 6)
        pool = rng.sample(TOKENS, k)
        def cell():
            if miss():
                return None
            m = rng.choice([0, 1, 1, 2, 2, 3, 4])
            toks = [rng.choice(pool) for _ in range(m)]
            if m >= 2 and rng.random() < 0.06:
                toks[rng.randrange(m)] = ''
            if how == 'list' and m == 1 and rng.random() < 0.05:
                toks = ['']
            return toks
        cells = [cell() for _ in range(n)]
        if all(not c for c in cells) and rng.random() < 0.8:
            cells[rng.randrange(n)] = [pool[0]]
        pads = [[[rng.choice([0, 0, 1, 2]), rng.choice([0, 0, 1])] for _ in (c or [])] for c in cells]
        col['r'] = {'how': how, 'sep': sep if how == 'sep' else None,
                    'dtype': rng.choice(['object', 'str']) if how == 'sep' else 'object',
                    'na': rng.choice(['None', 'nan']), 'pads': pads,
                    'blank': [rng.choice([0, 0, 1, 3]) for _ in cells]}
    elif st == 'sequence_numerical':
        def cell():
            if miss():
                return None
            m = rng.choice([0, 1, 2, 3, 5])
            return [('nan' if rng.random() < 0.15 else rng.choice(NUM_POOL)) for _ in range(m)]
        cells = [cell() for _ in range(n)]
        if all(not c for c in cells) and rng.random() < 0.7:
            cells[rng.randrange(n)] = [1.0]
        col['r'] = {'na': rng.choice(['None', 'nan'])}
    elif st == 'timestamp':
        kind = rng.choice(['str', 'str', 'str', 'dt64'])
        fmt, pyfmt, res = rng.choice(TIME_FORMATS)
        if kind == 'dt64':
            res = 1
        # unparseable strings only under an explicit format: with format=None pandas GUESSES the format from
        # the first entry, and what it guesses from a malformed string is pandas' business, not the library's
        pbad = rng.choice([0.0, 0.0, 0.15]) if (kind == 'str' and fmt is not None) else 0.0
        def cell():
            if miss():
                return None
            if rng.random() < pbad:
                return {'bad': rng.choice(BAD_TIMES)}
            s = gen_time(rng)
            return s - s % res
        cells = [cell() for _ in range(n)]
        if all(not isinstance(c, int) for c in cells) and rng.random() < 0.8:
            s = gen_time(rng)
            cells[rng.randrange(n)] = s - s % res
        col['r'] = {'kind': kind, 'fmt': fmt, 'pyfmt': pyfmt, 'dtype': rng.choice(['object', 'str']),
                    'unit': rng.choice(['s', 'ms', 'us', 'ns']), 'na': rng.choice(['None', 'nan'])}
    elif st == 'embedding':
        w = rng.randint(1, 5)
        pm = rng.choice([0.0, 0.0, 0.25, 0.5])
        cells = [None if rng.random() < pm else
                 [rng.choice(NUM_POOL) if rng.random() < 0.5 else float(rng.randint(0, 9)) for _ in range(w)]
                 for _ in range(n)]
        if all(c is None for c in cells):
            # an embedding column without a single vector has no width: outside the domain (still raises)
            cells[rng.randrange(n)] = [float(rng.randint(0, 9)) for _ in range(w)]
        col['r'] = {'as': rng.choice(['list', 'ndarray']), 'w': w, 'na': rng.choice(['None', 'nan'])}
    elif st in ('text_embedded', 'image_embedded'):
        pm = rng.choice([0.0, 0.0, 0.2])
        cells = [None if rng.random() < pm else rng.choice(TEXTS) for _ in range(n)]
        col['r'] = {'dtype': rng.choice(['object', 'str']), 'na': rng.choice(['None', 'nan']),
                    'w': rng.randint(1, 4), 'salt': rng.randint(0, 50), 'batch': rng.choice([None, None, 1, 2, 5])}
    else:
        raise ValueError(st)
    col['cells'] = cells
    return col


FEATURE_STYPES = ['numerical', 'numerical', 'categorical', 'categorical', 'multicategorical', 'multicategorical',
                  'sequence_numerical', 'timestamp', 'timestamp', 'embedding', 'text_embedded', 'image_embedded']


def gen_frame(rng, n=None, ncols=None, target=None, focus=None):
    """abstract frame: 1-12 rows, 1-8 feature columns (+ optional target column at a random position)"""
    n = n if n is not None else rng.choice([1, 1, 2, 2, 3, 4, 5, 6, 8, 10, 12])
    ncols = ncols if ncols is not None else rng.choice([1, 2, 3, 3, 4, 5, 6, 8])
    names = rng.sample(NAME_POOL, ncols + 1)
    cols = []
    for i in range(ncols):
        st = focus if (focus and (i == 0 or rng.random() < 0.5)) else rng.choice(FEATURE_STYPES)
        cols.append(gen_col(rng, names[i], st, n))
    tname = None
    tk = target if target is not None else rng.choice(['none', 'none', 'regression', 'binary', 'multi', 'multi',
                                                       'single', 'timestamp'])
    if tk != 'none':
        tname = names[ncols]
        if tk == 'regression':
            tcol = gen_col(rng, tname, 'numerical', n, target_kind='regression')
        elif tk == 'timestamp':
            tcol = gen_col(rng, tname, 'timestamp', n, target_kind='timestamp')
        else:
            tcol = gen_col(rng, tname, 'categorical', n, target_kind=tk)
        cols.insert(rng.randint(0, len(cols)), tcol)
    return {'n': n, 'cols': cols, 'target': tname}


def gen_labels(rng, n, kind=None):
    """an index labelling of n rows and the pandas route that produces it"""
    kind = kind or rng.choice(['range', 'offset', 'perm', 'str', 'dup', 'dupall', 'concat', 'iloc', 'setindex',
                               'negative', 'float'])
    if kind == 'range':
        return {'kind': kind, 'how': 'default', 'values': list(range(n))}
    if kind == 'offset':
        k = rng.choice([1, 5, 100, -3])
        return {'kind': kind, 'how': 'assign', 'values': list(range(k, k + n))}
    if kind == 'negative':
        return {'kind': kind, 'how': 'assign', 'values': [-(i + 1) for i in range(n)]}
    if kind == 'perm':
        v = list(range(n))
        rng.shuffle(v)
        return {'kind': kind, 'how': rng.choice(['assign', 'setindex']), 'values': v}
    if kind == 'str':
        v = [f'r{rng.randint(0, 99)}_{i}' for i in range(n)]
        rng.shuffle(v)
        return {'kind': kind, 'how': rng.choice(['assign', 'setindex']), 'values': v}
    if kind == 'dup':
        return {'kind': kind, 'how': rng.choice(['assign', 'setindex']),
                'values': [rng.randint(0, max(0, n // 2)) for _ in range(n)]}
    if kind == 'dupall':
        return {'kind': kind, 'how': 'assign', 'values': [rng.choice([0, 7, 'k'])] * n}
    if kind == 'setindex':
        return {'kind': kind, 'how': 'setindex', 'values': [rng.randint(-2, n + 2) for _ in range(n)]}
    if kind == 'float':
        return {'kind': kind, 'how': 'assign', 'values': [i + 0.5 for i in range(n)]}
    if kind == 'concat':
        cuts = sorted(rng.sample(range(1, n), min(n - 1, rng.choice([1, 1, 2])))) if n > 1 else []
        bounds = [0] + cuts + [n]
        vals = []
        for a, b in zip(bounds, bounds[1:]):
            vals += list(range(b - a))
        return {'kind': kind, 'how': 'concat', 'values': vals, 'bounds': bounds}
    if kind == 'iloc':
        # the frame's rows sit at scattered positions of a larger frame and are selected back by iloc
        m = n + rng.randint(1, 4)
        pos = rng.sample(range(m), n)
        return {'kind': kind, 'how': 'iloc', 'values': pos, 'm': m}
    raise ValueError(kind)


# ------------------------------------------------------------------------------------------ rendering
def _na(r):
    return None if r.get('na', 'None') == 'None' else np.nan


def render_cells(col, cells=None):
    """abstract cells -> a python list of raw pandas cell values + the dtype to build the Series with"""
    st, r = col['stype'], col['r']
    cells = col['cells'] if cells is None else cells
    if st == 'numerical':
        dt = r['dtype']
        if dt in ('Int64', 'int64'):
            return [pd.NA if c is None else int(fval(c)) for c in cells], dt
        return [np.nan if c is None else fval(c) for c in cells], dt
    if st == 'categorical':
        dt = r['dtype']
        if dt in ('Int64', 'int64'):
            return [pd.NA if c is None else c for c in cells], dt
        if dt == 'float64':
            return [np.nan if c is None else float(c) for c in cells], dt
        return [_na(r) if c is None else c for c in cells], dt
    if st == 'multicategorical':
        out = []
        for i, c in enumerate(cells):
            if c is None:
                out.append(_na(r))
            elif r['how'] == 'list':
                out.append(list(c))
            elif not c:
                out.append(' ' * r['blank'][i % len(r['blank'])])
            else:
                pads = r['pads'][i % len(r['pads'])]
                pads = pads if len(pads) == len(c) else [[0, 0]] * len(c)
                out.append(r['sep'].join(' ' * p[0] + t + ' ' * p[1] for t, p in zip(c, pads)))
        return out, r['dtype']
    if st == 'sequence_numerical':
        return [_na(r) if c is None else [fval(x) for x in c] for c in cells], 'object'
    if st == 'timestamp':
        if r['kind'] == 'dt64':
            arr = np.array([np.datetime64('NaT') if not isinstance(c, int) else np.datetime64(c, 's')
                            for c in cells], dtype=f"datetime64[{r['unit']}]")
            return arr, None
        out = []
        for c in cells:
            if c is None:
                out.append(_na(r))
            elif isinstance(c, dict):
                out.append(c['bad'])
            else:
                out.append((EPOCH + datetime.timedelta(seconds=c)).strftime(r['pyfmt']))
        return out, r['dtype']
    if st == 'embedding':
        if r['as'] == 'ndarray':
            return [_na(r) if c is None else np.array(c, dtype='float64') for c in cells], 'object'
        return [_na(r) if c is None else list(c) for c in cells], 'object'
    if st in ('text_embedded', 'image_embedded'):
        return [_na(r) if c is None else c for c in cells], r['dtype']
    raise ValueError(st)


def text_input(col, c):
    """the string the embedder must receive for an abstract text cell (`str(value)`, fix 2ba733f)"""
    if c is not None:
        return c
    if col['r']['dtype'] == 'str':
        return 'nan'
    return 'None' if col['r'].get('na', 'None') == 'None' else 'nan'


def _series(vals, dt, index=None):
    if dt is None:
        return pd.Series(vals, index=index)
    if dt == 'object':
        arr = np.empty(len(vals), dtype=object)
        for i, v in enumerate(vals):
            arr[i] = v
        return pd.Series(arr, index=index, dtype=object)
    return pd.Series(vals, dtype=dt, index=index)


def _plain_df(frame, rows, order):
    data = {}
    for j in order:
        col = frame['cols'][j]
        vals, dt = render_cells(col, [col['cells'][i] for i in rows])
        data[col['name']] = _series(vals, dt)
    return pd.DataFrame(data)


def render(frame, labels=None, dfperm=None, rows=None):
    """abstract frame (optionally a row multiset `rows`) -> DataFrame with the requested labelling"""
    n = frame['n']
    rows = list(range(n)) if rows is None else rows
    order = list(range(len(frame['cols']))) if dfperm is None else dfperm
    labels = labels or {'how': 'default'}
    how = labels['how']
    if how == 'default':
        return _plain_df(frame, rows, order)
    if how == 'assign':
        df = _plain_df(frame, rows, order)
        df.index = pd.Index(labels['values'])
        return df
    if how == 'setindex':
        df = _plain_df(frame, rows, order)
        df['__idx__'] = labels['values']
        df = df.set_index('__idx__')
        df.index.name = None
        return df
    if how == 'concat':
        b = labels['bounds']
        parts = [_plain_df(frame, rows[a:c], order) for a, c in zip(b, b[1:])]
        return pd.concat(parts)
    if how == 'iloc':
        pos, m = labels['values'], labels['m']
        # a larger frame: the wanted rows at positions `pos`, copies of row 0 elsewhere
        big_rows = [rows[0]] * m
        for k, p in enumerate(pos):
            big_rows[p] = rows[k]
        big = _plain_df(frame, big_rows, order)
        return big.iloc[pos]
    raise ValueError(how)


def dataset_kwargs(frame, dictperm=None, with_target=True):
    """(col_to_stype in the requested dict order, keyword arguments, stub callables by column)"""
    import torch_frame
    from torch_frame.config import ImageEmbedderConfig, TextEmbedderConfig
    order = list(range(len(frame['cols']))) if dictperm is None else dictperm
    c2s, sep, fmt, tcfg, icfg, stubs = {}, {}, {}, {}, {}, {}
    for j in order:
        col = frame['cols'][j]
        name, st, r = col['name'], col['stype'], col['r']
        c2s[name] = torch_frame.stype(st)
        if st == 'multicategorical':
            sep[name] = r['sep']
        elif st == 'timestamp':
            fmt[name] = r['fmt'] if r['kind'] == 'str' else None
        elif st == 'text_embedded':
            stubs[name] = Stub(r['w'], r['salt'])
            tcfg[name] = TextEmbedderConfig(text_embedder=stubs[name], batch_size=r['batch'])
        elif st == 'image_embedded':
            stubs[name] = Stub(r['w'], r['salt'])
            icfg[name] = ImageEmbedderConfig(image_embedder=stubs[name], batch_size=r['batch'])
    kw = {'target_col': frame['target'] if with_target else None, 'col_to_sep': sep, 'col_to_time_format': fmt}
    if tcfg:
        kw['col_to_text_embedder_cfg'] = tcfg
    if icfg:
        kw['col_to_image_embedder_cfg'] = icfg
    return c2s, kw, stubs


def make_dataset(frame, labels=None, dfperm=None, dictperm=None):
    from torch_frame.data import Dataset
    quiet()
    df = render(frame, labels, dfperm)
    c2s, kw, stubs = dataset_kwargs(frame, dictperm)
    return Dataset(df, c2s, **kw), stubs


# ------------------------------------------------------------------------------------------ canonicalisers
def _cells_of_feat(feat, st, i, j):
    """entry (i, j) of a feat_dict value as a canonical cell"""
    if isinstance(feat, torch.Tensor):
        v = feat[i, j]
        vals = v.tolist() if v.dim() > 0 else [v.item()]
        if not feat.is_floating_point():
            return [int(x) for x in vals]
        return [cval(float(x)) for x in vals]
    v = feat[i, j]
    vals = v.tolist()
    if v.is_floating_point():
        return [cval(float(x)) for x in vals]
    out = [int(x) for x in vals]
    return sorted(out) if st == 'multicategorical' else out


def canon_y(y):
    if y is None:
        return None
    if isinstance(y, torch.Tensor):
        out = []
        for i in range(y.shape[0]):
            v = y[i]
            vals = v.tolist() if v.dim() > 0 else [v.item()]
            out.append([int(x) for x in vals] if not y.is_floating_point() else [cval(float(x)) for x in vals])
        return out
    return f'unexpected y type {type(y).__name__}'


def canon_tf(tf):
    """everything observable of a TensorFrame: names, every cell through feat_dict (`grid`) and through
    get_col_feat (`cells`), y, number of rows - in the coding of Drivers/C01.lean `jTF`"""
    n = int(tf.num_rows)
    names = {st.value: list(cols) for st, cols in tf.col_names_dict.items()}
    grid, cells = {}, {}
    for st, feat in tf.feat_dict.items():
        C = len(tf.col_names_dict[st])
        if isinstance(feat, dict):
            grid[st.value] = 'dict'
            continue
        grid[st.value] = [[_cells_of_feat(feat, st.value, i, j) for j in range(C)] for i in range(n)]
    for st, cols in tf.col_names_dict.items():
        for name in cols:
            try:
                f = tf.get_col_feat(name)
                if isinstance(f, dict):
                    cells[name] = 'dict'
                    continue
                rows = int(f.shape[0]) if isinstance(f, torch.Tensor) else int(f.num_rows)
                cells[name] = [_cells_of_feat(f, st.value, i, 0) for i in range(rows)]
            except Exception as e:   # noqa
                cells[name] = f'raises {type(e).__name__}'
    return {'names': names, 'numRows': n, 'cells': cells, 'grid': grid, 'y': canon_y(tf.y)}


def canon_stat_value(v):
    if isinstance(v, torch.Tensor):
        return [int(x) for x in v.tolist()]
    if isinstance(v, tuple):
        return [canon_stat_value(x) for x in v]
    if isinstance(v, list):
        return [canon_stat_value(x) for x in v]
    if isinstance(v, (bool, np.bool_)):
        return int(v)
    if isinstance(v, (int, np.integer)):
        return int(v)
    if isinstance(v, (float, np.floating)):
        return cval(float(v))
    if isinstance(v, str):
        return v
    return repr(v)


def canon_stats_full(col_stats):
    """the complete col_stats dictionary, canonical (used real-vs-real under relabelling / permutation)"""
    return {c: {k.value: canon_stat_value(v) for k, v in sorted(st.items(), key=lambda kv: kv[0].value)}
            for c, st in sorted(col_stats.items())}


def model_stats(col_stats):
    """the part of col_stats the Lean model carries: category list, EMB_DIM, YEAR_RANGE"""
    from torch_frame.data.stats import StatType
    out = {}
    for c, st in col_stats.items():
        cats = []
        if StatType.COUNT in st:
            cats = [ckey(k) for k in st[StatType.COUNT][0]]
        elif StatType.MULTI_COUNT in st:
            cats = [ckey(k) for k in st[StatType.MULTI_COUNT][0]]
        yr = [int(x) for x in st[StatType.YEAR_RANGE]] if StatType.YEAR_RANGE in st else [-1, -1]
        out[c] = {'cats': cats, 'embDim': int(st.get(StatType.EMB_DIM, -1)), 'yearRange': yr}
    return out


def canon_names(d):
    return {st.value: list(cols) for st, cols in d.items()}


# ------------------------------------------------------------------------------------------ model side
def model_cell(col, c):
    st = col['stype']
    if st in ('text_embedded', 'image_embedded'):
        return text_input(col, c)
    if c is None:
        return None
    if st == 'numerical':
        return cval(fval(c))
    if st == 'categorical':
        return c
    if st == 'multicategorical':
        return list(c)
    if st == 'sequence_numerical':
        return [cval(fval(x)) for x in c]
    if st == 'timestamp':
        return 'bad' if isinstance(c, dict) else int(c)
    if st == 'embedding':
        return [cval(fval(x)) for x in c]
    raise ValueError(st)


def model_cols(frame, rows=None, order=None):
    rows = list(range(frame['n'])) if rows is None else rows
    order = list(range(len(frame['cols']))) if order is None else order
    out = []
    for j in order:
        col = frame['cols'][j]
        d = {'name': col['name'], 'stype': col['stype'], 'cells': [model_cell(col, col['cells'][i]) for i in rows]}
        if col['stype'] in ('text_embedded', 'image_embedded'):
            d['w'], d['salt'] = col['r']['w'], col['r']['salt']
        out.append(d)
    return out


def model_frame(frame, cats, labels=None):
    """the 'mat' / 'conv' request body for the base frame"""
    n = frame['n']
    return {'labels': list(labels['values']) if labels else list(range(n)), 'cols': model_cols(frame),
            'target': frame['target'], 'cats': cats}


def model_label(v):
    """index labels travel as keys; floats (k + 0.5) as strings"""
    return v if isinstance(v, (int, str)) and not isinstance(v, bool) else repr(v)


def sort_multicat(view, frame_or_stypes):
    """model cells of multicategorical columns are sets: sort them (Python's set order is unspecified)"""
    if not isinstance(view, dict):
        return view
    mc = {c['name'] for c in frame_or_stypes['cols'] if c['stype'] == 'multicategorical'}
    cells = {k: ([sorted(c) if isinstance(c, list) else c for c in v] if k in mc and isinstance(v, list) else v)
             for k, v in view['cells'].items()}
    grid = dict(view['grid'])
    if 'multicategorical' in grid and isinstance(grid['multicategorical'], list):
        grid['multicategorical'] = [[sorted(c) for c in row] for row in grid['multicategorical']]
    out = dict(view)
    out['cells'], out['grid'] = cells, grid
    return out


# ------------------------------------------------------------------------------------------ plain-Python oracle
def expected_cell(col, c, cats):
    """the canonical encoding of one abstract cell, straight from the property's text"""
    st = col['stype']
    if st == 'numerical':
        return [None] if c is None else [cval(fval(c))]
    if st == 'categorical':
        return [cats.index(c)] if (c is not None and c in cats) else [-1]
    if st == 'multicategorical':
        if c is None:
            return [-1]
        return sorted({cats.index(t) for t in set(c) if t in cats})
    if st == 'sequence_numerical':
        return [] if c is None else [cval(fval(x)) for x in c]
    if st == 'timestamp':
        return components_of(c) if isinstance(c, int) else [-1] * 7
    if st == 'embedding':
        return [None] * col['r']['w'] if c is None else [cval(fval(x)) for x in c]
    if st in ('text_embedded', 'image_embedded'):
        return [cval(x) for x in stub_vec(col['r']['w'], col['r']['salt'], text_input(col, c))]
    raise ValueError(st)


def observed_values(col):
    """distinct non-missing values of a (multi)categorical column with their counts (per-cell sets)"""
    cnt = {}
    for c in col['cells']:
        if c is None:
            continue
        for v in (set(c) if col['stype'] == 'multicategorical' else [c]):
            cnt[v] = cnt.get(v, 0) + 1
    return cnt


def cats_problem(col, cats, is_target):
    """None when `cats` is an admissible category list for the column, else a description"""
    cnt = observed_values(col)
    if len(set(map(repr, cats))) != len(cats):
        return f'duplicate categories {cats}'
    if set(cats) != set(cnt):
        return f'categories {cats} are not the distinct observed values {sorted(cnt, key=repr)}'
    if is_target and col['stype'] == 'categorical' and len(cats) == 2:
        if not cats[0] < cats[1]:
            return f'two-class target categories not sorted: {cats}'
        return None
    if any(cnt[a] < cnt[b] for a, b in zip(cats, cats[1:])):
        return f'categories not in non-increasing count order: {[(k, cnt[k]) for k in cats]}'
    return None


def expected_names(frame, order=None, with_merge=True):
    """col_names_dict required by the property: grouped by stype, sorted, children behind the embedding group"""
    order = list(range(len(frame['cols']))) if order is None else order
    groups = {}
    for j in order:
        col = frame['cols'][j]
        if col['name'] != frame['target']:
            groups.setdefault(col['stype'], []).append(col['name'])
    groups = {k: sorted(v) for k, v in groups.items()}
    if with_merge:
        emb = groups.pop('embedding', []) + groups.pop('text_embedded', []) + groups.pop('image_embedded', [])
        if emb:
            groups['embedding'] = emb
    return groups


def expected_task(frame, ncls):
    t = next(c for c in frame['cols'] if c['name'] == frame['target'])
    if t['stype'] == 'numerical':
        return 'regression'
    if t['stype'] == 'categorical':
        if ncls <= 1:
            return 'raises'
        return 'binary_classification' if ncls == 2 else 'multiclass_classification'
    return 'raises'

"""Abstract-frame generator, pandas renderer, canonicalisers and plain-Python oracle for the
materialization properties C01 / C02 / C04.

The ABSTRACT frame is the ground truth (DESIGN.md section 3): cells are generated as abstract values
(number / category / token list / numeric sequence / epoch second / vector / text) and only then RENDERED
to pandas objects - object and `str` dtype, nullable and numpy numeric dtypes, explicit time formats,
datetime64 in several units, sep-joined or list-valued multicategorical cells with padding - and given
index labels by several construction routes (assignment, set_index, concat, iloc).  What the encoded
cell must be is computed from the abstract cell alone (`expected_cell`, datetime for the calendar).

Abstract cell (JSON-able), None = missing:
  numerical            float | 'inf' | '-inf'   (any double; the encoded value is the float32 the library's dtype holds)
  categorical          str | int
  multicategorical     [token, ...]            (stripped tokens, repeats allowed)
  sequence_numerical   [float | 'nan', ...]
  timestamp            int (epoch second of the WALL CLOCK the cell is written in)  |  {'bad': text}
                       a sub-second part (r['frac']) and a UTC offset (r['tz'] / r['tzname'], one per column, fixed
                       offsets only) are render options: they do not change the seven components
  embedding            [float, ...]            (fixed width per column; at least one non-missing cell)
  text_embedded / image_embedded   str
Canonical encoded value: int -> int, float -> [ieee754 bits], NaN -> None (same coding as Drivers/C01.lean).

Hardening families (design_notes/HARDENING.md) live here so that C01 / C02 / C04 share them: `gen_scaled_frame`
(one dimension from the size ladder of harness/stress.py), special value / name pools, dtype and container
renderings (CategoricalDtype, `string`, nullable and narrow numeric dtypes, tz-aware and sub-second timestamps,
object columns of datetime objects, tuple / set / ndarray cells), columns and datasets of one process that share
raw texts under different separators / time formats (`gen_shared_*`, frame['prelude']), configuration shapes
(frame['cfg']), second materialize() calls and twin comparison of the input frame (frame['again'] / ['twin']).
What the families touched but is NOT generated is probed live and logged by `probe_outside_domain`.
"""
from __future__ import annotations

import datetime
import math
import os
import struct
import warnings

os.environ.setdefault('TQDM_DISABLE', '1')

import numpy as np
import pandas as pd
import torch

from harness import core, stress

warnings.filterwarnings('ignore')

STYPES = ['numerical', 'categorical', 'text_embedded', 'text_tokenized', 'multicategorical',
          'sequence_numerical', 'timestamp', 'image_embedded', 'embedding']
EMB_KINDS = ('embedding', 'text_embedded', 'image_embedded')
EPOCH = datetime.datetime(1970, 1, 1)

# names: mixed case ('w'/'W', 'Zeta'/'alpha'), one a prefix of another ('label'/'label_prev'), sentinel look-alikes
NAME_POOL = ['a', 'B', 'b1', 'b10', 'b2', '_x', 'é', 'Z', 'aa', 'A', 'z9', 'col 1', 'k', 'Kq', 'm_2', 'ß', '0n', 'x.y',
             'w', 'W', 'Zeta', 'alpha', 'label', 'label_prev', 'sports', 'sportswear', '-1', 'nan', 'None', '0', 'x ',
             'É', 'target', 'Target']
NUM_POOL = [0.0, 0.5, -2.25, 3.0, 100.0, 1e10, 16777216.0, -0.125, 7.0, 1.0, 2.0, -1.0, 65504.0]
# float32-exact edge payloads + payloads that the float32 cast of the mappers has to round / overflow
NUM_SPECIAL = [x for x in stress.SPECIAL_F32 + stress.SPECIAL_F64] + [float(2 ** 31 + 1), float(2 ** 53), -16777217.0]
INT_SPECIAL = [-1, 0, 2 ** 24 + 1, 2 ** 31, -2 ** 31 - 1, 2 ** 53, 2 ** 53 + 1, 2 ** 62]
CAT_STR = ['a', 'b', 'c', 'd', 'é', '', ' x', 'A', 'NA', '日本', 'b ', '-1', 'nan', 'None', '0',
           '<NA>', 'a\x00', '\x00', ' ', 'sports', 'sportswear', 'É', '-1.0', 'NaN', 'null', 'x', 'a|b', 'a,b']
TOKENS = ['x', 'y', 'z', 'w', 'é', 'a b', 'Q', 'x1', 'yy', '-1', 'nan', 'None', '0',
          'sports', 'sportswear', 'X', 'É', 'a\x00', '<NA>', '-1.0']
# tokens that contain OTHER columns' separators (legal under a separator they do not contain)
TOKENS_WITH_SEP = ['x/y', 'y,z', 'p|q', 'u;v', 'a:b', 'x,y', 'z/w']
SEPS = ['|', ',', ';', '::', '/']
# separators of several characters, most of them a core character with blank padding (what a user picks when the bare
# character may occur inside a token: 'Washington,DC' under ', '); tokens may then contain every proper fragment of the
# separator (`sep_fragments`), only not the separator itself
SEPS_MULTI = [', ', ' | ', '; ', ' ; ', ' / ', ' :: ', ' - ', '--', '->', ' and ', '||', ', and ', '\t|\t', '| ', ' ,', ' + ', '<br>']
ATOMS = ['x', 'y', 'z', 'w', 'é', 'yy']
TEXTS = ['hello', 'wörld', '', 'a b c', 'Hello', 'olleh', '12', 'the quick brown fox', ' pad ', 'None', 'nan', '<NA>',
         'a\x00', '-1']
BAD_TIMES = ['garbage', '2020-13-45 00:00:00', 'n/a', '31/31/2000', 'yesterday']
TIME_FORMATS = [
    # (format handed to the library, strftime format used for rendering, resolution in seconds, sub-second, offset)
    ('%Y-%m-%d %H:%M:%S', '%Y-%m-%d %H:%M:%S', 1, False, False),
    ('%d/%m/%Y %H:%M:%S', '%d/%m/%Y %H:%M:%S', 1, False, False),
    ('%m/%d/%Y %H:%M:%S', '%m/%d/%Y %H:%M:%S', 1, False, False),
    ('%Y%m%d %H%M%S', '%Y%m%d %H%M%S', 1, False, False),
    ('%m-%d-%Y %H.%M.%S', '%m-%d-%Y %H.%M.%S', 1, False, False),
    ('%Y-%m-%dT%H:%M:%S', '%Y-%m-%dT%H:%M:%S', 1, False, False),
    ('%Y/%m/%d %H:%M', '%Y/%m/%d %H:%M', 60, False, False),
    ('%Y-%m-%d', '%Y-%m-%d', 86400, False, False),
    ('%d.%m.%Y', '%d.%m.%Y', 86400, False, False),
    (None, '%Y-%m-%d %H:%M:%S', 1, False, False),
    # sub-second text (%f) and UTC offsets (%z): the encoded components are those of the wall clock as written,
    # the second is the floor of the instant
    ('%Y-%m-%d %H:%M:%S.%f', '%Y-%m-%d %H:%M:%S.%f', 1, True, False),
    ('%d.%m.%Y %H:%M:%S,%f', '%d.%m.%Y %H:%M:%S,%f', 1, True, False),
    ('%Y-%m-%d %H:%M:%S %z', '%Y-%m-%d %H:%M:%S %z', 1, False, True),
    ('%Y-%m-%dT%H:%M:%S.%f%z', '%Y-%m-%dT%H:%M:%S.%f%z', 1, True, True),
    (None, '%Y-%m-%d %H:%M:%S.%f', 1, True, False),
    (None, '%Y-%m-%dT%H:%M:%S%z', 1, False, True),
]
# the wider range of strftime directives a user may put into col_to_time_format: 12-hour clock with AM/PM (%I %p), two-digit
# years (%y: 1969-2068), day of the year (%j), month / weekday names (%b %B %a %A), week numbers (%U %W %G %V %u), the
# locale's date / time representation (%c %x %X, C locale), time before date, undelimited fields, sub-second (%f) and offset (%z)
# parts combined with them; date-only patterns with names.  (format, strftime format, resolution in seconds, sub-second,
# offset, (first year, last year) or None)
TIME_FORMATS_RICH = [
    ('%m/%d/%Y %I:%M:%S %p', '%m/%d/%Y %I:%M:%S %p', 1, False, False, None),
    ('%d-%b-%Y %I:%M %p', '%d-%b-%Y %I:%M %p', 60, False, False, None),
    ('%b %d, %Y %I:%M:%S %p', '%b %d, %Y %I:%M:%S %p', 1, False, False, None),
    ('%A, %B %d, %Y %I:%M %p', '%A, %B %d, %Y %I:%M %p', 60, False, False, None),
    ('%I:%M:%S %p %d.%m.%Y', '%I:%M:%S %p %d.%m.%Y', 1, False, False, None),
    ('%Y-%m-%dT%I:%M:%S%p', '%Y-%m-%dT%I:%M:%S%p', 1, False, False, None),
    ('%Y-%m-%d %I %p', '%Y-%m-%d %I %p', 3600, False, False, None),
    ('%Y-%m-%d %I:%M:%S.%f %p', '%Y-%m-%d %I:%M:%S.%f %p', 1, True, False, None),
    ('%Y-%m-%d %I:%M:%S %p %z', '%Y-%m-%d %I:%M:%S %p %z', 1, False, True, None),
    ('%d/%m/%y %I:%M:%S%p%z', '%d/%m/%y %I:%M:%S%p%z', 1, False, True, (1969, 2068)),
    ('%y-%m-%d %H:%M:%S', '%y-%m-%d %H:%M:%S', 1, False, False, (1969, 2068)),
    ('%y%m%d %I%M%S%p', '%y%m%d %I%M%S%p', 1, False, False, (1969, 2068)),
    ('%Y-%j %H:%M:%S', '%Y-%j %H:%M:%S', 1, False, False, None),
    ('%Y.%j.%H.%M.%S.%f', '%Y.%j.%H.%M.%S.%f', 1, True, False, None),
    ('%d %B %Y %H:%M:%S', '%d %B %Y %H:%M:%S', 1, False, False, None),
    ('%a %d %b %Y %H:%M:%S', '%a %d %b %Y %H:%M:%S', 1, False, False, None),
    ('%H:%M:%S %Y-%m-%d', '%H:%M:%S %Y-%m-%d', 1, False, False, None),
    ('%Y%m%d%H%M%S', '%Y%m%d%H%M%S', 1, False, False, None),
    ('%c', '%c', 1, False, False, None),
    ('%Y-%m-%d %X', '%Y-%m-%d %X', 1, False, False, None),
    ('%x %X', '%x %X', 1, False, False, (1969, 2068)),
    ('%Y-%U-%w %H:%M:%S', '%Y-%U-%w %H:%M:%S', 1, False, False, None),
    ('%Y-%W-%w %H:%M:%S', '%Y-%W-%w %H:%M:%S', 1, False, False, None),
    ('%G-W%V-%u %H:%M:%S', '%G-W%V-%u %H:%M:%S', 1, False, False, None),
    ('%d %b %Y', '%d %b %Y', 86400, False, False, None),
    ('%B %d, %Y', '%B %d, %Y', 86400, False, False, None),
    ('%y%j', '%y%j', 86400, False, False, (1969, 2068)),
]
RICH_DIRECTIVES = ('%I', '%y', '%j', '%b', '%B', '%a', '%A', '%c', '%X', '%x', '%U', '%W', '%V')
TZ_MINUTES = [-720, -480, -210, 0, 60, 330, 345, 840]
TZ_NAMES = ['UTC', 'Etc/GMT+8', 'Etc/GMT-14', 'Etc/GMT+12', '+05:30', '-03:30', '+00:00']
FRACS_US = [0, 1, 499999, 500000, 500001, 700000, 999999]
UNIT_PER_S = {'s': 1, 'ms': 10 ** 3, 'us': 10 ** 6, 'ns': 10 ** 9}

# above this many cells a frame is read through the vectorised canonicaliser, and above MODEL_CELLS it is judged
# by the plain-Python oracle only (the list-based Lean model is quadratic in rows / columns / categories)
FAST_CELLS = 1500
MODEL_ROWS, MODEL_COLS, MODEL_CATS, MODEL_ITEMS = 17000, 4200, 4200, 400000


def quiet():
    """no progress bars from the mini-batch embedder loop (in this process only)"""
    import torch_frame.data.mapper as M
    if getattr(M.tqdm, '__name__', '') != '_plain_iter':
        def _plain_iter(it, **kw):
            return it
        M.tqdm = _plain_iter


# ------------------------------------------------------------------------------------------ values
def fval(x):
    """abstract float -> python float"""
    return float(x)


def f32(x):
    """the float32 the library's default dtype holds for x (C cast: round-half-even, overflow -> inf); no numpy"""
    x = float(x)
    if math.isnan(x) or math.isinf(x):
        return x
    try:
        return struct.unpack('<f', struct.pack('<f', x))[0]
    except OverflowError:
        return math.copysign(math.inf, x)


def cval(x):
    """python number -> canonical encoded value"""
    if isinstance(x, bool):
        return int(x)
    if isinstance(x, int):
        return int(x)
    x = float(x)
    return None if math.isnan(x) else [core.float_bits(x)]


def ckey(k):
    """a category as the library reports it -> canonical key (str | int)"""
    if isinstance(k, str):
        return k
    if isinstance(k, (bool, np.bool_)):
        return int(k)
    if isinstance(k, (int, np.integer)):
        return int(k)
    if isinstance(k, (float, np.floating)) and float(k).is_integer():
        return int(k)
    return repr(k)


def stub_vec(w, salt, s):
    """the deterministic stub text / image embedder (same arithmetic as Drivers/C01.lean `stubEmbed`)"""
    pos = sum((i + 1) * ord(c) for i, c in enumerate(s))
    return [float((len(s) * 31 + (j + 1) * pos + 7 * j + salt) % 251) for j in range(w)]


class Stub:
    """callable handed to TextEmbedderConfig / ImageEmbedderConfig; records what it receives"""

    def __init__(self, w, salt):
        self.w, self.salt, self.calls = w, salt, []

    def __call__(self, xs):
        self.calls.append(list(xs))
        return torch.tensor([stub_vec(self.w, self.salt, s) for s in xs], dtype=torch.float32).reshape(len(xs), self.w)


def epoch_of(y, mo, d, h=0, mi=0, s=0):
    return int((datetime.datetime(y, mo, d, h, mi, s) - EPOCH).total_seconds())


def components_of(sec):
    """the seven calendar components from Python's datetime (independent of the Lean calendar)"""
    t = EPOCH + datetime.timedelta(seconds=sec)
    return [t.year, t.month - 1, t.day - 1, t.weekday(), t.hour, t.minute, t.second]


def frac_us(r, sec):
    """the sub-second part (microseconds) a timestamp cell is rendered with: a function of the cell and the
    column's salt, so that a row keeps its fraction in every selection of the frame"""
    salt = r.get('frac')
    if salt is None:
        return 0
    return FRACS_US[(sec * 31 + salt) % len(FRACS_US)]


def size_label(dim, v):
    for t in (16385, 4097, 513, 257, 17):
        if v >= t:
            return f'scale:{dim}:{t}+'
    return None


# ------------------------------------------------------------------------------------------ generation
def _missing_rate(rng):
    return rng.choice([0.0, 0.0, 0.15, 0.3, 0.6])


def gen_time(rng, years=None):
    """a wall-clock epoch second in 1700-2200 (or in the year window a two-digit-year format can express)"""
    mode = rng.random()
    lo, hi = years or (1700, 2200)
    if mode < 0.25:
        y = rng.choice([y for y in (1700, 1800, 1900, 1999, 2000, 2001, 2100, 2199, 2200, 1970, 1969, 2024, 2038, 2068)
                        if lo <= y <= hi])
        mo, d = rng.choice([(1, 1), (12, 31), (2, 28), (3, 1), (2, 29), (6, 30), (7, 31)])
        if (mo, d) == (2, 29) and not (y % 4 == 0 and (y % 100 != 0 or y % 400 == 0)):
            d = 28
        h, mi, s = rng.choice([(0, 0, 0), (23, 59, 59), (12, 0, 0), (0, 0, 1), (23, 59, 59), (12, 59, 59), (0, 30, 0),
                               (11, 59, 59), (13, 0, 0)])
        return epoch_of(y, mo, d, h, mi, s)
    y = rng.randint(lo, hi)
    mo = rng.randint(1, 12)
    d = rng.randint(1, 28)
    return epoch_of(y, mo, d, rng.randint(0, 23), rng.randint(0, 59), rng.choice([rng.randint(0, 59), 59]))


def synth_values(rng, k, long=None):
    """k distinct strings: sentinel look-alikes first, then synthetic names with mixed case and prefix relations
    ('c1' / 'c10' / 'C1'); `long`: additionally values of that length sharing all but their last characters"""
    out, seen = [], set()

    def add(v):
        if v not in seen and len(out) < k:
            seen.add(v)
            out.append(v)
    if long:
        base = ''.join(rng.choice('abcxyzé') for _ in range(8))
        body = (base * (long // 8 + 1))[:max(1, long - 1)]
        for v in (body + 'a', body + 'b', body, body + 'a' + 'z'):
            add(v)
    pool = list(CAT_STR)
    rng.shuffle(pool)
    for v in pool[:max(2, min(k // 3, len(pool)))]:
        add(v)
    prefixes = ['c', 'C', 'cat_', 'é', 'sports', 'Sports', '']
    i = 0
    while len(out) < k:
        add(f'{prefixes[i % len(prefixes)]}{i // len(prefixes)}')
        i += 1
    return out


def sep_fragments(sep):
    """the non-blank proper pieces of a separator that a token may legally contain: its whitespace-stripped core, every
    proper prefix / suffix and every single character (stripped); a one-character separator has none"""
    out = []
    for f in [sep.strip()] + [sep[:i] for i in range(1, len(sep))] + [sep[i:] for i in range(1, len(sep))] + list(sep):
        f = f.strip()
        if f and f != sep and f not in out:
            out.append(f)
    return out


def fragment_tokens(rng, sep):
    """tokens built around fragments of the separator ('x,y', ',y', 'x,', ',' under ', ')"""
    out = []
    for f in sep_fragments(sep):
        a, b = rng.choice(ATOMS), rng.choice(ATOMS)
        for t in (a + f + b, f + b, a + f, f, a + f + f + b):
            if sep not in t and t == t.strip() and t not in out:
                out.append(t)
    return out


def cell_text(r, c, i):
    """the text a delimiter-joined multicategorical cell (non-empty token list) is written as: tokens with their blank
    padding, joined by the column's separator"""
    if r.get('pad'):
        a, b = r['pad']
        return r['sep'].join(' ' * a + t + ' ' * b for t in c)
    pads_all = r.get('pads')
    pads = pads_all[i % len(pads_all)] if pads_all else None
    if pads is None or len(pads) != len(c):
        return r['sep'].join(c)
    return r['sep'].join(' ' * p[0] + t + ' ' * p[1] for t, p in zip(c, pads))


def sep_roundtrip(r, c):
    """does the text of a non-empty token list split back into exactly these tokens (Python's str.split + strip)?"""
    return [t.strip() for t in cell_text(r, c, 0).split(r['sep'])] == list(c)


def synth_tokens(rng, k, sep, long=None):
    bad = set(sep or '')
    return [v for v in synth_values(rng, k + 8, long) if v == v.strip() and v != '' and not (set(v) & bad)][:k] or ['x']


def gen_col(rng, name, st, n, target_kind=None, opt=None):
    """one abstract column + its render options.  `opt` scales one dimension: k (categories / token pool),
    m (tokens per cell / sequence length), w (embedding width), long (cell text length)"""
    opt = opt or {}
    pm = _missing_rate(rng)
    if target_kind is not None:
        pm = rng.choice([0.0, 0.0, 0.0, 0.2])
    miss = lambda: rng.random() < pm   # noqa: E731
    col = {'name': name, 'stype': st}
    if st == 'numerical':
        mode = rng.choice(['ints', 'ints', 'pool', 'pool', 'pool', 'special'])
        if mode == 'ints':
            nonneg = rng.random() < 0.3
            mk = lambda: float(rng.randint(0 if nonneg else -5, 9))   # noqa: E731
        elif mode == 'pool':
            def mk():
                r = rng.random()
                if r < 0.08:
                    return rng.choice(['inf', '-inf'])
                return rng.choice(NUM_POOL) if r < 0.6 else rng.randint(-40, 40) / 8.0
        else:
            bigint = rng.random() < 0.3
            def mk():
                if bigint:
                    return float(rng.choice(INT_SPECIAL + [3, -7]))
                x = rng.choice(NUM_SPECIAL)
                return 'inf' if x == math.inf else '-inf' if x == -math.inf else x
        cells = [None if miss() else mk() for _ in range(n)]
        if all(c is None for c in cells) and rng.random() < 0.8:
            cells[rng.randrange(n)] = 1.0
        has_na = any(c is None for c in cells)
        if mode == 'ints':
            dts = ['float64', 'Int64', 'float32', 'int64', 'Float64', 'Float32', 'Int32', 'Int16', 'Int8', 'int32', 'int16',
                   'float16']
            if nonneg:
                dts += ['UInt8', 'uint8', 'uint16']
            dt = rng.choice(dts)
            if has_na and dt in ('int64', 'int32', 'int16', 'uint8', 'uint16'):
                dt = {'int64': 'Int64', 'int32': 'Int32', 'int16': 'Int16', 'uint8': 'UInt8', 'uint16': 'UInt16'}[dt]
        elif mode == 'pool':
            dt = rng.choice(['float64', 'float64', 'float32', 'Float64'])
            if dt == 'Float64' and any(c in ('inf', '-inf') for c in cells):
                dt = 'float64'
        elif bigint:
            dt = 'Int64' if has_na else rng.choice(['int64', 'Int64'])
        else:
            dt = rng.choice(['float64', 'float64', 'float32'])
        if target_kind is not None and dt != 'float32' and rng.random() < 0.25:
            dt = 'float32'      # (labels stored in the library's default dtype: the one column a mapper could pass through uncopied)
        col['r'] = {'dtype': dt}
        col['mode'] = mode
    elif st == 'categorical':
        as_int = rng.random() < 0.25 and not opt.get('long')
        if target_kind == 'single':
            k = 1
        elif target_kind == 'binary':
            k = 2
        elif target_kind == 'multi':
            k = rng.randint(3, 5)
        else:
            k = rng.randint(1, 6)
        k = opt.get('k', k)
        if opt.get('k') or opt.get('long'):
            pool = rng.sample(range(-3, 4 * k), k) if as_int else synth_values(rng, k, opt.get('long'))
        elif as_int:
            pool = rng.sample(range(0, 12), k) if rng.random() < 0.8 else rng.sample(INT_SPECIAL + [5, 6], k)
        else:
            pool = rng.sample(CAT_STR, k)
        skew = rng.random() < 0.5
        def cell():
            if miss():
                return None
            return pool[min(int(rng.random() ** 2 * k), k - 1)] if skew else rng.choice(pool)
        cells = [cell() for _ in range(n)]
        if target_kind in ('binary', 'multi') or opt.get('k'):
            # make the class count what was asked for whenever the frame is long enough
            free = list(range(n))
            rng.shuffle(free)
            for v, i in zip(pool, free):
                cells[i] = v
        if all(c is None for c in cells) and rng.random() < 0.8:
            cells[rng.randrange(n)] = pool[0]
        has_na = any(c is None for c in cells)
        r = {'na': rng.choice(['None', 'nan'])}
        if as_int:
            # (integer categories held in an OBJECT column are outside the stated domain: pandas refuses to merge an
            #  all-None object selection of such a column against the int64 category index - logged in the report)
            big = any(abs(c) >= 2 ** 31 - 1 for c in cells if c is not None)
            dt = rng.choice(['Int64', 'int64', 'category'] + ([] if big else ['float64', 'Int32', 'int32']))
            if has_na and dt in ('int64', 'int32'):
                dt = {'int64': 'Int64', 'int32': 'Int32'}[dt]
        else:
            dt = rng.choice(['object', 'str', 'object', 'str', 'category', 'string'])
        if dt == 'category':
            r['cat_order'] = rng.choice(['sorted', 'reversed', 'shuffled'])
            r['cat_seed'] = rng.randint(0, 999)
            r['ordered'] = rng.random() < 0.3
        r['dtype'] = dt
        col['r'] = r
        if opt.get('k'):
            col['k'] = k
    elif st == 'multicategorical':
        how = rng.choice(['sep', 'sep', 'list'])
        sep = rng.choice(SEPS_MULTI) if rng.random() < 0.35 else rng.choice(SEPS)
        k = opt.get('k', rng.randint(1, 6))
        if opt.get('k') or opt.get('long'):
            pool = synth_tokens(rng, k, sep if how == 'sep' else None, opt.get('long'))
            if how == 'sep' and len(sep) > 1 and opt.get('k'):
                pool = (fragment_tokens(rng, sep)[:3] + pool)[:max(k, 1)]
        else:
            # a token may contain pieces of the separator (and other columns' separators), only not the separator itself
            cand = [t for t in TOKENS + TOKENS_WITH_SEP if how == 'list' or sep not in t]
            pool = rng.sample(cand, min(k, len(cand)))
            frags = fragment_tokens(rng, sep) if how == 'sep' else []
            if frags and rng.random() < 0.8:
                for t in rng.sample(frags, min(len(frags), rng.choice([1, 1, 2, 3]))):
                    if t not in pool:
                        pool[rng.randrange(len(pool))] = t
                pool = list(dict.fromkeys(pool))
        k = len(pool)
        big = opt.get('m')
        def cell():
            if miss():
                return None
            m = rng.choice([0, 1, 1, 2, 2, 3, 4])
            toks = [rng.choice(pool) for _ in range(m)]
            if m >= 2 and rng.random() < 0.06:
                toks[rng.randrange(m)] = ''
            if how == 'list' and m == 1 and rng.random() < 0.05:
                toks = ['']
            return toks
        cells = [cell() for _ in range(n)]
        if big:
            # one cell with `m` tokens (repeats included), another with every pool token once
            cells[rng.randrange(n)] = [rng.choice(pool) for _ in range(big)]
            cells[rng.randrange(n)] = rng.sample(pool, len(pool))
        elif opt.get('k'):
            for t in pool:
                i = rng.randrange(n)
                cells[i] = (cells[i] or []) + [t]
        if all(not c for c in cells) and rng.random() < 0.8:
            cells[rng.randrange(n)] = [pool[0]]
        heavy = bool(opt.get('k') or big)
        pads = None if heavy else [[[rng.choice([0, 0, 1, 2]), rng.choice([0, 0, 1])] for _ in (c or [])] for c in cells]
        has_na = any(c is None for c in cells)
        if how == 'sep':
            # (`string`, the pd.NA-backed dtype: a missing cell is pd.NA, which split_by_sep rejects - outside the
            #  stated None/NaN domain, logged; generated without missing cells only)
            dt = rng.choice(['object', 'str'] + ([] if has_na else ['string']))
        else:
            dt = 'object'
        col['r'] = {'how': how, 'sep': sep if how == 'sep' else None, 'dtype': dt,
                    'box': rng.choice(['list', 'list', 'tuple', 'ndarray', 'set']) if how == 'list' else None,
                    'na': rng.choice(['None', 'nan']), 'pads': pads,
                    'blank': [rng.choice([0, 0, 1, 3]) for _ in cells[:64]]}
        if how == 'sep' and len(sep) > 1:
            # ONE padding for every token of the column (a function of the column, not of the row position, so that a row
            # reads the same in every selection of the frame).  A token that ends / starts with a fragment of the separator
            # can merge with the padding or the neighbouring separator into an earlier occurrence of it ('a:' + '::' + 'b'):
            # such a text does not denote the token list under ANY reading of "delimiter-joined", so the cell's tokens are
            # replaced by fragment-free ones until the text splits back into its tokens by Python's own str.split
            col['r']['pads'] = None
            col['r']['pad'] = [0, 0] if heavy else [rng.choice([0, 0, 1, 2]), rng.choice([0, 0, 1])]
            frs = sep_fragments(sep)
            plain = [t for t in pool if not any(f in t for f in frs)] or ['x']
            for i, c in enumerate(cells):
                if not c:
                    continue
                for attempt in range(4):
                    if sep_roundtrip(col['r'], c):
                        break
                    if attempt == 0:
                        c = [t if k2 % 2 == 0 else rng.choice(plain) for k2, t in enumerate(c)]
                    elif attempt == 1:
                        c = [t if k2 == 0 else rng.choice(plain) for k2, t in enumerate(c)]
                    else:
                        c = [rng.choice(plain) for _ in c] if attempt == 2 else [plain[0]]
                cells[i] = c
        if opt.get('k'):
            col['k'] = k
    elif st == 'sequence_numerical':
        big = opt.get('m')
        spec = rng.random() < 0.15
        def cell():
            if miss():
                return None
            m = rng.choice([0, 1, 2, 3, 5])
            return [('nan' if rng.random() < 0.15 else rng.choice(NUM_SPECIAL if spec else NUM_POOL)) for _ in range(m)]
        cells = [cell() for _ in range(n)]
        cells = [None if c is None else [('inf' if x == math.inf else '-inf' if x == -math.inf else x) for x in c]
                 for c in cells]
        if big:
            cells[rng.randrange(n)] = [('nan' if rng.random() < 0.05 else float(rng.randint(-9, 9))) for _ in range(big)]
        if all(not c for c in cells) and rng.random() < 0.7:
            cells[rng.randrange(n)] = [1.0]
        col['r'] = {'na': rng.choice(['None', 'nan']), 'ints': rng.random() < 0.15}
    elif st == 'timestamp':
        kind = rng.choice(['str', 'str', 'str', 'str', 'dt64', 'dt64', 'dt64tz', 'pyobj'])
        fmt, pyfmt, res, has_f, has_z, years = (tuple(rng.choice(TIME_FORMATS)) + (None,)) if rng.random() < 0.55 else \
            rng.choice(TIME_FORMATS_RICH)
        shared = opt.get('shared_time')
        if shared:
            kind = 'str'
            fmt, pyfmt, res, has_f, has_z, years = shared['fmt'], shared['fmt'], 1, False, False, None
        unit = rng.choice(['s', 'ms', 'us', 'ns'])
        r = {'kind': kind, 'fmt': fmt, 'pyfmt': pyfmt, 'dtype': rng.choice(['object', 'str', 'object', 'str', 'string']),
             'unit': unit, 'na': rng.choice(['None', 'nan']), 'frac': None, 'tz': None}
        if kind != 'str':
            # the column already holds datetimes: a format configured for it anyway (one string for all timestamp columns, a
            # stale entry) must not change anything - pandas ignores it
            r['cfgfmt'] = fmt if (fmt is not None and not has_z and rng.random() < 0.3) else None
            res, r['fmt'], r['pyfmt'], years = 1, None, None, None
            if unit != 's' and rng.random() < 0.6:
                r['frac'] = rng.randint(0, 6)
            if kind == 'dt64tz':
                r['tzname'] = rng.choice(TZ_NAMES)
            if kind == 'pyobj':
                r['unit'] = 'us'
                r['frac'] = rng.choice([None, rng.randint(0, 6)])
                r['pyobj'] = rng.choice(['datetime', 'Timestamp'])
                r['tz'] = rng.choice([None, None, rng.choice(TZ_MINUTES)])
        else:
            if has_f:
                r['frac'] = rng.randint(0, 6)
            if has_z:
                r['tz'] = rng.choice(TZ_MINUTES)     # one offset per column (mixed offsets make pandas raise: logged)
        # unparseable strings only under an explicit format: with format=None pandas GUESSES the format from
        # the first entry, and what it guesses from a malformed string is pandas' business, not the library's
        pbad = rng.choice([0.0, 0.0, 0.15]) if (kind == 'str' and fmt is not None) else 0.0
        def cell():
            if miss():
                return None
            if rng.random() < pbad:
                return {'bad': rng.choice(BAD_TIMES)}
            if shared:
                a, b, y, h, mi, s = rng.choice(shared['raw'])
                return epoch_of(y, b, a, h, mi, s) if shared['dmy'] else epoch_of(y, a, b, h, mi, s)
            s = gen_time(rng, years)
            return s - s % res
        cells = [cell() for _ in range(n)]
        if all(not isinstance(c, int) for c in cells) and rng.random() < 0.8:
            if shared:
                a, b, y, h, mi, s = shared['raw'][0]
                cells[rng.randrange(n)] = epoch_of(y, b, a, h, mi, s) if shared['dmy'] else epoch_of(y, a, b, h, mi, s)
            else:
                s = gen_time(rng, years)
                cells[rng.randrange(n)] = s - s % res
        col['r'] = r
    elif st == 'embedding':
        w = opt.get('w', rng.randint(1, 5))
        pm = rng.choice([0.0, 0.0, 0.25, 0.5])
        spec = rng.random() < 0.15
        def x():
            if spec:
                v = rng.choice(NUM_SPECIAL)
                return 'inf' if v == math.inf else '-inf' if v == -math.inf else v
            return rng.choice(NUM_POOL) if rng.random() < 0.5 else float(rng.randint(0, 9))
        cells = [None if rng.random() < pm else [x() for _ in range(w)] for _ in range(n)]
        if all(c is None for c in cells):
            # an embedding column without a single vector has no width: outside the domain (still raises)
            cells[rng.randrange(n)] = [float(rng.randint(0, 9)) for _ in range(w)]
        col['r'] = {'as': rng.choice(['list', 'ndarray', 'tuple', 'ndarray32', 'list']), 'w': w,
                    'na': rng.choice(['None', 'nan'])}
    elif st in ('text_embedded', 'image_embedded'):
        pm = rng.choice([0.0, 0.0, 0.2])
        texts = TEXTS + (synth_values(rng, 3, opt['long']) if opt.get('long') else [])
        cells = [None if rng.random() < pm else rng.choice(texts) for _ in range(n)]
        col['r'] = {'dtype': rng.choice(['object', 'str', 'object', 'str', 'string']), 'na': rng.choice(['None', 'nan']),
                    'w': opt.get('w', rng.randint(1, 4)), 'salt': rng.randint(0, 50),
                    'batch': rng.choice([None, None, 1, 2, 5] + ([17, 256] if n > 16 else []))}
    else:
        raise ValueError(st)
    col['cells'] = cells
    return col


def gen_shared_multicat(rng, names, n, raw=None):
    """>= 2 delimiter-joined columns with DIFFERENT separators whose cells are drawn from one pool of raw texts
    (atoms joined by a mixture of the separators): the same text splits differently in each column"""
    seps = rng.sample(SEPS + [', ', ' | ', '; ', ' / '], len(names))
    if raw is None:
        raw = []
        for _ in range(rng.randint(3, 6)):
            m = rng.randint(2, 4)
            t = rng.choice(ATOMS)
            for _ in range(m - 1):
                t += rng.choice(seps) + rng.choice(ATOMS)
            raw.append(t)
    cols = []
    for name, sep in zip(names, seps):
        pm = rng.choice([0.0, 0.2])
        cells = [None if rng.random() < pm else [t.strip() for t in rng.choice(raw).split(sep)] for _ in range(n)]
        cols.append({'name': name, 'stype': 'multicategorical', 'cells': cells, 'shared_raw': True,
                     'r': {'how': 'sep', 'sep': sep, 'dtype': rng.choice(['object', 'str']), 'box': None,
                           'na': rng.choice(['None', 'nan']), 'pads': None, 'blank': [0]}})
    return cols, raw


def gen_shared_time(rng, names, n):
    """two text timestamp columns, day-first and month-first, drawn from one pool of raw strings"""
    raw = [(rng.randint(1, 12), rng.randint(1, 12), rng.randint(1700, 2200), rng.randint(0, 23), rng.randint(0, 59),
            rng.randint(0, 59)) for _ in range(rng.randint(2, 5))]
    cols = []
    for name, dmy in zip(names, [True, False]):
        sh = {'raw': raw, 'dmy': dmy, 'fmt': '%d/%m/%Y %H:%M:%S' if dmy else '%m/%d/%Y %H:%M:%S'}
        c = gen_col(rng, name, 'timestamp', n, opt={'shared_time': sh})
        c['shared_raw'] = True
        cols.append(c)
    return cols


FEATURE_STYPES = ['numerical', 'numerical', 'categorical', 'categorical', 'multicategorical', 'multicategorical',
                  'sequence_numerical', 'timestamp', 'timestamp', 'embedding', 'text_embedded', 'image_embedded']


def synth_names(rng, k):
    """k distinct column names whose sorted order differs from generation order and from case-insensitive order"""
    base = list(NAME_POOL)
    rng.shuffle(base)
    out = base[:min(k, len(base))]
    prefixes = ['c', 'C', 'col_', 'Z', 'é', 'label', 'label_']
    i = 0
    seen = set(out)
    while len(out) < k:
        v = f'{prefixes[i % len(prefixes)]}{i // len(prefixes)}'
        i += 1
        if v not in seen:
            seen.add(v)
            out.append(v)
    rng.shuffle(out)
    return out


def gen_cfg(rng):
    """how the per-column configuration reaches Dataset: dict in its own order / one string / None entries left out;
    DataFrame columns the dataset does not use"""
    return {'sep': rng.choice(['dict', 'dict', 'auto']), 'fmt': rng.choice(['dict', 'dict', 'auto']),
            'kwseed': rng.randint(0, 999), 'extra_cols': rng.choice([0, 0, 0, 1, 2]), 'split_col': rng.random() < 0.1}


def gen_frame(rng, n=None, ncols=None, target=None, focus=None, level=0, opts=None, plain=False):
    """abstract frame: 1-12 rows, 1-8 feature columns (+ optional target column at a random position).
    `opts`: per-column scale options (first column of the focus stype); `plain`: no shared-raw / prelude / cfg extras"""
    n = n if n is not None else rng.choice([1, 1, 2, 2, 3, 4, 5, 6, 8, 10, 12])
    ncols = ncols if ncols is not None else rng.choice([1, 2, 3, 3, 4, 5, 6, 8])
    names = synth_names(rng, ncols + 1) if ncols + 1 > len(NAME_POOL) else rng.sample(NAME_POOL, ncols + 1)
    cols, fam = [], []
    i = 0
    if not plain and ncols >= 2 and rng.random() < 0.1:
        if rng.random() < 0.7:
            k = min(ncols, rng.choice([2, 2, 3]))
            sh, raw = gen_shared_multicat(rng, names[:k], n)
            fam.append('shared-raw:multicat-seps')
            if rng.random() < 0.6:
                # the same raw texts went through ANOTHER dataset (other separators) earlier in the process
                pre, _ = gen_shared_multicat(rng, ['p', 'q'], rng.randint(2, 6), raw)
                fam.append('history:prelude-dataset')
                prelude = [{'n': len(pre[0]['cells']), 'cols': pre, 'target': None}]
            else:
                prelude = None
        else:
            k = 2
            sh, prelude = gen_shared_time(rng, names[:2], n), None
            fam.append('shared-raw:time-formats')
        cols += sh
        i = k
    else:
        prelude = None
    for j in range(i, ncols):
        st = focus if (focus and (j == 0 or rng.random() < 0.5)) else rng.choice(FEATURE_STYPES)
        cols.append(gen_col(rng, names[j], st, n, opt=opts if (opts and j == 0) else None))
    if i:
        rng.shuffle(cols)
    tname = None
    tk = target if target is not None else rng.choice(['none', 'none', 'regression', 'binary', 'multi', 'multi',
                                                       'single', 'timestamp'])
    if tk != 'none':
        tname = names[ncols]
        if tk == 'regression':
            tcol = gen_col(rng, tname, 'numerical', n, target_kind='regression')
        elif tk == 'timestamp':
            tcol = gen_col(rng, tname, 'timestamp', n, target_kind='timestamp')
        else:
            tcol = gen_col(rng, tname, 'categorical', n, target_kind=tk)
        cols.insert(rng.randint(0, len(cols)), tcol)
    frame = {'n': n, 'cols': cols, 'target': tname}
    if not plain:
        frame['cfg'] = gen_cfg(rng)
        if not prelude and ncols <= 8 and rng.random() < 0.06:
            prelude = [gen_sibling(rng, frame)]
            fam.append('history:prelude-dataset-same-schema')
        if prelude:
            frame['prelude'] = prelude
        if rng.random() < 0.15:
            frame['again'] = True          # a second materialize() on the same dataset
            fam.append('history:materialize-twice')
        if n <= 64 and rng.random() < 0.2:
            frame['twin'] = True           # the DataFrame is compared with an identically built twin afterwards
            fam.append('alias:input-frame-unchanged')
        if n <= 64 and ncols <= 16 and rng.random() < 0.12:
            # the caller writes in place into the tensors of the materialized frame (y, features or both); the DataFrame (against
            # a twin), the statistics and a conversion of the dataset's own frame are observed afterwards
            frame['scribble'] = rng.choice(['y', 'feat', 'all', 'all'])
            fam.append('alias:in-place-write-into-materialized-frame')
    if fam:
        frame['fam'] = fam
    return frame


def gen_sibling(rng, frame, max_cols=6):
    """another small dataset with the SAME column names and stypes as `frame` but freshly drawn cells and render
    options (other separators / formats / category sets / embedder widths): a second dataset of the same schema in
    one process (train / test files), whose fitted state must not leak into the first"""
    m = rng.randint(1, 6)
    cols = [gen_col(rng, c['name'], c['stype'], m) for c in frame['cols'][:max_cols] if c['name'] != frame['target']]
    if not cols:
        cols = [gen_col(rng, 'p', 'categorical', m)]
    return {'n': m, 'cols': cols, 'target': None}


SCALE_DIMS = ['rows', 'rows', 'cols', 'cats', 'tokens', 'celllen', 'seqlen', 'embwidth', 'multicats']


def gen_scaled_frame(rng, level, dim=None, target=None, big=False, top=False, max_cols=4097):
    """a frame with ONE dimension taken from the size ladder of the stress level (harness/stress.py), the others small,
    keeping the ingredients of the small frames (missing cells, repeats, ties, padding, any dtype).
    `big`: take the size from the rungs above the level's ladder (long-frame code paths, > 16 384 / 65 536 rows);
    `top`: take the top rung of the level's ladder (every dimension reaches it once per run)"""
    dim = dim or rng.choice(SCALE_DIMS)
    def size(cap=None):
        if big:
            return rng.choice([x for x in stress.LADDER_BIG if cap is None or x <= cap]) + rng.choice([0, 1, 2])
        if top:
            return max(x for x in stress.ladder(level) if cap is None or x <= cap) + rng.choice([0, 1, 2])
        return stress.pick_size(rng, level, cap)
    if dim == 'rows':
        v = size()
        f = gen_frame(rng, n=v, ncols=rng.choice([1, 2, 3]) if v < 5000 else rng.choice([1, 2]), target=target,
                      focus=rng.choice(['categorical', 'multicategorical', 'timestamp', None, 'numerical']))
    elif dim == 'cols':
        v = size(max_cols)
        f = gen_frame(rng, n=rng.choice([1, 2, 3, 5]), ncols=v, target=target)
    elif dim == 'cats':
        v = size()
        f = gen_frame(rng, n=v + rng.choice([0, 1, v // 2]), ncols=rng.choice([1, 2]), target=target, focus='categorical',
                      opts={'k': v})
    elif dim == 'multicats':
        v = size()
        f = gen_frame(rng, n=rng.choice([3, 8, max(3, v // 4)]), ncols=rng.choice([1, 2]), target=target,
                      focus='multicategorical', opts={'k': v})
    elif dim == 'tokens':
        v = size()
        f = gen_frame(rng, n=rng.choice([2, 3, 6]), ncols=rng.choice([1, 2]), target=target, focus='multicategorical',
                      opts={'m': v, 'k': rng.choice([3, 17, max(3, v // 3)])})
    elif dim == 'celllen':
        v = size()
        f = gen_frame(rng, n=rng.choice([3, 6, 10]), ncols=rng.choice([1, 2, 3]), target=target,
                      focus=rng.choice(['categorical', 'multicategorical', 'text_embedded']), opts={'long': v})
    elif dim == 'seqlen':
        v = size()
        f = gen_frame(rng, n=rng.choice([2, 4, 7]), ncols=rng.choice([1, 2]), target=target, focus='sequence_numerical',
                      opts={'m': v})
    elif dim == 'embwidth':
        v = size(4097 if level < 2 else 16385)
        f = gen_frame(rng, n=rng.choice([2, 4, 7]), ncols=rng.choice([1, 2]), target=target,
                      focus=rng.choice(['embedding', 'text_embedded']), opts={'w': v})
    else:
        raise ValueError(dim)
    f['fam'] = f.get('fam', []) + [size_label(dim, v) or f'scale:{dim}:small']
    f['scale'] = [dim, v]
    return f


def frame_items(frame):
    """rough number of scalar items of a frame (decides canonicaliser / whether the Lean model is asked)"""
    t = 0
    for c in frame['cols']:
        w = 1
        if c['stype'] in EMB_KINDS:
            w = c['r']['w']
        elif c['stype'] == 'timestamp':
            w = 7
        elif c['stype'] in ('multicategorical', 'sequence_numerical'):
            t += sum(len(x) for x in c['cells'] if x)
        t += w * frame['n']
    return t


def model_feasible(frame):
    if frame['n'] > MODEL_ROWS or len(frame['cols']) > MODEL_COLS or frame_items(frame) > MODEL_ITEMS:
        return False
    for c in frame['cols']:
        if c['stype'] in ('categorical', 'multicategorical') and c.get('k', 0) > MODEL_CATS:
            return False
    return True


def gen_labels(rng, n, kind=None):
    """an index labelling of n rows and the pandas route that produces it"""
    kind = kind or rng.choice(['range', 'offset', 'perm', 'str', 'dup', 'dupall', 'concat', 'iloc', 'setindex',
                               'negative', 'float', 'multiindex', 'datetime', 'bool', 'nanfloat', 'bigint', 'catindex',
                               'perm', 'spread', 'spread'])
    if kind == 'range':
        return {'kind': kind, 'how': 'default', 'values': list(range(n))}
    if kind == 'offset':
        k = rng.choice([1, 5, 100, -3])
        return {'kind': kind, 'how': 'assign', 'values': list(range(k, k + n))}
    if kind == 'negative':
        return {'kind': kind, 'how': 'assign', 'values': [-(i + 1) for i in range(n)]}
    if kind == 'perm':
        v = list(range(n))
        rng.shuffle(v)
        return {'kind': kind, 'how': rng.choice(['assign', 'setindex']), 'values': v}
    if kind == 'spread':
        # id-like labels: distinct integers scattered over a range far wider than the frame is long, in no order
        return {'kind': kind, 'how': rng.choice(['assign', 'setindex']), 'values': rng.sample(range(-10 ** 6, 10 ** 7), n)}
    if kind == 'bigint':
        v = [2 ** 40 + i for i in range(n)]
        rng.shuffle(v)
        return {'kind': kind, 'how': 'assign', 'values': v}
    if kind == 'str':
        v = [f'r{rng.randint(0, 99)}_{i}' for i in range(n)]
        rng.shuffle(v)
        return {'kind': kind, 'how': rng.choice(['assign', 'setindex']), 'values': v}
    if kind == 'dup':
        return {'kind': kind, 'how': rng.choice(['assign', 'setindex']),
                'values': [rng.randint(0, max(0, n // 2)) for _ in range(n)]}
    if kind == 'dupall':
        return {'kind': kind, 'how': 'assign', 'values': [rng.choice([0, 7, 'k'])] * n}
    if kind == 'setindex':
        return {'kind': kind, 'how': 'setindex', 'values': [rng.randint(-2, n + 2) for _ in range(n)]}
    if kind == 'float':
        return {'kind': kind, 'how': 'assign', 'values': [i + 0.5 for i in range(n)]}
    if kind == 'nanfloat':
        return {'kind': kind, 'how': 'assign', 'values': [None if rng.random() < 0.4 else float(rng.randint(0, n)) for _ in range(n)]}
    if kind == 'bool':
        return {'kind': kind, 'how': 'assign', 'values': [rng.random() < 0.5 for _ in range(n)]}
    if kind == 'multiindex':
        return {'kind': kind, 'how': 'assign', 'values': [[rng.randint(0, 2), rng.choice(['a', 'b', 'c'])] for _ in range(n)]}
    if kind == 'datetime':
        return {'kind': kind, 'how': 'assign',
                'values': [f'20{rng.randint(10, 30)}-{rng.randint(1, 12):02d}-{rng.randint(1, 28):02d}' for _ in range(n)]}
    if kind == 'catindex':
        return {'kind': kind, 'how': 'assign', 'values': [rng.choice(['x', 'y', 'z']) for _ in range(n)]}
    if kind == 'concat':
        cuts = sorted(rng.sample(range(1, n), min(n - 1, rng.choice([1, 1, 2])))) if n > 1 else []
        bounds = [0] + cuts + [n]
        vals = []
        for a, b in zip(bounds, bounds[1:]):
            vals += list(range(b - a))
        return {'kind': kind, 'how': 'concat', 'values': vals, 'bounds': bounds}
    if kind == 'iloc':
        # the frame's rows sit at scattered positions of a larger frame and are selected back by iloc
        m = n + rng.randint(1, 4)
        pos = rng.sample(range(m), n)
        return {'kind': kind, 'how': 'iloc', 'values': pos, 'm': m}
    raise ValueError(kind)


def index_of(labels):
    """the pandas Index of a labelling"""
    kind, v = labels.get('kind'), labels['values']
    if kind == 'multiindex':
        return pd.MultiIndex.from_tuples([tuple(x) for x in v])
    if kind == 'datetime':
        return pd.DatetimeIndex(pd.to_datetime(v))
    if kind == 'catindex':
        return pd.CategoricalIndex(v)
    if kind == 'nanfloat':
        return pd.Index([np.nan if x is None else x for x in v], dtype='float64')
    if kind == 'dupall' or kind == 'str':
        return pd.Index(v, dtype=object) if any(isinstance(x, str) for x in v) else pd.Index(v)
    return pd.Index(v)


# ------------------------------------------------------------------------------------------ rendering
def _na(r):
    return None if r.get('na', 'None') == 'None' else np.nan


def time_text(r, c):
    """the text a timestamp cell (wall-clock epoch second) is written as: strftime incl. %f and %z"""
    t = EPOCH + datetime.timedelta(seconds=c, microseconds=frac_us(r, c))
    if r.get('tz') is not None:
        t = t.replace(tzinfo=datetime.timezone(datetime.timedelta(minutes=r['tz'])))
    return t.strftime(r['pyfmt'])


def _dt64_values(r, cells):
    """int64 payload of a datetime64[unit] column: wall-clock second * unit + the sub-second part of the unit"""
    unit = r['unit']
    per = UNIT_PER_S[unit]
    out = np.empty(len(cells), dtype='int64')
    for i, c in enumerate(cells):
        if not isinstance(c, int):
            out[i] = np.iinfo('int64').min
            continue
        us = frac_us(r, c)
        sub = 0 if unit == 's' else us // 1000 if unit == 'ms' else us if unit == 'us' else \
            us * 1000 + (999 if us == 999999 else 0)
        out[i] = c * per + sub
    return out.view(f'datetime64[{unit}]')


def render_cells(col, cells=None):
    """abstract cells -> a python list of raw pandas cell values + the dtype to build the Series with"""
    st, r = col['stype'], col['r']
    cells = col['cells'] if cells is None else cells
    if st == 'numerical':
        dt = r['dtype']
        if dt[0] in 'IU' or dt.startswith('int') or dt.startswith('uint'):
            return [pd.NA if c is None else int(fval(c)) for c in cells], dt
        if dt[0] == 'F':
            return [pd.NA if c is None else fval(c) for c in cells], dt
        return [np.nan if c is None else fval(c) for c in cells], dt
    if st == 'categorical':
        dt = r['dtype']
        if dt == 'category':
            # the dtype's categories are those of the whole column (pieces of one frame share one CategoricalDtype)
            vals = sorted({c for c in cells if c is not None} | {c for c in col['cells'] if c is not None})
            if r.get('cat_order') == 'reversed':
                vals = vals[::-1]
            elif r.get('cat_order') == 'shuffled':
                import random
                random.Random(r.get('cat_seed', 0)).shuffle(vals)
            ints = bool(vals) and all(isinstance(v, int) for v in vals)
            # integer categories travel as Int64 categories (a plain int64 Categorical with a missing cell makes the
            # merge inside CategoricalTensorMapper raise: logged as observed outside the generated domain)
            cats = pd.array(vals, dtype='Int64') if ints else pd.Index(vals, dtype=object)
            raw = pd.array([pd.NA if c is None else c for c in cells], dtype='Int64') if ints else \
                [None if c is None else c for c in cells]
            return pd.Categorical(raw, categories=cats, ordered=bool(r.get('ordered'))), None
        if dt in ('Int64', 'int64', 'Int32', 'int32'):
            return [pd.NA if c is None else c for c in cells], dt
        if dt == 'float64':
            return [np.nan if c is None else float(c) for c in cells], dt
        return [_na(r) if c is None else c for c in cells], dt
    if st == 'multicategorical':
        out = []
        box = {'tuple': tuple, 'set': set, 'ndarray': lambda c: np.array(list(c), dtype=object)}.get(r.get('box'), list)
        blanks = r.get('blank') or [0]
        for i, c in enumerate(cells):
            if c is None:
                out.append(_na(r))
            elif r['how'] == 'list':
                out.append(box(c))
            elif not c:
                out.append(' ' * blanks[i % len(blanks)])
            else:
                out.append(cell_text(r, c, i))
        return out, r['dtype']
    if st == 'sequence_numerical':
        conv = (lambda x: int(x) if float(x).is_integer() and abs(x) < 2 ** 31 and math.copysign(1, x) * (x == 0) >= 0 else float(x)) \
            if r.get('ints') else float
        return [_na(r) if c is None else [(fval(x) if isinstance(x, str) else conv(x)) for x in c] for c in cells], 'object'
    if st == 'timestamp':
        kind = r['kind']
        if kind == 'dt64':
            return _dt64_values(r, cells), None
        if kind == 'dt64tz':
            return pd.Series(_dt64_values(r, cells)).dt.tz_localize(r['tzname']).array, None
        if kind == 'pyobj':
            tz = None if r.get('tz') is None else datetime.timezone(datetime.timedelta(minutes=r['tz']))
            out = []
            for c in cells:
                if not isinstance(c, int):
                    out.append(_na(r) if r.get('pyobj') == 'datetime' else pd.NaT)
                    continue
                t = (EPOCH + datetime.timedelta(seconds=c, microseconds=frac_us(r, c))).replace(tzinfo=tz)
                out.append(t if r.get('pyobj') == 'datetime' else pd.Timestamp(t))
            return out, 'object'
        out = []
        for c in cells:
            if c is None:
                out.append(_na(r))
            elif isinstance(c, dict):
                out.append(c['bad'])
            else:
                out.append(time_text(r, c))
        return out, r['dtype']
    if st == 'embedding':
        how = r['as']
        mk = {'ndarray': lambda c: np.array(c, dtype='float64'), 'ndarray32': lambda c: np.array(c, dtype='float32'),
              'tuple': tuple}.get(how, list)
        return [_na(r) if c is None else mk([fval(x) for x in c]) for c in cells], 'object'
    if st in ('text_embedded', 'image_embedded'):
        return [_na(r) if c is None else c for c in cells], r['dtype']
    raise ValueError(st)


def text_input(col, c):
    """the string the embedder must receive for an abstract text cell (`str(value)`, fix 2ba733f)"""
    if c is not None:
        return c
    if col['r']['dtype'] == 'str':
        return 'nan'
    if col['r']['dtype'] == 'string':
        return '<NA>'
    return 'None' if col['r'].get('na', 'None') == 'None' else 'nan'


def _series(vals, dt, index=None):
    if dt is None:
        return pd.Series(vals, index=index)
    if dt == 'object':
        arr = np.empty(len(vals), dtype=object)
        for i, v in enumerate(vals):
            arr[i] = v
        return pd.Series(arr, index=index, dtype=object)
    return pd.Series(vals, dtype=dt, index=index)


EXTRA_COLS = ['zz_unused', 'Unused 2']


def _plain_df(frame, rows, order):
    data = {}
    for j in order:
        col = frame['cols'][j]
        vals, dt = render_cells(col, [col['cells'][i] for i in rows])
        data[col['name']] = _series(vals, dt)
    cfg = frame.get('cfg') or {}
    used = {c['name'] for c in frame['cols']}
    for k in range(cfg.get('extra_cols', 0)):
        # columns the dataset is not told about (not in col_to_stype)
        if EXTRA_COLS[k] not in used:
            data[EXTRA_COLS[k]] = pd.Series([f'junk{i % 3}' for i in range(len(rows))], dtype=object)
    if cfg.get('split_col') and '__split' not in used:
        data['__split'] = pd.Series([i % 3 for i in range(len(rows))], dtype='int64')
    return pd.DataFrame(data)


def render(frame, labels=None, dfperm=None, rows=None):
    """abstract frame (optionally a row multiset `rows`) -> DataFrame with the requested labelling"""
    n = frame['n']
    rows = list(range(n)) if rows is None else rows
    order = list(range(len(frame['cols']))) if dfperm is None else dfperm
    labels = labels or {'how': 'default'}
    how = labels['how']
    if how == 'default':
        return _plain_df(frame, rows, order)
    if how == 'assign':
        df = _plain_df(frame, rows, order)
        df.index = index_of(labels)
        return df
    if how == 'setindex':
        df = _plain_df(frame, rows, order)
        df['__idx__'] = labels['values']
        df = df.set_index('__idx__')
        df.index.name = None
        return df
    if how == 'concat':
        b = labels['bounds']
        parts = [_plain_df(frame, rows[a:c], order) for a, c in zip(b, b[1:])]
        return pd.concat(parts)
    if how == 'iloc':
        pos, m = labels['values'], labels['m']
        # a larger frame: the wanted rows at positions `pos`, copies of row 0 elsewhere
        big_rows = [rows[0]] * m
        for k, p in enumerate(pos):
            big_rows[p] = rows[k]
        big = _plain_df(frame, big_rows, order)
        return big.iloc[pos]
    raise ValueError(how)


def dataset_kwargs(frame, dictperm=None, with_target=True):
    """(col_to_stype in the requested dict order, keyword arguments, stub callables by column)"""
    import random
    import torch_frame
    from torch_frame.config import ImageEmbedderConfig, TextEmbedderConfig
    order = list(range(len(frame['cols']))) if dictperm is None else dictperm
    c2s, sep, fmt, tcfg, icfg, stubs = {}, {}, {}, {}, {}, {}
    for j in order:
        col = frame['cols'][j]
        name, st, r = col['name'], col['stype'], col['r']
        c2s[name] = torch_frame.stype(st)
        if st == 'multicategorical':
            sep[name] = r['sep']
        elif st == 'timestamp':
            fmt[name] = r['fmt'] if r['kind'] == 'str' else r.get('cfgfmt')
        elif st == 'text_embedded':
            stubs[name] = Stub(r['w'], r['salt'])
            tcfg[name] = TextEmbedderConfig(text_embedder=stubs[name], batch_size=r['batch'])
        elif st == 'image_embedded':
            stubs[name] = Stub(r['w'], r['salt'])
            icfg[name] = ImageEmbedderConfig(image_embedder=stubs[name], batch_size=r['batch'])
    cfg = frame.get('cfg') or {}
    rnd = random.Random(cfg.get('kwseed', 0))

    def shape(d, mode):
        """the per-column dict in its own (shuffled) key order; 'auto': one value for all columns when they agree,
        else the dict without its None entries (the library fills them in)"""
        if not d:
            return d
        keys = list(d)
        rnd.shuffle(keys)
        d = {k: d[k] for k in keys}
        if mode == 'auto':
            vals = set(d.values())
            if len(vals) == 1:
                return next(iter(vals))
            return {k: v for k, v in d.items() if v is not None}
        return d
    kw = {'target_col': frame['target'] if with_target else None, 'col_to_sep': shape(sep, cfg.get('sep', 'dict')),
          'col_to_time_format': shape(fmt, cfg.get('fmt', 'dict'))}
    if cfg.get('split_col') and '__split' not in c2s:
        kw['split_col'] = '__split'
    if tcfg:
        kw['col_to_text_embedder_cfg'] = tcfg
    if icfg:
        kw['col_to_image_embedder_cfg'] = icfg
    return c2s, kw, stubs


def make_dataset(frame, labels=None, dfperm=None, dictperm=None):
    from torch_frame.data import Dataset
    quiet()
    df = render(frame, labels, dfperm)
    c2s, kw, stubs = dataset_kwargs(frame, dictperm)
    return Dataset(df, c2s, **kw), stubs


def run_prelude(frame):
    """materialize the frame's prelude datasets (other configuration, shared raw values) in this process first"""
    for p in frame.get('prelude') or []:
        ds, _ = make_dataset(p)
        ds.materialize()


def cell_repr(v):
    """a raw DataFrame cell as a comparable value (twin comparison: the input frame must not be modified)"""
    if isinstance(v, np.ndarray):
        return ['nd', str(v.dtype), [cell_repr(x) for x in v.tolist()]]
    if isinstance(v, (list, tuple)):
        return [type(v).__name__, [cell_repr(x) for x in v]]
    if isinstance(v, (set, frozenset)):
        return ['set', sorted(map(repr, v))]
    if v is None:
        return 'None'
    if v is pd.NA:
        return '<NA>'
    if v is pd.NaT:
        return 'NaT'
    if isinstance(v, float) and math.isnan(v):
        return 'nan'
    return repr(v)


def frames_identical(a, b):
    """None when two DataFrames agree in columns, dtypes, index and every cell, else a description"""
    if list(a.columns) != list(b.columns):
        return f'columns {list(a.columns)} vs {list(b.columns)}'
    if [str(x) for x in a.dtypes] != [str(x) for x in b.dtypes]:
        return f'dtypes {[str(x) for x in a.dtypes]} vs {[str(x) for x in b.dtypes]}'
    if [cell_repr(x) for x in a.index.tolist()] != [cell_repr(x) for x in b.index.tolist()]:
        return 'index labels differ'
    for j, c in enumerate(a.columns):
        x, y = a.iloc[:, j].tolist(), b.iloc[:, j].tolist()
        for i, (u, v) in enumerate(zip(x, y)):
            if cell_repr(u) != cell_repr(v):
                return f'column {c!r} row {i}: {cell_repr(u)} vs {cell_repr(v)}'
    return None


def scribble(tf, part):
    """a caller writes IN PLACE into the tensors of a TensorFrame it was handed (label standardisation `y.sub_(m).div_(s)`,
    clamping, ...): every non-NaN entry of the chosen tensors changes.  Returns the number of tensors written"""
    import torch
    done = 0

    def write(t):
        nonlocal done
        if not isinstance(t, torch.Tensor) or t.numel() == 0:
            return
        with torch.no_grad():
            if t.is_floating_point():
                t.mul_(-3.0).add_(1.5)
            elif t.dtype == torch.bool:
                t.logical_not_()
            else:
                t.add_(7)
        done += 1
    if part in ('y', 'all') and tf.y is not None:
        write(tf.y)
    if part in ('feat', 'all'):
        for feat in tf.feat_dict.values():
            if isinstance(feat, dict):
                continue
            write(feat if isinstance(feat, torch.Tensor) else feat.values)
    return done


# ------------------------------------------------------------------------------------------ canonicalisers
def _cells_of_feat(feat, st, i, j):
    """entry (i, j) of a feat_dict value as a canonical cell"""
    if isinstance(feat, torch.Tensor):
        v = feat[i, j]
        vals = v.tolist() if v.dim() > 0 else [v.item()]
        if not feat.is_floating_point():
            return [int(x) for x in vals]
        return [cval(float(x)) for x in vals]
    v = feat[i, j]
    vals = v.tolist()
    if v.is_floating_point():
        return [cval(float(x)) for x in vals]
    out = [int(x) for x in vals]
    return sorted(out) if st == 'multicategorical' else out


def _fbits_rows(t):
    """2-D float tensor -> rows of canonical float cells (bit patterns of the double, NaN -> None)"""
    a = t.detach().cpu().to(torch.float64).numpy()
    bits = a.view('uint64').tolist()
    nan = np.isnan(a).tolist()
    return [[None if m else [b] for b, m in zip(rb, rm)] for rb, rm in zip(bits, nan)]


def _column_cells_fast(f, st):
    """all cells of ONE column (dense [n] / [n, k] tensor, or a one-column nested / embedding tensor)"""
    if isinstance(f, torch.Tensor):
        f2 = f.reshape(f.shape[0], -1)
        if f.is_floating_point():
            return _fbits_rows(f2)
        return f2.tolist()
    if hasattr(f, 'offset') and f.values.dim() == 2:           # MultiEmbeddingTensor, one column
        return _fbits_rows(f.values)
    off = f.offset.tolist()
    if f.values.is_floating_point():
        flat = _fbits_rows(f.values.reshape(1, -1))[0]
        return [flat[a:b] for a, b in zip(off, off[1:])]
    flat = f.values.tolist()
    if st == 'multicategorical':
        return [sorted(flat[a:b]) for a, b in zip(off, off[1:])]
    return [flat[a:b] for a, b in zip(off, off[1:])]


def _spot_check(feat, st, j, cells, n):
    """the vectorised reading must agree with element indexing feat[i, j] on a spread of rows"""
    for i in sorted({0, n - 1, n // 2, n // 3, (2 * n) // 3, min(n - 1, 256), min(n - 1, 65536)}):
        if _cells_of_feat(feat, st, i, j) != cells[i]:
            return f'vectorised read of row {i} differs from feat[{i}, {j}]'
    return None


def canon_y(y):
    if y is None:
        return None
    if isinstance(y, torch.Tensor):
        if y.shape[0] > 64:
            return _column_cells_fast(y, 'y')
        out = []
        for i in range(y.shape[0]):
            v = y[i]
            vals = v.tolist() if v.dim() > 0 else [v.item()]
            out.append([int(x) for x in vals] if not y.is_floating_point() else [cval(float(x)) for x in vals])
        return out
    return f'unexpected y type {type(y).__name__}'


def canon_tf(tf):
    """everything observable of a TensorFrame: names, every cell through feat_dict (`grid`) and through
    get_col_feat (`cells`), y, number of rows - in the coding of Drivers/C01.lean `jTF`.  Small frames are read
    cell by cell through feat[i, j]; large ones column by column (feat[:, j]) with spot checks through feat[i, j]"""
    n = int(tf.num_rows)
    names = {st.value: list(cols) for st, cols in tf.col_names_dict.items()}
    ncols = sum(len(c) for c in tf.col_names_dict.values())
    fast = n * max(1, ncols) > FAST_CELLS
    grid, cells = {}, {}
    for st, feat in tf.feat_dict.items():
        C = len(tf.col_names_dict[st])
        if isinstance(feat, dict):
            grid[st.value] = 'dict'
            continue
        if not fast:
            grid[st.value] = [[_cells_of_feat(feat, st.value, i, j) for j in range(C)] for i in range(n)]
            continue
        try:
            per_col = []
            for j in range(C):
                col = _column_cells_fast(feat[:, j], st.value)
                bad = _spot_check(feat, st.value, j, col, n) if n else None
                if bad:
                    raise ValueError(bad)
                per_col.append(col)
            grid[st.value] = [list(row) for row in zip(*per_col)] if per_col else [[] for _ in range(n)]
        except Exception as e:   # noqa
            grid[st.value] = f'unreadable: {type(e).__name__}: {str(e)[:120]}'
    for st, cols in tf.col_names_dict.items():
        for name in cols:
            try:
                f = tf.get_col_feat(name)
                if isinstance(f, dict):
                    cells[name] = 'dict'
                    continue
                rows = int(f.shape[0]) if isinstance(f, torch.Tensor) else int(f.num_rows)
                if fast:
                    cells[name] = _column_cells_fast(f, st.value)
                    if len(cells[name]) != rows:
                        cells[name] = f'{len(cells[name])} cells for {rows} rows'
                else:
                    cells[name] = [_cells_of_feat(f, st.value, i, 0) for i in range(rows)]
            except Exception as e:   # noqa
                cells[name] = f'raises {type(e).__name__}'
    return {'names': names, 'numRows': n, 'cells': cells, 'grid': grid, 'y': canon_y(tf.y)}


def canon_stat_value(v):
    if isinstance(v, torch.Tensor):
        return [int(x) for x in v.tolist()]
    if isinstance(v, tuple):
        return [canon_stat_value(x) for x in v]
    if isinstance(v, list):
        return [canon_stat_value(x) for x in v]
    if isinstance(v, (bool, np.bool_)):
        return int(v)
    if isinstance(v, (int, np.integer)):
        return int(v)
    if isinstance(v, (float, np.floating)):
        return cval(float(v))
    if isinstance(v, str):
        return v
    return repr(v)


def canon_stats_full(col_stats):
    """the complete col_stats dictionary, canonical (used real-vs-real under relabelling / permutation)"""
    return {c: {k.value: canon_stat_value(v) for k, v in sorted(st.items(), key=lambda kv: kv[0].value)}
            for c, st in sorted(col_stats.items())}


def model_stats(col_stats):
    """the part of col_stats the Lean model carries: category list, EMB_DIM, YEAR_RANGE"""
    from torch_frame.data.stats import StatType
    out = {}
    for c, st in col_stats.items():
        cats = []
        if StatType.COUNT in st:
            cats = [ckey(k) for k in st[StatType.COUNT][0]]
        elif StatType.MULTI_COUNT in st:
            cats = [ckey(k) for k in st[StatType.MULTI_COUNT][0]]
        yr = [int(x) for x in st[StatType.YEAR_RANGE]] if StatType.YEAR_RANGE in st else [-1, -1]
        out[c] = {'cats': cats, 'embDim': int(st.get(StatType.EMB_DIM, -1)), 'yearRange': yr}
    return out


def canon_names(d):
    return {st.value: list(cols) for st, cols in d.items()}


# ------------------------------------------------------------------------------------------ model side
def model_cell(col, c):
    st = col['stype']
    if st in ('text_embedded', 'image_embedded'):
        return text_input(col, c)
    if c is None:
        return None
    # (the model moves float payloads as bit patterns; the float32 cast of the mappers is applied here, by struct)
    if st == 'numerical':
        return cval(f32(fval(c)))
    if st == 'categorical':
        return c
    if st == 'multicategorical':
        return list(c)
    if st == 'sequence_numerical':
        return [cval(f32(fval(x))) for x in c]
    if st == 'timestamp':
        return 'bad' if isinstance(c, dict) else int(c)
    if st == 'embedding':
        return [cval(f32(fval(x))) for x in c]
    raise ValueError(st)


def model_cols(frame, rows=None, order=None):
    rows = list(range(frame['n'])) if rows is None else rows
    order = list(range(len(frame['cols']))) if order is None else order
    out = []
    for j in order:
        col = frame['cols'][j]
        d = {'name': col['name'], 'stype': col['stype'], 'cells': [model_cell(col, col['cells'][i]) for i in rows]}
        if col['stype'] in ('text_embedded', 'image_embedded'):
            d['w'], d['salt'] = col['r']['w'], col['r']['salt']
        out.append(d)
    return out


def model_frame(frame, cats, labels=None):
    """the 'mat' / 'conv' request body for the base frame"""
    n = frame['n']
    return {'labels': list(labels['values']) if labels else list(range(n)), 'cols': model_cols(frame),
            'target': frame['target'], 'cats': cats}


def model_label(v):
    """index labels travel as keys; floats (k + 0.5) as strings"""
    return v if isinstance(v, (int, str)) and not isinstance(v, bool) else repr(v)


def sort_multicat(view, frame_or_stypes):
    """model cells of multicategorical columns are sets: sort them (Python's set order is unspecified)"""
    if not isinstance(view, dict):
        return view
    mc = {c['name'] for c in frame_or_stypes['cols'] if c['stype'] == 'multicategorical'}
    cells = {k: ([sorted(c) if isinstance(c, list) else c for c in v] if k in mc and isinstance(v, list) else v)
             for k, v in view['cells'].items()}
    grid = dict(view['grid'])
    if 'multicategorical' in grid and isinstance(grid['multicategorical'], list):
        grid['multicategorical'] = [[sorted(c) for c in row] for row in grid['multicategorical']]
    out = dict(view)
    out['cells'], out['grid'] = cells, grid
    return out


# ------------------------------------------------------------------------------------------ plain-Python oracle
def cat_lookup(cats):
    """category -> index of its first listing"""
    idx = {}
    for i, k in enumerate(cats):
        idx.setdefault(k, i)
    return idx


def expected_cell(col, c, cats, idx=None):
    """the canonical encoding of one abstract cell, straight from the property's text (float payloads as the
    float32 the library's default dtype holds)"""
    st = col['stype']
    if st == 'numerical':
        return [None] if c is None else [cval(f32(fval(c)))]
    if st == 'categorical':
        idx = cat_lookup(cats) if idx is None else idx
        return [idx[c]] if (c is not None and c in idx) else [-1]
    if st == 'multicategorical':
        if c is None:
            return [-1]
        idx = cat_lookup(cats) if idx is None else idx
        return sorted({idx[t] for t in set(c) if t in idx})
    if st == 'sequence_numerical':
        return [] if c is None else [cval(f32(fval(x))) for x in c]
    if st == 'timestamp':
        return components_of(c) if isinstance(c, int) else [-1] * 7
    if st == 'embedding':
        return [None] * col['r']['w'] if c is None else [cval(f32(fval(x))) for x in c]
    if st in ('text_embedded', 'image_embedded'):
        return [cval(x) for x in stub_vec(col['r']['w'], col['r']['salt'], text_input(col, c))]
    raise ValueError(st)


def expected_column(col, cats):
    idx = cat_lookup(cats) if col['stype'] in ('categorical', 'multicategorical') else None
    if col['stype'] in ('text_embedded', 'image_embedded'):
        memo = {}
        out = []
        for c in col['cells']:
            k = text_input(col, c)
            if k not in memo:
                memo[k] = expected_cell(col, c, cats)
            out.append(memo[k])
        return out
    return [expected_cell(col, c, cats, idx) for c in col['cells']]


def observed_values(col):
    """distinct non-missing values of a (multi)categorical column with their counts (per-cell sets)"""
    cnt = {}
    for c in col['cells']:
        if c is None:
            continue
        for v in (set(c) if col['stype'] == 'multicategorical' else [c]):
            cnt[v] = cnt.get(v, 0) + 1
    return cnt


def cats_problem(col, cats, is_target):
    """None when `cats` is an admissible category list for the column, else a description"""
    cnt = observed_values(col)
    if len(set(map(repr, cats))) != len(cats):
        return f'duplicate categories {cats}'
    if set(cats) != set(cnt):
        return f'categories {cats} are not the distinct observed values {sorted(cnt, key=repr)}'
    if is_target and col['stype'] == 'categorical' and len(cats) == 2:
        if not cats[0] < cats[1]:
            return f'two-class target categories not sorted: {cats}'
        return None
    if any(cnt[a] < cnt[b] for a, b in zip(cats, cats[1:])):
        return f'categories not in non-increasing count order: {[(k, cnt[k]) for k in cats]}'
    return None


def expected_names(frame, order=None, with_merge=True):
    """col_names_dict required by the property: grouped by stype, sorted, children behind the embedding group"""
    order = list(range(len(frame['cols']))) if order is None else order
    groups = {}
    for j in order:
        col = frame['cols'][j]
        if col['name'] != frame['target']:
            groups.setdefault(col['stype'], []).append(col['name'])
    groups = {k: sorted(v) for k, v in groups.items()}
    if with_merge:
        emb = groups.pop('embedding', []) + groups.pop('text_embedded', []) + groups.pop('image_embedded', [])
        if emb:
            groups['embedding'] = emb
    return groups


def expected_task(frame, ncls):
    t = next(c for c in frame['cols'] if c['name'] == frame['target'])
    if t['stype'] == 'numerical':
        return 'regression'
    if t['stype'] == 'categorical':
        if ncls <= 1:
            return 'raises'
        return 'binary_classification' if ncls == 2 else 'multiclass_classification'
    return 'raises'


# ------------------------------------------------------------------------------------------ outside the generated domain
def probe_outside_domain():
    """inputs the hardening families touched but that are NOT generated, with what the live code does on them (logged
    in the evidence as observed_outside_generated_domain; never part of a verdict)"""
    import torch_frame
    from torch_frame.data import Dataset
    from torch_frame.data.stats import StatType
    quiet()
    out = []

    def run(what, why, df, c2s, show=None, **kw):
        try:
            ds = Dataset(df, c2s, **kw).materialize()
            obs = show(ds) if show else 'materializes'
        except Exception as e:   # noqa
            obs = f'raises {type(e).__name__}: {str(e)[:140]}'
        out.append({'input': what, 'observed': str(obs)[:300], 'why_not_generated': why})
    ts, cat, num = torch_frame.timestamp, torch_frame.categorical, torch_frame.numerical
    f = pd.Series([1.0, 2.0, 3.0])
    run("timestamp text column ['2001-12-31 23:00:00 +0530', '1999-12-31 23:59:59 -0800', None] with time format "
        "'%Y-%m-%d %H:%M:%S %z' (two DIFFERENT UTC offsets in one column)",
        'pandas.to_datetime refuses mixed offsets without utc=True even under errors="coerce"; one offset per column is generated',
        pd.DataFrame({'t': _series(['2001-12-31 23:00:00 +0530', '1999-12-31 23:59:59 -0800', None], 'object')}), {'t': ts},
        col_to_time_format='%Y-%m-%d %H:%M:%S %z')
    run("timestamp text column ['2001-12-31 23:00:00', '1999-12-31 23:59:59.5', None] with time format None (auto)",
        'pandas guesses ONE format from the first entry, the entry with a fraction becomes NaT: pandas\' business; under format=None '
        'every cell of a column is written the same way',
        pd.DataFrame({'t': _series(['2001-12-31 23:00:00', '1999-12-31 23:59:59.5', None], 'object')}), {'t': ts},
        show=lambda ds: ds.tensor_frame.feat_dict[ts][:, 0].tolist())
    run("categorical column pd.Categorical(['b','a',None], categories=['c','zz','b','a']) (declared but unused categories), as target",
        'value_counts of a CategoricalDtype column lists the unused categories with count 0, num_classes counts them: whether a '
        'declared-but-absent class belongs to "the target column" is not settled by the text; every generated CategoricalDtype '
        'column declares exactly its observed values',
        pd.DataFrame({'c': pd.Categorical(['b', 'a', None], categories=['c', 'zz', 'b', 'a']), 'f': f}), {'c': cat, 'f': num},
        show=lambda ds: (ds.col_stats['c'][StatType.COUNT], 'num_classes', ds.num_classes), target_col='c')
    run("categorical column pd.Categorical([3, 1, None, 3, 7]) (int64 categories, one missing cell)",
        'the merge inside CategoricalTensorMapper casts the categorical key to int64 and cannot hold the missing cell (same class as '
        'integer categories in an object column); integer categories of a CategoricalDtype are generated as Int64 categories',
        pd.DataFrame({'c': pd.Categorical([3, 1, None, 3, 7])}), {'c': cat})
    run("multicategorical column pd.Series(['b,a', None, 'c'], dtype='string') (pd.NA-backed string dtype, one missing cell), sep=','",
        'the missing cell is pd.NA, which split_by_sep rejects; the property lists None/NaN/NaT as missing markers and object / str as '
        'the string representations; `string` columns are generated without missing cells (multicategorical) and with them elsewhere',
        pd.DataFrame({'m': pd.Series(['b,a', None, 'c'], dtype='string')}), {'m': torch_frame.multicategorical}, col_to_sep=',')
    run("numerical column pd.Series([True, False, True]) (bool dtype)",
        'np.quantile cannot subtract booleans; a bool column is not a numerical column in the sense of the property',
        pd.DataFrame({'x': pd.Series([True, False, True])}), {'x': num})
    run("sequence_numerical column whose cells are tuples / ndarrays: [(1.0, 2.0), None, (3.0,)]",
        'NumericalSequenceTensorMapper documents lists only and raises ValueError otherwise (a guard, not a wrong encoding)',
        pd.DataFrame({'s': _series([(1.0, 2.0), None, (3.0,)], 'object')}), {'s': torch_frame.sequence_numerical})
    return out

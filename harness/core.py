"""Shared machinery of the pytorch-frame verification checks (DESIGN.md section 2).

One check run =
  1. regenerate the reflective tables (harness/tables.py -> lean/TFVerif/Gen/Tables.lean)
  2. lake build  <property theorems> <audit module> <driver>       (proof obligations)
  3. axiom audit (#print axioms of every property theorem) + forbidden-token grep
  4. correspondence: corpus + generated cases; real code (in-process, from /repo) vs Lean
     model (compiled driver, line protocol); per-property direct oracle on the real code
  5. verdict, replay files, evidence/<id>.json
Exit codes: 0 held, 1 violation (VIOLATION line printed), 2 the check itself is broken.
"""
from __future__ import annotations

import hashlib
import json
import os
import random
import re
import subprocess
import sys
import time
import traceback

os.environ.setdefault('OMP_NUM_THREADS', '1')
os.environ.setdefault('MKL_NUM_THREADS', '1')
VERIF = os.path.dirname(os.path.dirname(os.path.abspath(__file__)))
LEAN = os.path.join(VERIF, 'lean')
# The registered checks always run against /repo.  VERIF_REPO exists only so that a scratch copy of the
# repository (e.g. one carrying a seeded breaking change) can be checked without touching /repo.
REPO = os.environ.get('VERIF_REPO', '/repo')
if REPO not in sys.path:
    sys.path.insert(0, REPO)      # before anything imports torch_frame
# Only for evaluating seeded changes (tools/seed_eval.py): keeps such runs from overwriting the committed evidence.
EVIDENCE_DIR = os.environ.get('VERIF_EVIDENCE_DIR', os.path.join(VERIF, 'evidence'))
REPLAY_DIR = os.environ.get('VERIF_REPLAY_DIR', os.path.join(VERIF, 'replays'))
ALLOWED_AXIOMS = {'propext', 'Classical.choice', 'Quot.sound'}
FORBIDDEN = re.compile(
    r'\bsorry\b|\badmit\b|^\s*axiom\s|native_decide|bv_decide|implemented_by|\bunsafe\s|maxHeartbeats\s+0')

TRUSTED_BASE = [
    'Lean 4.33.0 kernel (lake build; thorough tier re-checks the .olean files with leanchecker)',
    'axioms: at most propext, Classical.choice, Quot.sound (audited per theorem on every run); no sorry/admit/native_decide/bv_decide/added axioms',
    'the hand-written Lean model of the code (TFVerif/Model/*.lean): modelled, tied to /repo by the correspondence check of this run',
    'the correspondence harness (generators, canonicalisers, driver line protocol) and the reflective table translator harness/tables.py',
    'pandas / PyTorch / numpy primitives are modelled from their documentation, not verified',
]


def ensure_repo_import():
    """Import torch_frame from /repo's working tree and assert that is what we got."""
    if REPO not in sys.path:
        sys.path.insert(0, REPO)
    import torch
    torch.set_num_threads(1)
    import torch_frame  # noqa
    path = os.path.realpath(torch_frame.__file__)
    if not path.startswith(os.path.realpath(REPO) + os.sep):
        print(f'check broken: torch_frame imported from {path}, not from {REPO}')
        sys.exit(2)
    return torch_frame


# --------------------------------------------------------------------------- lean side

def run(cmd, cwd=None, timeout=3600, input=None):
    p = subprocess.run(cmd, cwd=cwd, capture_output=True, text=True, timeout=timeout, input=input)
    return p.returncode, p.stdout + p.stderr


def lake_build(targets, timeout=3000):
    t0 = time.time()
    rc, out = run(['lake', 'build'] + list(targets), cwd=LEAN, timeout=timeout)
    return rc == 0, out, time.time() - t0


def failed_modules(build_log):
    mods = set(re.findall(r'^- (\S+)', build_log, flags=re.M))
    errs = re.findall(r'^error: (\S+?\.lean):(\d+):(\d+): (.*)', build_log, flags=re.M)
    return sorted(mods), errs


def theorems_in(lean_file):
    """names of theorems declared in a Props file (to cross-check the audit list)."""
    txt = open(lean_file).read()
    txt = re.sub(r'/-.*?-/', '', txt, flags=re.S)
    txt = re.sub(r'--.*', '', txt)
    return re.findall(r'^\s*theorem\s+([A-Za-z0-9_.\']+)', txt, flags=re.M)


def audit(pid):
    """Run the audit module; returns {theorem: [axioms]} and problems list."""
    path = os.path.join(LEAN, 'TFVerif', 'Audit', f'{pid}.lean')
    problems = []
    if not os.path.exists(path):
        return {}, [f'missing audit module {path}']
    rc, out = run(['lake', 'env', 'lean', path], cwd=LEAN, timeout=1800)
    if rc != 0:
        problems.append(f'audit module does not check: {out[-800:]}')
    ax = {}
    for m in re.finditer(r"'([^']+)' depends on axioms: \[([^\]]*)\]", out, flags=re.S):
        ax[m.group(1)] = [a.strip() for a in m.group(2).replace('\n', ' ').split(',') if a.strip()]
    for m in re.finditer(r"'([^']+)' does not depend on any axioms", out):
        ax[m.group(1)] = []
    for th, axs in ax.items():
        extra = [a for a in axs if a not in ALLOWED_AXIOMS]
        if extra:
            problems.append(f'theorem {th} depends on disallowed axioms {extra}')
    return ax, problems


def tfverif_closure(mod):
    """transitive closure of the project's own imports of a module (the .olean files leanchecker replays)"""
    seen, todo = [], [mod]
    while todo:
        m = todo.pop()
        if m in seen:
            continue
        path = os.path.join(LEAN, *m.split('.')) + '.lean'
        if not os.path.exists(path):
            continue
        seen.append(m)
        for imp in re.findall(r'^import\s+(TFVerif\.[A-Za-z0-9_.]+)', open(path).read(), flags=re.M):
            todo.append(imp)
    return sorted(seen)


def leanchecker(pid):
    """independent kernel re-check (leanchecker replays every declaration of the compiled modules)"""
    mods = tfverif_closure(f'TFVerif.Props.{pid}')
    t0 = time.time()
    rc, out = run(['lake', 'env', 'leanchecker'] + mods, cwd=LEAN, timeout=3000)
    return {'modules': mods, 'ok': rc == 0, 'seconds': round(time.time() - t0, 1), 'output': out[-400:]}


def forbidden_tokens():
    hits = []
    for root, _, files in os.walk(os.path.join(LEAN, 'TFVerif')):
        for f in files:
            if not f.endswith('.lean'):
                continue
            p = os.path.join(root, f)
            txt = open(p).read()
            txt = re.sub(r'/-.*?-/', lambda m: '\n' * m.group(0).count('\n'), txt, flags=re.S)
            for n, line in enumerate(txt.split('\n'), 1):
                code = re.sub(r'--.*', '', line)
                if FORBIDDEN.search(code):
                    hits.append(f'{os.path.relpath(p, LEAN)}:{n}: {line.strip()[:100]}')
    return hits


class Driver:
    """Batch interface to a compiled model driver: lines in, lines out."""

    def __init__(self, name):
        self.name = name
        self.path = os.path.join(LEAN, '.lake', 'build', 'bin', name)

    def ask(self, objs, timeout=1800):
        if not objs:
            return []
        data = '\n'.join(json.dumps(o, separators=(',', ':')) for o in objs) + '\n'
        p = subprocess.run([self.path], input=data, capture_output=True, text=True, timeout=timeout)
        lines = [l for l in p.stdout.split('\n') if l.strip()]
        if p.returncode != 0 or len(lines) != len(objs):
            raise RuntimeError(f'driver {self.name}: rc={p.returncode} {len(lines)} replies for '
                               f'{len(objs)} lines; stderr={p.stderr[-500:]}')
        return [json.loads(l) for l in lines]


# --------------------------------------------------------------------------- verdict plumbing

def _shorten(obj, budget=6000):
    """JSON-able copy of obj whose serialisation stays below ~budget characters (long lists are cut)"""
    txt = json.dumps(obj, default=str)
    if len(txt) <= budget:
        return obj
    if isinstance(obj, dict):
        return {k: _shorten(v, max(200, budget // max(1, len(obj)))) for k, v in list(obj.items())[:40]}
    if isinstance(obj, (list, tuple)):
        head = [_shorten(v, max(100, budget // 8)) for v in list(obj)[:6]]
        return head + [f'... ({len(obj)} entries in all)']
    return txt[:budget] + '...'


def small_samples(cases, reals, k=3, scan=400):
    """k sample cases for the evidence file: the smallest of the first `scan` generated cases, shortened — the
    evidence must stay a small record (scale cases can be megabytes)"""
    cand = []
    for c, r in list(zip(cases, reals))[:scan]:
        try:
            size = len(json.dumps(c, default=str)) + len(json.dumps(r, default=str))
        except Exception:   # noqa
            continue
        cand.append((size, len(cand), c, r))
    cand.sort(key=lambda t: (t[0] > 4000, t[1]))      # the first cases that are small enough, in generation order
    return [{'case': _shorten(c), 'real': _shorten(r)} for _, _, c, r in cand[:k]]


class _Skip:
    """returned by Check.model_outcome for a case that is judged by the direct oracle only (e.g. an input too
    large to ship through the JSON protocol): the case is not counted as compared with the model"""
    def __repr__(self):
        return 'SKIP_MODEL'


SKIP_MODEL = _Skip()


class Violation:
    def __init__(self, key, what, case, expected=None, actual=None, source='oracle'):
        self.key, self.what, self.case = key, what, case
        self.expected, self.actual, self.source = expected, actual, source


def load_known():
    p = os.path.join(VERIF, 'known_findings.json')
    if not os.path.exists(p):
        return {'open': [], 'fixed': []}
    return json.load(open(p))


def float_bits(x):
    import struct
    return struct.unpack('<Q', struct.pack('<d', float(x)))[0]


def bits_float(n):
    import struct
    return struct.unpack('<d', struct.pack('<Q', int(n)))[0]


def stable_hash(obj):
    return hashlib.sha1(json.dumps(obj, sort_keys=True, default=str).encode()).hexdigest()[:16]


class Check:
    """Base class; one subclass per property in harness/props/cXX.py."""
    pid = 'C00'
    title = ''
    driver = None               # name of lean_exe
    lean_targets = ()           # extra lake targets (Props/Audit are implied)
    quick_cases = 300
    thorough_cases = 6000
    rule = ''
    partial_notes = ()          # what is not carried by a theorem
    assumptions = ()
    level = 0                   # stress level of the current run (set by run(); see harness/stress.py)
    escalation_factor = 3       # quick-tier case multiplier when the anchored source changed

    # -- to override -------------------------------------------------------
    def corpus(self):
        d = os.path.join(VERIF, 'corpus', self.pid)
        out = []
        if os.path.isdir(d):
            for f in sorted(os.listdir(d)):
                if f.endswith('.json'):
                    out.append(json.load(open(os.path.join(d, f))))
        return out

    def generate(self, rng, n, tier):
        """yield JSON-able cases"""
        raise NotImplementedError

    def real(self, case):
        """run the real code; return canonical JSON-able outcome"""
        raise NotImplementedError

    def model_requests(self, case):
        """protocol objects to send to the driver for this case"""
        raise NotImplementedError

    def model_outcome(self, case, replies):
        """canonical outcome from the driver's replies"""
        return replies

    def equal(self, a, b):
        return a == b

    def oracle(self, case, real_outcome):
        """direct check of the property's text on the real code; return Violation or None"""
        return None

    def nontrivial_key(self, case, real_outcome):
        """hashable key if the case is non-trivial, else None"""
        return stable_hash(case)

    def classify(self, case, real_outcome):
        """labels for the input-distribution histogram"""
        return []

    def extra_checks(self, rng, tier, report):
        """additional property-specific work (exhaustive boxes, enumeration); may append to
        report['violations'] and fill report['extra']"""
        return

    def shrink(self, case, still_fails):
        return case

    # -- engine -----------------------------------------------------------------
    def main(self, argv):
        tier = os.environ.get('VERIF_TIER', 'quick')
        replay = None
        args = list(argv)
        while args:
            a = args.pop(0)
            if a in ('quick', 'thorough'):
                tier = a
            elif a == '--replay':
                replay = args.pop(0)
        seed = int(os.environ.get('VERIF_SEED', '0') or 0)
        if replay:
            return self.replay(replay)
        try:
            return self.run(tier, seed)
        except SystemExit:
            raise
        except Exception:
            traceback.print_exc()
            print(f'check {self.pid} broken (internal error)')
            return 2

    def replay(self, path):
        ensure_repo_import()
        doc = json.load(open(path))
        case = doc.get('case')
        if case is None:
            print(json.dumps(doc, indent=1)[:4000])
            return 0
        ok, log, _ = lake_build([self.driver] if self.driver else [])
        r = self.real(case)
        print('case     :', json.dumps(case)[:3000])
        print('real code:', json.dumps(r)[:3000])
        if self.driver and ok:
            m = self.model_outcome(case, Driver(self.driver).ask(self.model_requests(case)))
            if m is SKIP_MODEL:
                print('model    : (case judged by the direct oracle only)')
            else:
                print('model    :', json.dumps(m, default=str)[:3000])
                print('agree    :', self.equal(r, m))
        v = self.oracle(case, r)
        print('oracle   :', 'ok' if v is None else f'VIOLATED: {v.what}')
        return 1 if v is not None else 0

    def run(self, tier, seed):
        t0 = time.time()
        ensure_repo_import()
        pid = self.pid
        report = {'violations': [], 'extra': {}, 'broken': []}
        # stress level (harness/stress.py): 0 quick, 1 quick on a source that differs from the recorded
        # fingerprint (escalated search, never an alarm by itself), 2 thorough
        from harness import stress
        changed = stress.changed_files(REPO, pid)
        self.level = 2 if tier == 'thorough' else (1 if changed else 0)
        report['extra']['source_fingerprint'] = {
            'anchored_files_changed_since_model_validation': changed, 'stress_level': self.level,
            'note': 'a changed source is not a violation; it escalates the quick tier (more cases, larger sizes)'}

        # 1. tables
        from harness import tables
        deps = tables.gen_deps(pid)
        _, tab_failed = tables.regenerate(only=deps)
        for name, e in tab_failed.items():
            if name in deps or name.lower() in {d.lower() for d in deps}:
                report['broken'].append(f'table translator: Gen.{name} cannot be generated from the live code: {e}')

        # 2. build
        props_mod, audit_mod = f'TFVerif.Props.{pid}', f'TFVerif.Audit.{pid}'
        targets = [props_mod, audit_mod] + list(self.lean_targets) + ([self.driver] if self.driver else [])
        ok, log, build_s = lake_build(targets)
        driver_ok = True
        if not ok:
            mods, errs = failed_modules(log)
            for m in mods:
                report['broken'].append(f'lake build: {m} fails: ' +
                                        '; '.join(f'{f}:{l}: {msg}' for f, l, c, msg in errs[:3]))
            if not mods:
                report['broken'].append('lake build failed: ' + log[-600:])
            if self.driver:
                ok2, log2, _ = lake_build([self.driver])
                driver_ok = ok2
        # 3. audit
        axioms, problems = ({}, [])
        declared = []
        pf = os.path.join(LEAN, 'TFVerif', 'Props', f'{pid}.lean')
        if os.path.exists(pf):
            declared = theorems_in(pf)
        if ok:
            axioms, problems = audit(pid)
            short = {k.split('.')[-1] for k in axioms}
            for th in declared:
                if th.split('.')[-1] not in short:
                    problems.append(f'theorem {th} of Props/{pid}.lean is not audited')
        tok = forbidden_tokens()
        if tok:
            problems += [f'forbidden token: {h}' for h in tok]
        if problems:
            for p in problems:
                print('AUDIT PROBLEM:', p)
            print(f'check {pid} broken: proof audit failed')
            self.write_evidence(tier, seed, t0, report, axioms, declared, {}, [], 0, 0, 0, {})
            return 2
        obligations = len(declared)
        discharged = len(declared) if ok else 0
        if ok and tier == 'thorough':
            lc = leanchecker(pid)
            report['extra']['leanchecker'] = lc
            if not lc['ok']:
                report['broken'].append('leanchecker rejects the compiled proofs: ' + lc['output'])

        # 4. correspondence
        rng = random.Random(seed * 1000003 + 17)
        n = self.thorough_cases if tier == 'thorough' else self.quick_cases
        if self.level == 1:
            n = min(self.thorough_cases, n * self.escalation_factor)
        cases = list(self.corpus())
        n_corpus = len(cases)
        cases += list(self.generate(rng, n, tier))
        reals, hist, keys = [], {}, set()
        oracle_viol = []
        for case in cases:
            r = self.real(case)
            reals.append(r)
            for lab in self.classify(case, r):
                hist[lab] = hist.get(lab, 0) + 1
            k = self.nontrivial_key(case, r)
            if k is not None:
                keys.add(k)
            v = self.oracle(case, r)
            if v is not None:
                oracle_viol.append(v)
        disagreements = []
        compared = 0
        oracle_only = 0
        if self.driver and driver_ok:
            reqs, spans = [], []
            for case in cases:
                rq = self.model_requests(case)
                spans.append((len(reqs), len(reqs) + len(rq)))
                reqs += rq
            replies = Driver(self.driver).ask(reqs)
            for case, r, (a, b) in zip(cases, reals, spans):
                rep = replies[a:b]
                bad = [x for x in rep if isinstance(x, dict) and 'driver_error' in x]
                if bad:
                    print(f'check {pid} broken: driver protocol error {bad[0]}')
                    return 2
                m = self.model_outcome(case, rep)
                if m is SKIP_MODEL:
                    oracle_only += 1
                    continue
                compared += 1
                if not self.equal(r, m):
                    disagreements.append((case, r, m))
        elif self.driver:
            report['broken'].append(f'driver {self.driver} does not build')
        self.extra_checks(rng, tier, report)
        report['extra']['oracle_only_cases'] = oracle_only

        # 5. verdict
        violations = list(report['violations']) + oracle_viol
        if disagreements:
            for case, r, m in disagreements[:50]:
                v = self.oracle(case, r)
                if v is None:
                    report['broken'].append('correspondence: model and code differ on a case')
                    report.setdefault('disagree_samples', []).append({'case': case, 'real': r, 'model': m})
        if report['broken'] and not violations:
            # failing-input search on the real code with a fresh budget
            rng2 = random.Random(seed * 7919 + 5)
            extra_n = max(n, 2000)
            for case in self.generate(rng2, extra_n, tier):
                r = self.real(case)
                v = self.oracle(case, r)
                if v is not None:
                    violations.append(v)
                    break
        rc = 0
        known = load_known()
        os.makedirs(REPLAY_DIR, exist_ok=True)
        seen_keys = set()
        nviol = 0
        for i, v in enumerate(violations):
            if v.key in seen_keys:
                continue
            seen_keys.add(v.key)
            kf = [k for k in known.get('open', []) if k['property'] == pid and k['key'] == v.key]
            if kf:
                print(f"KNOWN-FINDING: property={pid} {kf[0]['what']}")
                continue
            nviol += 1
            path = os.path.join(REPLAY_DIR, f'{pid}-{seed}-{nviol}.json')
            json.dump({'property': pid, 'key': v.key, 'what': v.what, 'case': v.case,
                       'required': v.expected, 'observed': v.actual, 'found_by': v.source,
                       'broken_obligations': report['broken']}, open(path, 'w'), indent=1, default=str)
            print(f'VIOLATION property={pid} replay={path}')
            rc = 1
        if report['broken'] and nviol == 0 and not (violations and rc == 0 and all(
                any(k['property'] == pid and k['key'] == v.key for k in known.get('open', []))
                for v in violations) and False):
            path = os.path.join(REPLAY_DIR, f'{pid}-{seed}-unproved.json')
            json.dump({'property': pid, 'no_longer_checks': report['broken'],
                       'disagreements': report.get('disagree_samples', [])[:5],
                       'note': 'a proof obligation or the model/code correspondence no longer checks and '
                               'the failing-input search on the real code found no input violating the property'},
                      open(path, 'w'), indent=1, default=str)
            for b in report['broken'][:5]:
                print('BROKEN:', b[:300])
            print(f'VIOLATION property={pid} replay={path} no-failing-input-found')
            rc = 1
        # open known findings that did not fire are still announced (they are recorded defects)
        samples = small_samples(cases[n_corpus:], reals[n_corpus:])
        self.write_evidence(tier, seed, t0, report, axioms, declared, hist, samples,
                            len(cases), len(keys), compared, {'violations': nviol,
                                                              'disagreements': len(disagreements),
                                                              'obligations': obligations,
                                                              'discharged': discharged,
                                                              'build_s': round(build_s, 1)})
        print(f'{pid} {tier} seed={seed}: obligations {discharged}/{obligations}, cases {len(cases)} '
              f'(nontrivial {len(keys)}), compared with model {compared}, disagreements {len(disagreements)}, '
              f'violations {nviol}, {time.time() - t0:.1f}s')
        return rc

    def write_evidence(self, tier, seed, t0, report, axioms, declared, hist, samples,
                       evaluations, distinct, compared, nums):
        cov = {
            'obligations': nums.get('obligations', len(declared)),
            'discharged': nums.get('discharged', 0),
            'checker_cmd': f'cd /verif/lean && lake build TFVerif.Props.{self.pid} TFVerif.Audit.{self.pid}'
                           f' && lake env lean TFVerif/Audit/{self.pid}.lean   # (#print axioms)',
            'trusted_base': TRUSTED_BASE + list(self.assumptions),
            'theorems': {k: v for k, v in sorted(axioms.items())},
            'evaluations': evaluations,
            'distinct_nontrivial': distinct,
            'rule': self.rule,
            'programs': compared,
            'disagreements_checked': nums.get('disagreements', 0),
            'samples': samples if samples else [{'note': 'no case generated'}],
            'input_distribution': dict(sorted(hist.items())),
            'broken_obligations': report.get('broken', []),
            'not_carried_by_a_theorem': list(self.partial_notes),
            'build_s': nums.get('build_s'),
        }
        cov.update({k: _shorten(v, 40000) for k, v in report.get('extra', {}).items()})
        cov['broken_obligations'] = [str(b)[:2000] for b in cov['broken_obligations']][:50]
        ev = {
            'property_id': self.pid, 'tier': tier, 'seed': seed, 'level': 'proof',
            'coverage': cov,
            'assumptions': list(self.assumptions) + list(self.partial_notes),
            'wall_s': round(time.time() - t0, 2),
            'violations': nums.get('violations', 0),
        }
        os.makedirs(EVIDENCE_DIR, exist_ok=True)
        json.dump(ev, open(os.path.join(EVIDENCE_DIR, f'{self.pid}.json'), 'w'), indent=1, default=str)

"""Generators, real-code runners and canonicalisers for the encoder checks (C12, C13).

A *case* is a JSON-able dict describing
  * a small table (five stypes: numerical, categorical, multicategorical, timestamp, embedding;
    every column has at least one non-missing finite value) that is turned into a pandas DataFrame,
    wrapped in a torch_frame Dataset and materialized (float64 default dtype, this process only),
  * an optional second "evaluation" table with the same schema (values outside the training range,
    unseen categories, later years) that goes through the dataset's own converter,
  * one admissible encoder / NA strategy / post module per stype, the channel count,
  * a seed for re-drawing every parameter (padding rows of `Embedding` are kept at zero, which is the
    hypothesis `table[0] = 0` of the zero-embedding theorem and is re-checked on every export),
  * batch selections.
Everything random comes from the `rng` handed in by the check engine.
"""
from __future__ import annotations

import copy
import math
import warnings

from harness import core

warnings.filterwarnings('ignore')

TIME_FMT = '%Y-%m-%d %H:%M:%S'
STYPES = ['numerical', 'categorical', 'multicategorical', 'timestamp', 'embedding']
NUM_CLASSES = ['linear', 'stack', 'bucket', 'periodic', 'excel']
NA_FOR = {
    'numerical': [None, 'mean', 'zeros'],
    'categorical': [None, 'most_frequent'],
    'multicategorical': [None, 'zeros'],
    'timestamp': [None, 'median_timestamp', 'oldest_timestamp', 'newest_timestamp'],
    'embedding': [None],
}
# tolerances: float64 everywhere, except where the CODE forces float32
#   * TimestampEncoder casts to float32 before the cyclic encoding   (feat.to(torch.float32))
#   * LinearBucketEncoder builds its mask with `.float()` and can therefore only run in float32 at all
REL64, ABS64 = 1e-9, 1e-12
TS_ERR = 4e-6        # per unit of sum|weight|: float32 argument of sin/cos up to 8*pi
F32_ERR = 4e-6       # per unit of sum|term| of a float32 contraction

_T = {}


def T():
    """lazy import of torch / torch_frame (after core.ensure_repo_import)"""
    if not _T:
        core.ensure_repo_import()
        import numpy as np
        import pandas as pd
        import torch
        import torch_frame
        from torch_frame import NAStrategy, stype
        from torch_frame.data import Dataset
        from torch_frame.data.stats import StatType
        from torch_frame.nn import encoder as E
        torch.set_default_dtype(torch.float64)
        _T.update(np=np, pd=pd, torch=torch, tf=torch_frame, NA=NAStrategy, stype=stype, Dataset=Dataset,
                  Stat=StatType, E=E)
    return _T


# --------------------------------------------------------------------------- generation

def _f32(rng):
    """float32-exact numbers: eighths, a few large / tiny magnitudes"""
    k = rng.random()
    if k < 0.8:
        return rng.randint(-64, 64) / 8.0
    if k < 0.9:
        return float(rng.randint(-4000, 4000))
    return rng.randint(-32, 32) / 1024.0


# sentinel look-alikes and awkward spellings as category / token names (family 2)
SPECIAL_CATS = ['-1', 'nan', 'None', '<NA>', '0', ' ', 'A', 'a', 'sports', 'sportswear', 'a\x00', 'É', 'é']
SPECIAL_TOKENS = ['-1', 'nan', 'None', '0', 'A', 'a', 'sports', 'sportswear', 'É']
# column names: mixed case, one name a prefix / substring of another, sentinel look-alikes
SPECIAL_NAMES = ['w', 'W', 'Zeta', 'alpha', 'label', 'label_prev', 'sports', 'sportswear', '-1', 'nan', 'None', '0',
                 'a b', 'é', 'Z', 'z_', '_z']
# float64-only payloads of moderate magnitude (the frame is float64 in this process)
F64_VALUES = [0.1, 1.0 / 3.0, 2.0 ** 24 + 1, 1700000001.0, -0.7, 1e-9]
EDGE_VALUES = [-1.0, 0.5, 0.0, -0.0, 2.0 ** 24, -2.0 ** 31, 1e-38]


def gen_column(rng, st, n, name, allow_missing=True, train=None, opts=None):
    """values of one column; `train` = the training column when generating the evaluation table; `opts` = the
    stress options of the case (`ncat` = size of the category vocabulary, `width` = embedding width, `f64` =
    float64-only values allowed, `special` = sentinel look-alike category names)"""
    opts = opts or {}
    miss = rng.choice([0.0, 0.2, 0.5]) if allow_missing else 0.0
    col = {'name': name, 'stype': st}
    if st == 'numerical':
        const = rng.random() < 0.12
        c = _f32(rng)
        vals = [None if rng.random() < miss else (c if const else _f32(rng)) for _ in range(n)]
        if train is None and opts.get('edge') and not const:
            pool = EDGE_VALUES + (F64_VALUES if opts.get('f64') else [])
            for _ in range(rng.randint(1, 3)):
                vals[rng.randrange(n)] = rng.choice(pool)
        if train is None and rng.random() < 0.06:
            vals[rng.randrange(n)] = rng.choice(['inf', '-inf'])
        if all(v is None or isinstance(v, str) for v in vals):
            vals[rng.randrange(n)] = _f32(rng)
    elif st == 'categorical':
        alphabet = rng.choice([['a'], ['a', 'b'], ['a', 'b', 'c', 'd'], ['x', 'y', 'z', 'w', 'v', 'u']])
        if opts.get('special') and train is None:
            alphabet = rng.sample(SPECIAL_CATS, rng.randint(2, 6))
        if opts.get('ncat') and train is None:
            alphabet = [f'k{i}' for i in range(opts['ncat'])]
        if train is not None:
            alphabet = sorted({v for v in train['values'] if v is not None}) + ['UNSEEN1', 'UNSEEN2']
        vals = [None if rng.random() < miss else rng.choice(alphabet) for _ in range(n)]
        if opts.get('ncat') and train is None and n >= len(alphabet):
            pos = rng.sample(range(n), len(alphabet))          # every category of the large vocabulary occurs
            for q, a in zip(pos, alphabet):
                vals[q] = a
        if all(v is None for v in vals):
            vals[rng.randrange(n)] = alphabet[0]
    elif st == 'multicategorical':
        alphabet = rng.choice([['p'], ['p', 'q'], ['p', 'q', 'r', 's']])
        if opts.get('special') and train is None:
            alphabet = rng.sample(SPECIAL_TOKENS, rng.randint(2, 5))
        if opts.get('ncat') and train is None:
            alphabet = [f't{i}' for i in range(opts['ncat'])]
        if train is not None:
            if opts.get('special') or opts.get('ncat'):
                alphabet = sorted({t for v in train['values'] if v for t in v.split(',')} or {'p'})
            alphabet = alphabet + ['UNSEEN']
        vals = []
        for _ in range(n):
            if rng.random() < miss:
                vals.append(None)
            else:
                k = rng.randint(0, len(alphabet)) if len(alphabet) <= 8 else rng.choice([0, 1, 2, 5, opts.get('cell', 5)])
                vals.append(','.join(rng.sample(alphabet, min(k, len(alphabet)))))
        if opts.get('ncat') and train is None:
            vals[rng.randrange(n)] = ','.join(alphabet)        # one long cell holding the whole vocabulary
        if all(v is None for v in vals):
            vals[rng.randrange(n)] = alphabet[0]
    elif st == 'timestamp':
        lo, hi = rng.choice([(1990, 2030), (1700, 2200), (2020, 2020)])
        if train is not None:
            years = [int(v[:4]) for v in train['values'] if v is not None]
            # later years are inside the encoder's domain, earlier ones are not (logged, not alarmed)
            lo, hi = (min(years), 2250) if rng.random() < 0.85 else (min(years) - 30, max(years))
        vals = []
        for _ in range(n):
            if rng.random() < miss:
                vals.append(None)
            else:
                mo = rng.randint(1, 12)
                d = rng.randint(1, 28) if rng.random() < 0.8 else rng.choice([28, 30, 31][:1 if mo == 2 else 3 if mo in (1, 3, 5, 7, 8, 10, 12) else 2])
                h, mi, s = (rng.choice([0, 23]), rng.choice([0, 59]), rng.choice([0, 59])) if rng.random() < 0.3 else (
                    rng.randint(0, 23), rng.randint(0, 59), rng.randint(0, 59))
                vals.append('%04d-%02d-%02d %02d:%02d:%02d' % (rng.randint(lo, hi), mo, d, h, mi, s))
        if all(v is None for v in vals):
            vals[rng.randrange(n)] = '%04d-06-15 12:30:45' % lo
    else:  # embedding
        w = (opts.get('width') or rng.randint(1, 4)) if train is None else len(train['values'][0])
        vals = []
        for _ in range(n):
            v = [_f32(rng) for _ in range(w)]
            if rng.random() < miss * 0.5:
                v[rng.randrange(w)] = 'nan'
            vals.append(v)
        if all(any(x == 'nan' for x in v) for v in vals):
            vals[0] = [_f32(rng) for _ in range(w)]
    col['values'] = vals
    return col


def gen_post(rng, allow_ln=True):
    r = rng.random()
    if r < 0.45:
        return {'t': 'none'}
    if r < 0.65:
        return {'t': 'relu'}
    if r < 0.8 or not allow_ln:
        return {'t': 'tanh'}
    return {'t': 'ln'}


LM_STYPES = ['numerical', 'categorical', 'timestamp', 'embedding']


def gen_encoder(rng, st, force_cls=None):
    na = rng.choice(NA_FOR[st])
    if force_cls == 'linmodel':
        # LinearModelEncoder with one stub user model per column; `cfg_seed` fixes the insertion order of the
        # user's col_to_model_cfg dict (unrelated to the frame's column order) and the models' output widths
        return {'cls': 'linmodel', 'na': na, 'post': gen_post(rng), 'cfg_seed': rng.randrange(1 << 30),
                'cfg_order': rng.choice(['shuffled', 'shuffled', 'reversed', 'frame'])}
    if st == 'numerical':
        cls = force_cls or rng.choice(NUM_CLASSES)
        e = {'cls': cls, 'na': na, 'post': gen_post(rng, allow_ln=cls != 'bucket')}
        if cls == 'periodic':
            e['n_bins'] = rng.choice([1, 2, 3, 16])
    elif st == 'categorical':
        e = {'cls': 'embedding', 'na': na, 'post': gen_post(rng)}
    elif st == 'multicategorical':
        e = {'cls': 'bag', 'na': na, 'post': gen_post(rng), 'mode': rng.choice(['mean', 'sum', 'max']),
             'rand_padding_row': rng.random() < 0.5}
    elif st == 'timestamp':
        e = {'cls': 'timestamp', 'na': na, 'post': gen_post(rng, allow_ln=False), 'out_size': rng.choice([2, 4, 8])}
    else:
        e = {'cls': 'linemb', 'na': None, 'post': gen_post(rng)}
    return e


def gen_batches(rng, n, long=None):
    bs = [{'t': 'whole'}, {'t': 'row', 'i': rng.randrange(n)}]
    if long:                               # a long multiset of the frame's rows (batch-size scale)
        bs.append(rng.choice([{'t': 'empty_list'}, {'t': 'slice00'}, {'t': 'empty_tensor'}]))
        bs.append({'t': rng.choice(['list', 'tensor32', 'tensor64']), 'idx': [rng.randrange(n) for _ in range(long)]})
        return bs
    bs.append(rng.choice([{'t': 'empty_list'}, {'t': 'slice00'}, {'t': 'empty_tensor'}]))
    k = rng.random()
    # (the index container - list / int64 tensor / int32 tensor / range / boolean mask - is part of "any batch")
    if k < 0.4:
        idx = list(range(n))
        rng.shuffle(idx)
        bs.append({'t': rng.choice(['list', 'list', 'tensor64', 'tensor32']), 'idx': idx})
    elif k < 0.7:
        bs.append({'t': rng.choice(['list', 'list', 'tensor64', 'tensor32']),
                   'idx': [rng.randrange(n) for _ in range(rng.randint(1, n + 2))]})
    elif k < 0.8:
        mask = [rng.random() < 0.5 for _ in range(n)]
        bs.append({'t': 'mask', 'mask': mask})
    else:
        a = rng.randint(0, n)
        bs.append({'t': 'slice', 'a': a, 'b': rng.randint(a, n + 1)})
    return bs


ABSENT_OK = {'numerical': ['linear', 'stack', 'periodic', 'excel', 'bucket', 'linmodel'], 'categorical': ['embedding', 'linmodel'],
             'multicategorical': ['bag', 'linmodel'], 'timestamp': ['timestamp', 'linmodel'], 'embedding': ['linemb', 'linmodel']}
ALL_CLASSES = ['linear', 'stack', 'bucket', 'periodic', 'excel', 'embedding', 'bag', 'timestamp', 'linemb', 'linmodel']
CHILD_STYPES = ['text_embedded', 'image_embedded']


def gen_extra_keys(rng, present):
    """family 6: keys of stype_encoder_dict for stypes the dataset has NO column of.  70%: admissible pairings only
    (must be accepted and change nothing); 30%: one of them is inadmissible - an encoder class that does not support
    the stype, or a child stype used as key - and construction must raise although the stype is absent"""
    absent = [s for s in STYPES if s not in present]
    if not absent:
        return [], False
    keys = []
    for s in rng.sample(absent, rng.randint(1, len(absent))):
        keys.append({'stype': s, 'cls': rng.choice(ABSENT_OK[s]), 'na': rng.choice(NA_FOR[s]), 'ok': True})
    bad = rng.random() < 0.3
    if bad:
        k = rng.choice(keys)
        if rng.random() < 0.25 and 'embedding' in absent:
            k.update(stype=rng.choice(CHILD_STYPES), cls=rng.choice(['linemb', 'linmodel']), na=None, ok=False)
        else:
            k.update(cls=rng.choice([c for c in ALL_CLASSES if c not in ABSENT_OK[k['stype']]]), na=None, ok=False)
    return keys, bad


def gen_names(rng, k, special):
    used = []
    pool = list(SPECIAL_NAMES)
    while len(used) < k:
        if special and pool and rng.random() < 0.7:
            name = pool.pop(rng.randrange(len(pool)))
        else:
            name = rng.choice('abcdefgh') + rng.choice('0123456789') + rng.choice(['', '_x', 'Z'])
            if k > 40:
                name += str(rng.randrange(1000))
        if name not in used:
            used.append(name)
    return used


def gen_case(rng, with_eval=False, force_num_cls=None, stress=None):
    """`stress` = None (the small default) or a dict of options drawn by the check:
    rows / ncols / ncat / width / cell / ch (sizes from the stress ladder), special (sentinel look-alike names and
    categories), edge / f64 (edge magnitudes, float64-only values), lm (probability of LinearModelEncoder per
    stype), extra (keys for absent stypes)"""
    stress = stress or {}
    n = stress.get('rows') or rng.choice([1, 2, 3, 4, 5, 6, 8, 12])
    present = [s for s in STYPES if rng.random() < 0.65]
    if force_num_cls and 'numerical' not in present:
        present.append('numerical')
    if not present:
        present = [rng.choice(STYPES)]
    if stress.get('extra') and len(present) == len(STYPES):
        present.remove(rng.choice([s for s in STYPES if not (force_num_cls and s == 'numerical')]))
    counts = {st: rng.choice([1, 1, 2, 3]) for st in present}
    wide = None
    if stress.get('ncols'):
        wide = rng.choice(present)
        counts[wide] = stress['ncols']
    if stress.get('lm'):
        for st in present:
            if st in LM_STYPES and counts[st] == 1 and rng.random() < 0.7:
                counts[st] = rng.choice([2, 3, 4])          # the column order needs >= 2 columns to be visible
    big = rng.choice(present) if (stress.get('ncat') or stress.get('width')) else None
    if stress.get('ncat'):
        big = rng.choice([s for s in present if s in ('categorical', 'multicategorical')] or [None])
        if big is None:
            big = rng.choice(['categorical', 'multicategorical'])
            present.append(big)
            counts[big] = rng.choice([1, 2])
    if stress.get('width'):
        if 'embedding' not in present:
            present.append('embedding')
            counts['embedding'] = rng.choice([1, 2])
        big = 'embedding'
    names = gen_names(rng, sum(counts.values()), stress.get('special'))
    cols = []
    for st in present:
        for j in range(counts[st]):
            opts = {'special': stress.get('special'), 'edge': stress.get('edge'),
                    'f64': stress.get('f64') and force_num_cls != 'bucket'}
            if st == big and j == 0:
                opts.update(ncat=stress.get('ncat'), width=stress.get('width'), cell=stress.get('cell'))
            cols.append(gen_column(rng, st, n, names.pop(), opts=opts))
    rng.shuffle(cols)                      # DataFrame column order is unrelated to the canonical order
    enc = {}
    for st in present:
        lm = st in LM_STYPES and rng.random() < stress.get('lm', 0.0) and not (force_num_cls and st == 'numerical')
        enc[st] = gen_encoder(rng, st, 'linmodel' if lm else (force_num_cls if st == 'numerical' else None))
    if any(isinstance(v, float) and v in F64_VALUES for c in cols if c['stype'] == 'numerical' for v in c['values']) \
            and enc.get('numerical', {}).get('cls') == 'bucket':
        for c in cols:                     # LinearBucketEncoder only runs in float32 (see partial_notes)
            if c['stype'] == 'numerical':
                c['values'] = [0.5 if isinstance(v, float) and v in F64_VALUES else v for v in c['values']]
    order = list(present)
    rng.shuffle(order)                     # insertion order of stype_encoder_dict
    case = {'kind': 'wise', 'nrows': n, 'cols': cols, 'enc': enc, 'enc_order': order,
            'ch': stress.get('ch') or rng.choice([1, 2, 3, 4]), 'pseed': rng.randrange(1 << 30),
            'batches': gen_batches(rng, n, stress.get('batch'))}
    if stress.get('extra'):
        keys, bad = gen_extra_keys(rng, present)
        if keys:
            case['extra_keys'] = keys
            for k in keys:                 # absent keys are interleaved with the present ones in the user's dict
                case['enc_order'].insert(rng.randint(0, len(case['enc_order'])), '+' + str(keys.index(k)))
    if stress.get('hist'):
        case['hist'] = stress['hist']
    if stress.get('block_dtype'):
        case['block_dtype'] = stress['block_dtype']
    if with_eval:
        m = rng.choice([1, 2, 3, 5])
        case['eval_nrows'] = m
        case['eval_cols'] = [gen_column(rng, c['stype'], m, c['name'], train=c,
                                        opts={'special': stress.get('special'), 'ncat': None}) for c in cols]
    return case


# --------------------------------------------------------------------------- real objects

def _val(v):
    if v == 'inf':
        return math.inf
    if v == '-inf':
        return -math.inf
    if v == 'nan':
        return math.nan
    return v


def make_df(cols, n):
    t = T()
    pd, np = t['pd'], t['np']
    data = {}
    for c in cols:
        st, vals = c['stype'], c['values']
        if st == 'numerical':
            data[c['name']] = pd.Series([np.nan if v is None else _val(v) for v in vals], dtype='float64')
        elif st == 'embedding':
            s = pd.Series([None] * n, dtype=object)
            for i, v in enumerate(vals):
                s.iloc[i] = [float(_val(x)) for x in v]
            data[c['name']] = s
        else:
            data[c['name']] = pd.Series(list(vals), dtype=object)
    return pd.DataFrame(data)


def make_dataset(case):
    t = T()
    st = t['stype']
    df = make_df(case['cols'], case['nrows'])
    col_to_stype = {c['name']: st(c['stype']) for c in case['cols']}
    ds = t['Dataset'](df, col_to_stype, col_to_sep=',', col_to_time_format=TIME_FMT).materialize()
    return ds


def na_of(name):
    return None if name is None else T()['NA'](name)


def make_post(p, ch):
    torch = T()['torch']
    if p['t'] == 'none':
        return None
    if p['t'] == 'relu':
        return torch.nn.ReLU()
    if p['t'] == 'tanh':
        return torch.nn.Tanh()
    return torch.nn.LayerNorm(ch)


_STUB = {}


def stub_class():
    """the stand-in for a user-supplied model of LinearModelEncoder: tanh(Linear(cell)), cell = the single-column
    TensorData the encoder hands over ([B, 1, d] tensor, or a one-column MultiEmbeddingTensor)"""
    if 'cls' not in _STUB:
        torch = T()['torch']

        class Stub(torch.nn.Module):
            def __init__(self, d, k):
                super().__init__()
                self.lin = torch.nn.Linear(d, k)

            def forward(self, x):
                if not isinstance(x, torch.Tensor):
                    x = x.values.unsqueeze(1)
                return torch.tanh(self.lin(x.to(self.lin.weight.dtype)))
        _STUB['cls'] = Stub
    return _STUB['cls']


def lm_config(e, stype_name, names, col_stats):
    """(ordered column names of the user's dict, {name: (d, k)}) for a LinearModelEncoder case"""
    import random
    r = random.Random(e['cfg_seed'])
    order = list(names)
    if e.get('cfg_order', 'shuffled') == 'shuffled':
        r.shuffle(order)
        if order == list(names) and len(order) > 1:
            order = order[1:] + order[:1]
    elif e.get('cfg_order') == 'reversed':
        order.reverse()
    Stat = T()['Stat']
    dims = {}
    for nm in sorted(names):
        d = {'numerical': 1, 'categorical': 1, 'timestamp': 7}.get(stype_name)
        if d is None:
            d = int(col_stats[nm][Stat.EMB_DIM]) if col_stats and nm in col_stats else 2
        dims[nm] = (d, r.choice([1, 2, 3]))
    return order, dims


def make_stype_encoder(e, ch, lazy=True, stats_list=None, stype=None, names=None, col_stats=None, stype_name=None):
    """the real StypeEncoder; lazy=True gives it only post module / NA strategy (as models do)"""
    E = T()['E']
    kw = dict(post_module=make_post(e['post'], ch), na_strategy=na_of(e['na']))
    if not lazy:
        kw.update(out_channels=ch, stats_list=stats_list, stype=stype)
    cls = e['cls']
    if cls == 'linmodel':
        from torch_frame.config import ModelConfig
        order, dims = lm_config(e, stype_name, names or ['c'], col_stats)
        Stub = stub_class()
        cfg = {nm: ModelConfig(model=Stub(*dims[nm]), out_channels=dims[nm][1]) for nm in order}
        return E.LinearModelEncoder(col_to_model_cfg=cfg, **kw)
    if cls == 'linear':
        return E.LinearEncoder(**kw)
    if cls == 'stack':
        return E.StackEncoder(**kw)
    if cls == 'bucket':
        return E.LinearBucketEncoder(**kw)
    if cls == 'periodic':
        return E.LinearPeriodicEncoder(n_bins=e['n_bins'], **kw)
    if cls == 'excel':
        return E.ExcelFormerEncoder(**kw)
    if cls == 'embedding':
        return E.EmbeddingEncoder(**kw)
    if cls == 'bag':
        return E.MultiCategoricalEmbeddingEncoder(mode=e['mode'], **kw)
    if cls == 'timestamp':
        return E.TimestampEncoder(out_size=e['out_size'], **kw)
    if cls == 'linemb':
        return E.LinearEmbeddingEncoder(**kw)
    raise ValueError(cls)


def randomize(module, e, gen):
    """re-draw every parameter; Embedding padding rows stay zero (hypothesis of missing_is_zero)"""
    torch = T()['torch']
    with torch.no_grad():
        for name, p in module.named_parameters():
            if name == 'emb.weight':
                p[1:] = torch.randn(p[1:].shape, generator=gen, dtype=p.dtype)
            elif name.startswith('embs.'):
                if e.get('rand_padding_row'):
                    p[:] = torch.randn(p.shape, generator=gen, dtype=p.dtype)   # the padding row is never read
                else:
                    p[1:] = torch.randn(p[1:].shape, generator=gen, dtype=p.dtype)
            elif name.startswith('post_module') and name.endswith('weight'):
                p[:] = 1.0 + 0.5 * torch.randn(p.shape, generator=gen, dtype=p.dtype)
            else:
                p[:] = torch.randn(p.shape, generator=gen, dtype=p.dtype)


def is_f32(e):
    return e['cls'] == 'bucket'


def build_wise(case, ds, tf):
    """the StypeWiseFeatureEncoder of the case on the materialized frame (eval mode, parameters re-drawn)"""
    t = T()
    torch, st = t['torch'], t['stype']
    enc_dict = {}
    for s in case['enc_order']:
        if s.startswith('+'):              # a key for a stype the dataset has no column of
            k = case['extra_keys'][int(s[1:])]
            enc_dict[st(k['stype'])] = make_stype_encoder({'cls': k['cls'], 'na': k['na'], 'post': {'t': 'none'},
                                                           'n_bins': 2, 'mode': 'mean', 'out_size': 2, 'cfg_seed': 1},
                                                          case['ch'], stype_name=k['stype'])
        else:
            enc_dict[st(s)] = make_stype_encoder(case['enc'][s], case['ch'], names=tf.col_names_dict.get(st(s)),
                                                 col_stats=ds.col_stats, stype_name=s)
    wise = t['E'].StypeWiseFeatureEncoder(case['ch'], ds.col_stats, tf.col_names_dict, enc_dict)
    gen = torch.Generator().manual_seed(case['pseed'])
    for s in STYPES:
        if s in case['enc']:
            m = wise.encoder_dict[s]
            randomize(m, case['enc'][s], gen)
            if is_f32(case['enc'][s]):
                m.float()
    return wise.eval()


def build(case):
    """dataset, frame, StypeWiseFeatureEncoder (eval mode, parameters re-drawn, the case's history applied)"""
    ds = make_dataset(case)
    tf = ds.tensor_frame
    wise = build_wise(case, ds, tf)
    tf = adapt_frame(case, tf)
    apply_history(case, tf, wise)
    return ds, tf, wise


def apply_history(case, tf, wise):
    """family 5: earlier calls on the same encoder object before the measured ones"""
    torch = T()['torch']
    for h in case.get('hist', []):
        with torch.no_grad():
            if h == 'fwd':
                wise(tf)
            elif h == 'fwd_row':
                wise(tf[[0]])
            elif h == 'fwd_empty':
                wise(tf[[]])
            elif h == 'train_fwd':
                wise.train()
                wise(tf)
                wise.eval()
            elif h == 'train_eval':
                wise.train()
                wise.eval()
            elif h == 'reset':             # reset_parameters(), then the same parameter draw again
                wise.reset_parameters()            # (a no-op in FeatureEncoder) ...
                for m in wise.encoder_dict.values():
                    m.reset_parameters()           # ... so every stype encoder is reset as well
                gen = torch.Generator().manual_seed(case['pseed'])
                for s in STYPES:
                    if s in case['enc']:
                        randomize(wise.encoder_dict[s], case['enc'][s], gen)
            else:
                raise ValueError(h)


def adapt_frame(case, tf):
    """LinearBucketEncoder only runs in float32: hand it the (float32-exact) numerical block as float32"""
    e = case['enc'].get('numerical')
    st = T()['stype']
    torch = T()['torch']
    if e and is_f32(e):
        fd = dict(tf.feat_dict)
        fd[st.numerical] = fd[st.numerical].float()
        tf = T()['tf'].TensorFrame(fd, tf.col_names_dict, tf.y)
    for s, dt in (case.get('block_dtype') or {}).items():
        # family 3: the same values in another legal dtype (float32 numbers / int32 indices and calendar values)
        if st(s) in tf.feat_dict and isinstance(tf.feat_dict[st(s)], torch.Tensor):
            fd = dict(tf.feat_dict)
            fd[st(s)] = fd[st(s)].to({'f32': torch.float32, 'i32': torch.int32}[dt])
            tf = T()['tf'].TensorFrame(fd, tf.col_names_dict, tf.y)
    return tf


def eval_frame(case, ds):
    df = make_df(case['eval_cols'], case['eval_nrows'])
    return adapt_frame(case, ds.convert_to_tensor_frame(df))


def select(tf, b):
    torch = T()['torch']
    k = b['t']
    if k == 'whole':
        return tf
    if k == 'row':
        return tf[b['i']]
    if k == 'list':
        return tf[list(b['idx'])]
    if k == 'tensor64':
        return tf[torch.tensor(b['idx'], dtype=torch.long)]
    if k == 'tensor32':
        return tf[torch.tensor(b['idx'], dtype=torch.int32)]
    if k == 'mask':
        return tf[torch.tensor(b['mask'], dtype=torch.bool)]
    if k == 'empty_list':
        return tf[[]]
    if k == 'slice00':
        return tf[0:0]
    if k == 'empty_tensor':
        return tf[torch.tensor([], dtype=torch.long)]
    if k == 'slice':
        return tf[b['a']:b['b']]
    raise ValueError(k)


def batch_rows(b, n):
    k = b['t']
    if k == 'whole':
        return list(range(n))
    if k == 'row':
        return [b['i']]
    if k in ('list', 'tensor64', 'tensor32'):
        return list(b['idx'])
    if k == 'mask':
        return [i for i, v in enumerate(b['mask']) if v]
    if k == 'slice':
        return list(range(n))[b['a']:b['b']]
    return []


# --------------------------------------------------------------------------- export for the model

def fb(x):
    return core.float_bits(float(x))


def bits_nested(x):
    if isinstance(x, (list, tuple)):
        return [bits_nested(v) for v in x]
    return fb(x)


def tol(t):
    return t.detach().double().tolist()


def stats_json(ds, tf, s, f32=False):
    t = T()
    Stat, np = t['Stat'], t['np']
    out = []
    r32 = (lambda v: float(np.float32(v))) if f32 else float
    for name in tf.col_names_dict[t['stype'](s)]:
        st = ds.col_stats[name]
        if s == 'numerical':
            out.append({'t': 'num', 'mean': fb(r32(st[Stat.MEAN])), 'std': fb(r32(st[Stat.STD])),
                        'q': [fb(r32(q)) for q in st[Stat.QUANTILES]]})
        elif s == 'categorical':
            out.append({'t': 'cat', 'n': len(st[Stat.COUNT][0])})
        elif s == 'multicategorical':
            out.append({'t': 'multi', 'n': len(st[Stat.MULTI_COUNT][0])})
        elif s == 'timestamp':
            out.append({'t': 'time', 'minYear': int(st[Stat.YEAR_RANGE][0]),
                        'newest': [int(v) for v in st[Stat.NEWEST_TIME]],
                        'oldest': [int(v) for v in st[Stat.OLDEST_TIME]],
                        'median': [int(v) for v in st[Stat.MEDIAN_TIME]]})
        else:
            out.append({'t': 'emb', 'dim': int(st[Stat.EMB_DIM])})
    return out


def weights_json(m, e):
    sd = {k: v for k, v in m.state_dict().items()}
    cls = e['cls']
    if cls == 'linear':
        return {'cls': 'linear', 'weight': bits_nested(tol(sd['weight'])), 'bias': bits_nested(tol(sd['bias']))}
    if cls == 'stack':
        return {'cls': 'stack'}
    if cls == 'bucket':
        return {'cls': 'bucket', 'weight': bits_nested(tol(sd['weight'])), 'bias': bits_nested(tol(sd['bias']))}
    if cls == 'periodic':
        return {'cls': 'periodic', 'linIn': bits_nested(tol(sd['linear_in'])), 'linOut': bits_nested(tol(sd['linear_out']))}
    if cls == 'excel':
        return {'cls': 'excel', 'w1': bits_nested(tol(sd['W_1'])), 'w2': bits_nested(tol(sd['W_2'])),
                'b1': bits_nested(tol(sd['b_1'])), 'b2': bits_nested(tol(sd['b_2']))}
    if cls == 'embedding':
        return {'cls': 'embedding', 'table': bits_nested(tol(sd['emb.weight']))}
    if cls == 'bag':
        n = len(m.embs)
        return {'cls': 'bag', 'mode': e['mode'], 'tables': [bits_nested(tol(sd[f'embs.{i}.weight'])) for i in range(n)]}
    if cls == 'timestamp':
        return {'cls': 'timestamp', 'outSize': e['out_size'], 'weight': bits_nested(tol(sd['weight'])),
                'bias': bits_nested(tol(sd['bias']))}
    if cls == 'linemb':
        n = len(m.weight_list)
        return {'cls': 'linemb', 'weights': [bits_nested(tol(sd[f'weight_list.{i}'])) for i in range(n)],
                'biases': bits_nested(tol(sd['biases']))}
    if cls == 'linmodel':
        # the dict entries in the insertion order of the user's col_to_model_cfg (= ModuleDict order)
        return {'cls': 'linmodel', 'cols': [
            {'name': nm, 'a': bits_nested(tol(mod.lin.weight.t())), 'c': bits_nested(tol(mod.lin.bias)),
             'weight': bits_nested(tol(m.weight_dict[nm])), 'bias': bits_nested(tol(m.bias_dict[nm]))}
            for nm, mod in m.model_dict.items()]}
    raise ValueError(cls)


def post_json(m, e):
    p = e['post']
    if p['t'] != 'ln':
        return {'t': p['t']}
    return {'t': 'ln', 'g': bits_nested(tol(m.post_module.weight)), 'b': bits_nested(tol(m.post_module.bias))}


def enc_json(ds, tf, wise, case, s):
    e = case['enc'][s]
    m = wise.encoder_dict[s]
    return {'stype': s, 'na': e['na'], 'ch': case['ch'], 'stats': stats_json(ds, tf, s, f32=is_f32(e)),
            'weights': weights_json(m, e), 'post': post_json(m, e)}


def mnt_cells(m):
    """cells of a MultiNestedTensor read directly off its storage (values/offset), no library call"""
    vals, off = m.values.tolist(), m.offset.tolist()
    R, C = m.num_rows, m.num_cols
    return [[vals[off[r * C + c]:off[r * C + c + 1]] for c in range(C)] for r in range(R)]


def feat_json(tf, s):
    """(rows, cols, feat) of one stype block"""
    t = T()
    feat = tf.feat_dict[t['stype'](s)]
    if s == 'numerical':
        return feat.shape[0], feat.shape[1], {'t': 'num', 'x': bits_nested(tol(feat))}
    if s == 'categorical':
        return feat.shape[0], feat.shape[1], {'t': 'cat', 'x': feat.tolist()}
    if s == 'timestamp':
        return feat.shape[0], feat.shape[1], {'t': 'time', 'x': feat.tolist()}
    if s == 'multicategorical':
        return feat.num_rows, feat.num_cols, {'t': 'bags', 'x': mnt_cells(feat)}
    return feat.num_rows, feat.num_cols, {'t': 'emb', 'offset': feat.offset.tolist(),
                                          'values': bits_nested(tol(feat.values))}


def canonical_stypes(tf):
    return [s.value for s in tf.stypes]


def buffers_real(m, e):
    """the registered buffers of the real encoder, canonicalised like the driver's `buffers`"""
    sd = m.state_dict()
    out = {}
    fv = sd.get('fill_values')
    if fv is None:
        out['fill_values'] = None
    elif fv.dim() == 2:
        out['fill_values'] = {'time': fv.tolist()}
    elif fv.is_floating_point():
        out['fill_values'] = {'num': tol(fv)}
    else:
        out['fill_values'] = {'int': fv.tolist()}
    for k in ('mean', 'std'):
        if k in sd:
            out[k] = tol(sd[k])
    if 'boundaries' in sd:
        out['boundaries'] = tol(sd['boundaries'])
    if 'offset' in sd:
        out['offset'] = sd['offset'].tolist()
    if 'min_year' in sd:
        out['min_year'] = sd['min_year'].tolist()
        out['max_values'] = sd['max_values'].tolist()
    if hasattr(m, 'emb_dim_list'):
        out['emb_dim_list'] = [int(d) for d in m.emb_dim_list]
    return out


def buffers_model(b, e, s=None):
    """driver `buffers` -> the same canonical form (floats decoded)"""
    out = {}
    fv = b.get('fill_values')
    if fv is None:
        out['fill_values'] = None
    elif 'num' in fv:
        out['fill_values'] = {'num': [core.bits_float(x) for x in fv['num']]}
        if (e['cls'] in NUM_CLASSES or (e['cls'] == 'linmodel' and s == 'numerical')) and e['na'] == 'zeros':
            out['fill_values'] = {'int': [0 for _ in fv['num']]}     # torch.tensor([0, 0, ...]) is an int tensor
    else:
        out['fill_values'] = fv
    for k in ('mean', 'std'):
        if k in b:
            out[k] = [core.bits_float(x) for x in b[k]]
    if 'boundaries' in b:
        out['boundaries'] = [[core.bits_float(x) for x in r] for r in b['boundaries']]
    for k in ('offset', 'min_year', 'max_values', 'emb_dim_list'):
        if k in b:
            out[k] = b[k]
    return out


def decode(x):
    if isinstance(x, list):
        return [decode(v) for v in x]
    return core.bits_float(x)


# --------------------------------------------------------------------------- tolerances

def group_tolerance(m, e, mid=None):
    """absolute tolerance per (column, channel) on top of REL64*|x| + ABS64; `mid` = the model's [B][C][K]
    intermediate for the float32 bucket contraction (then the result is per (row, column, channel))"""
    torch = T()['torch']
    cls = e['cls']
    if cls == 'timestamp':
        w = m.weight.detach().double().abs().sum(dim=(1, 2))          # [C, ch]
        s = w + m.bias.detach().double().abs()
        return ('cc', (TS_ERR * s + 1e-7).tolist())
    if cls == 'bucket':
        w = m.weight.detach().double().abs()                          # [C, K, ch]
        midt = torch.tensor(mid, dtype=torch.float64).abs() if mid else torch.zeros(0, w.shape[0], w.shape[1])
        midt = torch.nan_to_num(midt, nan=0.0, posinf=1e300, neginf=1e300)
        s = torch.einsum('ijk,jkl->ijl', midt, w) + m.bias.detach().double().abs()[None]
        return ('rcc', (F32_ERR * s + 1e-6).tolist())
    return ('none', None)


def close(a, b, extra=0.0):
    if math.isnan(a) or math.isnan(b):
        return math.isnan(a) and math.isnan(b)
    if math.isinf(a) or math.isinf(b):
        return a == b
    if abs(a) >= 3.0e38 and abs(b) >= 3.0e38 and (a > 0) == (b > 0):
        return True     # nan_to_num clamps +-inf to the largest finite value of the dtype (float32 vs float64 run)
    return abs(a - b) <= REL64 * max(abs(a), abs(b)) + ABS64 + extra


def close_nested(a, b, extra=None):
    """a, b nested lists of floats with equal structure; extra mirrors the structure from some depth or is None"""
    if isinstance(a, list) != isinstance(b, list):
        return False
    if isinstance(a, list):
        if len(a) != len(b):
            return False
        for i, (x, y) in enumerate(zip(a, b)):
            ex = extra[i] if isinstance(extra, list) else extra
            if not close_nested(x, y, ex):
                return False
        return True
    return close(a, b, extra or 0.0)

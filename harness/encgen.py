"""Generators, real-code runners and canonicalisers for the encoder checks (C12, C13).

A *case* is a JSON-able dict describing
  * a small table (five stypes: numerical, categorical, multicategorical, timestamp, embedding;
    every column has at least one non-missing finite value) that is turned into a pandas DataFrame,
    wrapped in a torch_frame Dataset and materialized (float64 default dtype, this process only),
  * an optional second "evaluation" table with the same schema (values outside the training range,
    unseen categories, later years) that goes through the dataset's own converter,
  * one admissible encoder / NA strategy / post module per stype, the channel count,
  * a seed for re-drawing every parameter (padding rows of `Embedding` are kept at zero, which is the
    hypothesis `table[0] = 0` of the zero-embedding theorem and is re-checked on every export),
  * batch selections.
Everything random comes from the `rng` handed in by the check engine.
"""
from __future__ import annotations

import copy
import math
import warnings

from harness import core

warnings.filterwarnings('ignore')

TIME_FMT = '%Y-%m-%d %H:%M:%S'
STYPES = ['numerical', 'categorical', 'multicategorical', 'timestamp', 'embedding']
NUM_CLASSES = ['linear', 'stack', 'bucket', 'periodic', 'excel']
NA_FOR = {
    'numerical': [None, 'mean', 'zeros'],
    'categorical': [None, 'most_frequent'],
    'multicategorical': [None, 'zeros'],
    'timestamp': [None, 'median_timestamp', 'oldest_timestamp', 'newest_timestamp'],
    'embedding': [None],
}
# tolerances: float64 everywhere, except where the CODE forces float32
#   * TimestampEncoder casts to float32 before the cyclic encoding   (feat.to(torch.float32))
#   * LinearBucketEncoder builds its mask with `.float()` and can therefore only run in float32 at all
REL64, ABS64 = 1e-9, 1e-12
TS_ERR = 4e-6        # per unit of sum|weight|: float32 argument of sin/cos up to 8*pi
F32_ERR = 4e-6       # per unit of sum|term| of a float32 contraction

_T = {}


def T():
    """lazy import of torch / torch_frame (after core.ensure_repo_import)"""
    if not _T:
        core.ensure_repo_import()
        import numpy as np
        import pandas as pd
        import torch
        import torch_frame
        from torch_frame import NAStrategy, stype
        from torch_frame.data import Dataset
        from torch_frame.data.stats import StatType
        from torch_frame.nn import encoder as E
        import functools
        import tqdm
        from torch_frame.data import mapper as _mapper       # (mini-batch loops of the embedders: stderr noise only)
        if getattr(_mapper.tqdm, 'func', None) is not tqdm.tqdm:
            _mapper.tqdm = functools.partial(tqdm.tqdm, disable=True)
        torch.set_default_dtype(torch.float64)
        _T.update(np=np, pd=pd, torch=torch, tf=torch_frame, NA=NAStrategy, stype=stype, Dataset=Dataset,
                  Stat=StatType, E=E)
    return _T


# --------------------------------------------------------------------------- generation

def _f32(rng):
    """float32-exact numbers: eighths, a few large / tiny magnitudes"""
    k = rng.random()
    if k < 0.8:
        return rng.randint(-64, 64) / 8.0
    if k < 0.9:
        return float(rng.randint(-4000, 4000))
    return rng.randint(-32, 32) / 1024.0


# sentinel look-alikes and awkward spellings as category / token names (family 2)
SPECIAL_CATS = ['-1', 'nan', 'None', '<NA>', '0', ' ', 'A', 'a', 'sports', 'sportswear', 'a\x00', 'É', 'é']
SPECIAL_TOKENS = ['-1', 'nan', 'None', '0', 'A', 'a', 'sports', 'sportswear', 'É']
# column names: mixed case, one name a prefix / substring of another, sentinel look-alikes
SPECIAL_NAMES = ['w', 'W', 'Zeta', 'alpha', 'label', 'label_prev', 'sports', 'sportswear', '-1', 'nan', 'None', '0',
                 'a b', 'é', 'Z', 'z_', '_z']
# float64-only payloads of moderate magnitude (the frame is float64 in this process)
F64_VALUES = [0.1, 1.0 / 3.0, 2.0 ** 24 + 1, 1700000001.0, -0.7, 1e-9]
EDGE_VALUES = [-1.0, 0.5, 0.0, -0.0, 2.0 ** 24, -2.0 ** 31, 1e-38]


def gen_column(rng, st, n, name, allow_missing=True, train=None, opts=None):
    """values of one column; `train` = the training column when generating the evaluation table; `opts` = the
    stress options of the case (`ncat` = size of the category vocabulary, `width` = embedding width, `f64` =
    float64-only values allowed, `special` = sentinel look-alike category names)"""
    opts = opts or {}
    miss = rng.choice([0.0, 0.2, 0.5]) if allow_missing else 0.0
    col = {'name': name, 'stype': st}
    if st == 'numerical':
        const = rng.random() < 0.12
        c = _f32(rng)
        vals = [None if rng.random() < miss else (c if const else _f32(rng)) for _ in range(n)]
        if train is None and opts.get('edge') and not const:
            pool = EDGE_VALUES + (F64_VALUES if opts.get('f64') else [])
            for _ in range(rng.randint(1, 3)):
                vals[rng.randrange(n)] = rng.choice(pool)
        if train is None and rng.random() < 0.06:
            vals[rng.randrange(n)] = rng.choice(['inf', '-inf'])
        if all(v is None or isinstance(v, str) for v in vals):
            vals[rng.randrange(n)] = _f32(rng)
    elif st == 'categorical':
        alphabet = rng.choice([['a'], ['a', 'b'], ['a', 'b', 'c', 'd'], ['x', 'y', 'z', 'w', 'v', 'u']])
        if opts.get('special') and train is None:
            alphabet = rng.sample(SPECIAL_CATS, rng.randint(2, 6))
        if opts.get('ncat') and train is None:
            alphabet = [f'k{i}' for i in range(opts['ncat'])]
        if train is not None:
            alphabet = sorted({v for v in train['values'] if v is not None}) + ['UNSEEN1', 'UNSEEN2']
        vals = [None if rng.random() < miss else rng.choice(alphabet) for _ in range(n)]
        if opts.get('ncat') and train is None and n >= len(alphabet):
            pos = rng.sample(range(n), len(alphabet))          # every category of the large vocabulary occurs
            for q, a in zip(pos, alphabet):
                vals[q] = a
        if all(v is None for v in vals):
            vals[rng.randrange(n)] = alphabet[0]
    elif st == 'multicategorical':
        alphabet = rng.choice([['p'], ['p', 'q'], ['p', 'q', 'r', 's']])
        if opts.get('special') and train is None:
            alphabet = rng.sample(SPECIAL_TOKENS, rng.randint(2, 5))
        if opts.get('ncat') and train is None:
            alphabet = [f't{i}' for i in range(opts['ncat'])]
        if train is not None:
            if opts.get('special') or opts.get('ncat'):
                alphabet = sorted({t for v in train['values'] if v for t in v.split(',')} or {'p'})
            alphabet = alphabet + ['UNSEEN']
        vals = []
        for _ in range(n):
            if rng.random() < miss:
                vals.append(None)
            else:
                k = rng.randint(0, len(alphabet)) if len(alphabet) <= 8 else rng.choice([0, 1, 2, 5, opts.get('cell', 5)])
                vals.append(','.join(rng.sample(alphabet, min(k, len(alphabet)))))
        if opts.get('ncat') and train is None:
            vals[rng.randrange(n)] = ','.join(alphabet)        # one long cell holding the whole vocabulary
        if all(v is None for v in vals):
            vals[rng.randrange(n)] = alphabet[0]
    elif st == 'timestamp':
        lo, hi = rng.choice([(1990, 2030), (1700, 2200), (2020, 2020)])
        if train is not None:
            years = [int(v[:4]) for v in train['values'] if v is not None]
            # later years are inside the encoder's domain, earlier ones are not (logged, not alarmed)
            lo, hi = (min(years), 2250) if rng.random() < 0.85 else (min(years) - 30, max(years))
        vals = []
        for _ in range(n):
            if rng.random() < miss:
                vals.append(None)
            else:
                mo = rng.randint(1, 12)
                d = rng.randint(1, 28) if rng.random() < 0.8 else rng.choice([28, 30, 31][:1 if mo == 2 else 3 if mo in (1, 3, 5, 7, 8, 10, 12) else 2])
                h, mi, s = (rng.choice([0, 23]), rng.choice([0, 59]), rng.choice([0, 59])) if rng.random() < 0.3 else (
                    rng.randint(0, 23), rng.randint(0, 59), rng.randint(0, 59))
                vals.append('%04d-%02d-%02d %02d:%02d:%02d' % (rng.randint(lo, hi), mo, d, h, mi, s))
        if all(v is None for v in vals):
            vals[rng.randrange(n)] = '%04d-06-15 12:30:45' % lo
    else:  # embedding
        w = (opts.get('width') or rng.randint(1, 4)) if train is None else len(train['values'][0])
        vals = []
        for _ in range(n):
            v = [_f32(rng) for _ in range(w)]
            if rng.random() < miss * 0.5:
                v[rng.randrange(w)] = 'nan'
            vals.append(v)
        if all(any(x == 'nan' for x in v) for v in vals):
            vals[0] = [_f32(rng) for _ in range(w)]
    col['values'] = vals
    return col


TEXT_WORDS = ['red', 'Red', 'blue shoe', 'img/001.png', 'img/002.png', '', 'None', 'nan', '-1', 'a,b', 'sports', 'sportswear',
              'a longer sentence with several words', 'é']


def stub_vec(w, salt, s):
    """the deterministic stand-in for a text / image embedding model: float32-exact eighths, a function of the raw cell"""
    pos = sum((i + 1) * ord(c) for i, c in enumerate(s))
    return [((len(s) * 31 + (j + 1) * pos + 7 * j + salt) % 251 - 125) / 8.0 for j in range(w)]


class StubEmbedder:
    """callable handed to TextEmbedderConfig / ImageEmbedderConfig (no model, no file access)"""

    def __init__(self, w, salt):
        self.w, self.salt = w, salt

    def __call__(self, xs):
        torch = T()['torch']
        return torch.tensor([stub_vec(self.w, self.salt, str(x)) for x in xs], dtype=torch.get_default_dtype()).reshape(len(xs), self.w)


def gen_child_column(rng, via, n, name, w=None, train=None):
    """a text_embedded / image_embedded column (`via` = 'text' | 'image'): raw strings, embedded by a stub embedder of
    width `w`; the materialized frame carries it BEHIND the plain embedding columns of the parent stype `embedding`"""
    if train is not None:
        w, salt = train['w'], train['salt']
    else:
        w, salt = w or rng.randint(1, 5), rng.randrange(97)
    vals = []
    for _ in range(n):
        k = rng.random()
        vals.append(None if k < 0.1 else rng.choice(TEXT_WORDS) if k < 0.6 else rng.choice(TEXT_WORDS) + str(rng.randrange(30)))
    return {'name': name, 'stype': 'embedding', 'via': via, 'w': w, 'salt': salt, 'values': vals}


EMPTY_PATTERNS = ['first', 'middle', 'last', 'last2', 'first+last', 'all-but-one', 'all']


def apply_empty_pattern(col, pat, rng):
    """family: ragged cells that are EMPTY (the empty list, as opposed to the missing marker) in the first / middle /
    last rows of the frame or in (nearly) all rows; the other rows keep their cells, the row before an empty one is made
    non-empty where possible (so that a neighbour has items to lose)"""
    vals = col['values']
    n = len(vals)
    toks = sorted({t for v in vals if v for t in v.split(',')}) or ['p']
    rows = {'first': [0], 'middle': [n // 2], 'last': [n - 1], 'last2': [n - 2, n - 1], 'first+last': [0, n - 1],
            'all-but-one': [i for i in range(n) if i != n // 2], 'all': list(range(n))}[pat]
    rows = sorted({r for r in rows if 0 <= r < n})
    for r in range(n):
        if r in rows:
            vals[r] = ''
        elif not vals[r] and (r + 1 in rows or pat == 'all-but-one'):
            vals[r] = ','.join(rng.sample(toks, min(len(toks), rng.randint(1, 3))))
    return col


def gen_post(rng, allow_ln=True):
    r = rng.random()
    if r < 0.45:
        return {'t': 'none'}
    if r < 0.65:
        return {'t': 'relu'}
    if r < 0.8 or not allow_ln:
        return {'t': 'tanh'}
    return {'t': 'ln'}


LM_STYPES = ['numerical', 'categorical', 'timestamp', 'embedding']


def gen_encoder(rng, st, force_cls=None):
    na = rng.choice(NA_FOR[st])
    if force_cls == 'linmodel':
        # LinearModelEncoder with one stub user model per column; `cfg_seed` fixes the insertion order of the
        # user's col_to_model_cfg dict (unrelated to the frame's column order) and the models' output widths
        return {'cls': 'linmodel', 'na': na, 'post': gen_post(rng), 'cfg_seed': rng.randrange(1 << 30),
                'cfg_order': rng.choice(['shuffled', 'shuffled', 'reversed', 'frame'])}
    if st == 'numerical':
        cls = force_cls or rng.choice(NUM_CLASSES)
        e = {'cls': cls, 'na': na, 'post': gen_post(rng, allow_ln=cls != 'bucket')}
        if cls == 'periodic':
            e['n_bins'] = rng.choice([1, 2, 3, 16])
    elif st == 'categorical':
        e = {'cls': 'embedding', 'na': na, 'post': gen_post(rng)}
    elif st == 'multicategorical':
        e = {'cls': 'bag', 'na': na, 'post': gen_post(rng), 'mode': rng.choice(['mean', 'sum', 'max']),
             'rand_padding_row': rng.random() < 0.5}
    elif st == 'timestamp':
        e = {'cls': 'timestamp', 'na': na, 'post': gen_post(rng, allow_ln=False), 'out_size': rng.choice([2, 4, 8])}
    else:
        e = {'cls': 'linemb', 'na': None, 'post': gen_post(rng)}
    return e


def gen_batches(rng, n, long=None):
    bs = [{'t': 'whole'}, {'t': 'row', 'i': rng.randrange(n)}]
    if long:                               # a long multiset of the frame's rows (batch-size scale)
        bs.append(rng.choice([{'t': 'empty_list'}, {'t': 'slice00'}, {'t': 'empty_tensor'}]))
        bs.append({'t': rng.choice(['list', 'tensor32', 'tensor64']), 'idx': [rng.randrange(n) for _ in range(long)]})
        return bs
    bs.append(rng.choice([{'t': 'empty_list'}, {'t': 'slice00'}, {'t': 'empty_tensor'}]))
    k = rng.random()
    # (the index container - list / int64 tensor / int32 tensor / range / boolean mask - is part of "any batch")
    if k < 0.4:
        idx = list(range(n))
        rng.shuffle(idx)
        bs.append({'t': rng.choice(['list', 'list', 'tensor64', 'tensor32']), 'idx': idx})
    elif k < 0.7:
        bs.append({'t': rng.choice(['list', 'list', 'tensor64', 'tensor32']),
                   'idx': [rng.randrange(n) for _ in range(rng.randint(1, n + 2))]})
    elif k < 0.8:
        mask = [rng.random() < 0.5 for _ in range(n)]
        bs.append({'t': 'mask', 'mask': mask})
    else:
        a = rng.randint(0, n)
        bs.append({'t': 'slice', 'a': a, 'b': rng.randint(a, n + 1)})
    return bs


ABSENT_OK = {'numerical': ['linear', 'stack', 'periodic', 'excel', 'bucket', 'linmodel'], 'categorical': ['embedding', 'linmodel'],
             'multicategorical': ['bag', 'linmodel'], 'timestamp': ['timestamp', 'linmodel'], 'embedding': ['linemb', 'linmodel']}
ALL_CLASSES = ['linear', 'stack', 'bucket', 'periodic', 'excel', 'embedding', 'bag', 'timestamp', 'linemb', 'linmodel']
CHILD_STYPES = ['text_embedded', 'image_embedded']


def gen_extra_keys(rng, present):
    """family 6: keys of stype_encoder_dict for stypes the dataset has NO column of.  70%: admissible pairings only
    (must be accepted and change nothing); 30%: one of them is inadmissible - an encoder class that does not support
    the stype, or a child stype used as key - and construction must raise although the stype is absent"""
    absent = [s for s in STYPES if s not in present]
    if not absent:
        return [], False
    keys = []
    for s in rng.sample(absent, rng.randint(1, len(absent))):
        keys.append({'stype': s, 'cls': rng.choice(ABSENT_OK[s]), 'na': rng.choice(NA_FOR[s]), 'ok': True})
    bad = rng.random() < 0.3
    if bad:
        k = rng.choice(keys)
        if rng.random() < 0.25 and 'embedding' in absent:
            k.update(stype=rng.choice(CHILD_STYPES), cls=rng.choice(['linemb', 'linmodel']), na=None, ok=False)
        else:
            k.update(cls=rng.choice([c for c in ALL_CLASSES if c not in ABSENT_OK[k['stype']]]), na=None, ok=False)
    return keys, bad


def gen_names(rng, k, special):
    used = []
    pool = list(SPECIAL_NAMES)
    while len(used) < k:
        if special and pool and rng.random() < 0.7:
            name = pool.pop(rng.randrange(len(pool)))
        else:
            name = rng.choice('abcdefgh') + rng.choice('0123456789') + rng.choice(['', '_x', 'Z'])
            if k > 40:
                name += str(rng.randrange(1000))
        if name not in used:
            used.append(name)
    return used


def gen_target(rng, n, name, kind):
    """target column of the transform layouts: regression floats (rarely with a missing value), binary or multiclass
    integer labels (every class occurs when the table is long enough)"""
    if kind == 'reg':
        vals = [_f32(rng) for _ in range(n)]
        if n > 2 and rng.random() < 0.2:
            vals[rng.randrange(n)] = None
        if len({v for v in vals if v is not None}) < 2 and n >= 2:
            vals[0], vals[1] = 0.5, -1.25
    else:
        k = 2 if kind == 'bin' else rng.choice([3, 4])
        vals = [rng.randrange(k) for _ in range(n)]
        for q, pos in enumerate(rng.sample(range(n), min(k, n))):
            vals[pos] = q
    return {'name': name, 'kind': kind, 'values': vals}


def empty_batches(rng, cols, n):
    """batches in which the rows whose ragged cells are all empty come first / in the middle / last / alone"""
    mc = [c for c in cols if c['stype'] == 'multicategorical']
    if not mc or n < 2:
        return []
    E = [r for r in range(n) if all(c['values'][r] == '' for c in mc)]
    N = [r for r in range(n) if r not in E]
    if not E:
        return []
    rng.shuffle(N)
    h = len(N) // 2
    forms = [N + E, E + N, N[:h] + E + N[h:], E, N + E + E, N + E[-1:]]
    out = []
    for idx in rng.sample(forms, 2):
        if idx:
            out.append({'t': rng.choice(['list', 'tensor64', 'tensor32']), 'idx': idx})
    return out


def gen_case(rng, with_eval=False, force_num_cls=None, stress=None):
    """`stress` = None (the small default) or a dict of options drawn by the check:
    rows / ncols / ncat / width / cell / ch (sizes from the stress ladder), special (sentinel look-alike names and
    categories), edge / f64 (edge magnitudes, float64-only values), lm (probability of LinearModelEncoder per
    stype), extra (keys for absent stypes), children (text_embedded / image_embedded columns with stub embedders merged
    behind the plain embedding columns), layout (the frame handed to the encoder is produced by a transform:
    'permuted' column lists, 'cat_to_num', 'mi_sort'), empty (pattern of EMPTY ragged cells), single (one stype only),
    mutate (the caller edits returned values in place between calls)"""
    stress = stress or {}
    n = stress.get('rows') or rng.choice([1, 2, 3, 4, 5, 6, 8, 12])
    layout = stress.get('layout')
    if stress.get('empty') and not stress.get('rows') and n < 3:
        n = rng.choice([3, 4, 5, 6, 8])
    if layout in ('cat_to_num', 'mi_sort') and not stress.get('rows') and n < 3:
        n = rng.choice([3, 4, 5, 6, 8, 12])
    present = [s for s in STYPES if rng.random() < 0.65]
    if stress.get('single'):
        present = [rng.choice(STYPES)]
    if layout == 'cat_to_num':
        present = ['numerical', 'categorical'] if rng.random() < 0.75 else ['categorical']
    elif layout == 'mi_sort':
        present = ['numerical']
    if stress.get('empty') and layout in (None, 'permuted') and 'multicategorical' not in present:
        present.append('multicategorical')
        present.sort(key=STYPES.index)
    if force_num_cls and 'numerical' not in present:
        present.append('numerical')
    if not present:
        present = [rng.choice(STYPES)]
    # the stypes of the frame the encoder sees (a transform may move columns to another stype)
    final = ['numerical'] if layout in ('cat_to_num', 'mi_sort') else list(present)
    if stress.get('extra') and len(final) == len(STYPES):
        drop = rng.choice([s for s in STYPES if not (force_num_cls and s == 'numerical')])
        present.remove(drop)
        final.remove(drop)
    counts = {st: rng.choice([1, 1, 2, 3]) for st in present}
    if layout == 'mi_sort' or (layout == 'permuted' and rng.random() < 0.8):
        for st in present:
            counts[st] = max(counts[st], rng.choice([2, 3, 4]))     # an order needs >= 2 columns to be visible
    wide = None
    if stress.get('ncols'):
        wide = rng.choice(present)
        counts[wide] = stress['ncols']
    if stress.get('lm'):
        for st in present:
            if st in LM_STYPES and counts[st] == 1 and rng.random() < 0.7:
                counts[st] = rng.choice([2, 3, 4])          # the column order needs >= 2 columns to be visible
    big = rng.choice(present) if (stress.get('ncat') or stress.get('width')) else None
    if stress.get('ncat'):
        big = rng.choice([s for s in present if s in ('categorical', 'multicategorical')] or [None])
        if big is None and layout != 'mi_sort':      # (MutualInformationSort only takes numerical-only frames)
            big = rng.choice(['categorical', 'multicategorical']) if layout in (None, 'permuted') else 'categorical'
            present.append(big)
            counts[big] = rng.choice([1, 2])
            if big not in final and layout in (None, 'permuted'):
                final.append(big)
    if stress.get('width') and layout in (None, 'permuted'):
        if 'embedding' not in present:
            present.append('embedding')
            final.append('embedding')
            counts['embedding'] = rng.choice([1, 2])
        big = 'embedding'
    # text_embedded / image_embedded children of the parent stype `embedding`
    children = []
    if stress.get('children') and layout in (None, 'permuted'):
        children = [rng.choice(['text', 'image']) for _ in range(rng.choice([1, 1, 2, 3]))]
        if 'embedding' not in present:
            present.append('embedding')
            final.append('embedding')
            counts['embedding'] = rng.choice([0, 1, 2])     # 0: the parent stype consists of children only
    present.sort(key=STYPES.index)
    final.sort(key=STYPES.index)
    need_target = layout in ('cat_to_num', 'mi_sort')
    names = gen_names(rng, sum(counts.values()) + len(children) + (1 if need_target else 0), stress.get('special'))
    target_name = names.pop() if need_target else None
    child_names = []
    if children:
        k_plain = counts.get('embedding', 0)
        pool = sorted(names[-(k_plain + len(children)):]) if k_plain + len(children) else []
        del names[len(names) - len(pool):]
        mode = rng.choice(['children-first', 'children-last', 'interleaved', 'random'])
        if mode == 'children-first':
            child_names, plain = pool[:len(children)], pool[len(children):]
        elif mode == 'children-last':
            plain, child_names = pool[:k_plain], pool[k_plain:]
        elif mode == 'interleaved':
            child_names = pool[0::2][:len(children)]
            child_names += [x for x in pool if x not in child_names][:len(children) - len(child_names)]
            plain = [x for x in pool if x not in child_names]
        else:
            rng.shuffle(pool)
            child_names, plain = pool[:len(children)], pool[len(children):]
        rng.shuffle(child_names)
        emb_names = list(plain)
        rng.shuffle(emb_names)
    cols = []
    for st in present:
        for j in range(counts[st]):
            opts = {'special': stress.get('special'), 'edge': stress.get('edge'),
                    'f64': stress.get('f64') and force_num_cls != 'bucket'}
            if st == big and j == 0:
                opts.update(ncat=stress.get('ncat'), width=stress.get('width'), cell=stress.get('cell'))
            nm = emb_names.pop() if (children and st == 'embedding') else names.pop()
            cols.append(gen_column(rng, st, n, nm, opts=opts))
    if children:
        plain_w = {len(c['values'][0]) for c in cols if c['stype'] == 'embedding'}
        for via, nm in zip(children, child_names):
            cols.append(gen_child_column(rng, via, n, nm))
        kids = [c for c in cols if c.get('via')]
        if len(plain_w | {c['w'] for c in kids}) < 2 and (plain_w or len(kids) > 1):
            kids[0]['w'] += 1              # different widths: a permuted EMB_DIM list must be visible
    if stress.get('empty'):
        for c in cols:
            if c['stype'] == 'multicategorical' and (rng.random() < 0.8 or stress['empty'] == 'all'):
                apply_empty_pattern(c, stress['empty'] if rng.random() < 0.8 else rng.choice(EMPTY_PATTERNS), rng)
    rng.shuffle(cols)                      # DataFrame column order is unrelated to the canonical order
    enc = {}
    for st in final:
        lm = st in LM_STYPES and rng.random() < stress.get('lm', 0.0) and not (force_num_cls and st == 'numerical')
        enc[st] = gen_encoder(rng, st, 'linmodel' if lm else (force_num_cls if st == 'numerical' else None))
    if any(isinstance(v, float) and v in F64_VALUES for c in cols if c['stype'] == 'numerical' for v in c['values']) \
            and enc.get('numerical', {}).get('cls') == 'bucket':
        for c in cols:                     # LinearBucketEncoder only runs in float32 (see partial_notes)
            if c['stype'] == 'numerical':
                c['values'] = [0.5 if isinstance(v, float) and v in F64_VALUES else v for v in c['values']]
    order = list(final)
    rng.shuffle(order)                     # insertion order of stype_encoder_dict
    case = {'kind': 'wise', 'nrows': n, 'cols': cols, 'enc': enc, 'enc_order': order,
            'ch': stress.get('ch') or rng.choice([1, 2, 3, 4]), 'pseed': rng.randrange(1 << 30),
            'batches': gen_batches(rng, n, stress.get('batch'))}
    if stress.get('empty'):
        case['batches'] += empty_batches(rng, cols, n)
    if layout:
        case['layout'] = {'t': layout, 'seed': rng.randrange(1 << 30)}
        if need_target:
            kind = 'reg' if layout == 'mi_sort' else rng.choice(['reg', 'reg', 'bin', 'multi'])
            case['target'] = gen_target(rng, n, target_name, kind)
    if stress.get('extra'):
        keys, bad = gen_extra_keys(rng, final)
        if keys:
            case['extra_keys'] = keys
            for k in keys:                 # absent keys are interleaved with the present ones in the user's dict
                case['enc_order'].insert(rng.randint(0, len(case['enc_order'])), '+' + str(keys.index(k)))
    if stress.get('hist'):
        case['hist'] = stress['hist']
    if stress.get('mutate'):
        case['mutate'] = stress['mutate']
    if stress.get('block_dtype'):
        case['block_dtype'] = stress['block_dtype']
    if with_eval:
        m = rng.choice([1, 2, 3, 5])
        case['eval_nrows'] = m
        case['eval_cols'] = [gen_child_column(rng, c['via'], m, c['name'], train=c) if c.get('via') else
                             gen_column(rng, c['stype'], m, c['name'], train=c,
                                        opts={'special': stress.get('special'), 'ncat': None}) for c in cols]
        if layout == 'cat_to_num':
            # (the transform itself refuses a frame one of whose categorical columns has no fitted category at all)
            for c, ec in zip(cols, case['eval_cols']):
                seen = sorted({v for v in c['values'] if v is not None}) if c['stype'] == 'categorical' else None
                if seen and not any(v in seen for v in ec['values']):
                    ec['values'][rng.randrange(m)] = rng.choice(seen)
        if stress.get('empty'):
            for c in case['eval_cols']:
                if c['stype'] == 'multicategorical':
                    apply_empty_pattern(c, rng.choice(EMPTY_PATTERNS), rng)
    return case


# --------------------------------------------------------------------------- real objects

def _val(v):
    if v == 'inf':
        return math.inf
    if v == '-inf':
        return -math.inf
    if v == 'nan':
        return math.nan
    return v


def make_df(cols, n, target=None):
    t = T()
    pd, np = t['pd'], t['np']
    data = {}
    for c in cols:
        st, vals = c['stype'], c['values']
        if st == 'numerical':
            data[c['name']] = pd.Series([np.nan if v is None else _val(v) for v in vals], dtype='float64')
        elif st == 'embedding' and not c.get('via'):
            s = pd.Series([None] * n, dtype=object)
            for i, v in enumerate(vals):
                s.iloc[i] = [float(_val(x)) for x in v]
            data[c['name']] = s
        else:
            data[c['name']] = pd.Series(list(vals), dtype=object)
    if target is not None:
        if target['kind'] == 'reg':
            data[target['name']] = pd.Series([np.nan if v is None else v for v in target['values']], dtype='float64')
        else:
            data[target['name']] = pd.Series([f'cls{v}' for v in target['values']], dtype=object)
    return pd.DataFrame(data)


class Source:
    """what the encoder is built from when the frame is produced by a transform: the transformed statistics, the
    transformed frame and the route new DataFrames take (the dataset's converter, then the fitted transform)"""

    def __init__(self, ds, col_stats, tensor_frame, post):
        self.ds, self.col_stats, self.tensor_frame, self.post = ds, col_stats, tensor_frame, post

    def convert_to_tensor_frame(self, df):
        return self.post(self.ds.convert_to_tensor_frame(df))


def permute_columns(tf, seed):
    """the frame with the column list of every stype re-ordered (as MutualInformationSort does for numerical columns):
    same cells, same names, another order of the column axis"""
    import random
    t = T()
    torch = t['torch']
    r = random.Random(seed)
    fd, nd = {}, {}
    for s in tf.stypes:
        names = tf.col_names_dict[s]
        perm = list(range(len(names)))
        r.shuffle(perm)
        if perm == sorted(perm) and len(perm) > 1:
            perm = perm[1:] + perm[:1]
        feat = tf.feat_dict[s]
        fd[s] = feat[:, torch.tensor(perm, dtype=torch.long)] if isinstance(feat, torch.Tensor) else feat[:, perm]
        if seed % 2 == 0 and isinstance(fd[s], torch.Tensor) and fd[s].dim() == 2:
            # dense 2-D blocks in column-major layout (what torch.from_numpy(df[cols].to_numpy()) gives): same cells
            from harness import stress
            fd[s] = stress.fortran(fd[s])
        nd[s] = [names[q] for q in perm]
    return t['tf'].TensorFrame(fd, nd, tf.y)


def _stub_sklearn():
    """MutualInformationSort imports two scoring functions from scikit-learn (not installed here) in its constructor;
    the ranking only has to be SOME function of the data: |covariance with the target| stands in for it"""
    import sys
    import types
    try:
        import sklearn.feature_selection  # noqa
        return None
    except Exception:  # noqa
        pass
    np = T()['np']

    def score(x, y):
        x, y = np.asarray(x, dtype=float), np.asarray(y, dtype=float)
        return np.abs(((x - x.mean(0)) * (y - y.mean())[:, None]).mean(0))
    pkg, mod = types.ModuleType('sklearn'), types.ModuleType('sklearn.feature_selection')
    mod.mutual_info_classif = mod.mutual_info_regression = score
    pkg.feature_selection = mod
    sys.modules['sklearn'], sys.modules['sklearn.feature_selection'] = pkg, mod
    return ['sklearn', 'sklearn.feature_selection']


def make_dataset(case):
    t = T()
    st = t['stype']
    target = case.get('target')
    df = make_df(case['cols'], case['nrows'], target)
    col_to_stype, tcfg, icfg = {}, {}, {}
    for c in case['cols']:
        if c.get('via') == 'text':
            from torch_frame.config import TextEmbedderConfig
            col_to_stype[c['name']] = st.text_embedded
            tcfg[c['name']] = TextEmbedderConfig(text_embedder=StubEmbedder(c['w'], c['salt']),
                                                 batch_size=None if c['salt'] % 2 else 2)
        elif c.get('via') == 'image':
            from torch_frame.config import ImageEmbedderConfig
            col_to_stype[c['name']] = st.image_embedded
            icfg[c['name']] = ImageEmbedderConfig(image_embedder=StubEmbedder(c['w'], c['salt']),
                                                  batch_size=None if c['salt'] % 2 else 3)
        else:
            col_to_stype[c['name']] = st(c['stype'])
    kw = {}
    if tcfg:
        kw['col_to_text_embedder_cfg'] = tcfg
    if icfg:
        kw['col_to_image_embedder_cfg'] = icfg
    if target is not None:
        col_to_stype[target['name']] = st.numerical if target['kind'] == 'reg' else st.categorical
        kw['target_col'] = target['name']
    ds = t['Dataset'](df, col_to_stype, col_to_sep=',', col_to_time_format=TIME_FMT, **kw).materialize()
    layout = (case.get('layout') or {}).get('t')
    if layout is None:
        return ds
    if layout == 'permuted':
        post = lambda tf: permute_columns(tf, case['layout']['seed'])      # noqa
        return Source(ds, ds.col_stats, post(ds.tensor_frame), post)
    if layout == 'cat_to_num':
        from torch_frame.transforms import CatToNumTransform
        tr = CatToNumTransform()
    else:
        from torch_frame import TaskType
        from torch_frame.transforms import MutualInformationSort
        added = _stub_sklearn()
        try:
            tr = MutualInformationSort(task_type=TaskType.REGRESSION)
        finally:
            import sys
            for k in added or []:
                sys.modules.pop(k, None)
    tr.fit(ds.tensor_frame, ds.col_stats)
    return Source(ds, tr.transformed_stats, tr(ds.tensor_frame), tr)


def na_of(name):
    return None if name is None else T()['NA'](name)


def make_post(p, ch):
    torch = T()['torch']
    if p['t'] == 'none':
        return None
    if p['t'] == 'relu':
        return torch.nn.ReLU()
    if p['t'] == 'tanh':
        return torch.nn.Tanh()
    return torch.nn.LayerNorm(ch)


_STUB = {}


def stub_class():
    """the stand-in for a user-supplied model of LinearModelEncoder: tanh(Linear(cell)), cell = the single-column
    TensorData the encoder hands over ([B, 1, d] tensor, or a one-column MultiEmbeddingTensor)"""
    if 'cls' not in _STUB:
        torch = T()['torch']

        class Stub(torch.nn.Module):
            def __init__(self, d, k):
                super().__init__()
                self.lin = torch.nn.Linear(d, k)

            def forward(self, x):
                if not isinstance(x, torch.Tensor):
                    x = x.values.unsqueeze(1)
                return torch.tanh(self.lin(x.to(self.lin.weight.dtype)))
        _STUB['cls'] = Stub
    return _STUB['cls']


def lm_config(e, stype_name, names, col_stats):
    """(ordered column names of the user's dict, {name: (d, k)}) for a LinearModelEncoder case"""
    import random
    r = random.Random(e['cfg_seed'])
    order = list(names)
    if e.get('cfg_order', 'shuffled') == 'shuffled':
        r.shuffle(order)
        if order == list(names) and len(order) > 1:
            order = order[1:] + order[:1]
    elif e.get('cfg_order') == 'reversed':
        order.reverse()
    Stat = T()['Stat']
    dims = {}
    for nm in sorted(names):
        d = {'numerical': 1, 'categorical': 1, 'timestamp': 7}.get(stype_name)
        if d is None:
            d = int(col_stats[nm][Stat.EMB_DIM]) if col_stats and nm in col_stats else 2
        dims[nm] = (d, r.choice([1, 2, 3]))
    return order, dims


def make_stype_encoder(e, ch, lazy=True, stats_list=None, stype=None, names=None, col_stats=None, stype_name=None):
    """the real StypeEncoder; lazy=True gives it only post module / NA strategy (as models do)"""
    E = T()['E']
    kw = dict(post_module=make_post(e['post'], ch), na_strategy=na_of(e['na']))
    if not lazy:
        kw.update(out_channels=ch, stats_list=stats_list, stype=stype)
    cls = e['cls']
    if cls == 'linmodel':
        from torch_frame.config import ModelConfig
        order, dims = lm_config(e, stype_name, names or ['c'], col_stats)
        Stub = stub_class()
        cfg = {nm: ModelConfig(model=Stub(*dims[nm]), out_channels=dims[nm][1]) for nm in order}
        return E.LinearModelEncoder(col_to_model_cfg=cfg, **kw)
    if cls == 'linear':
        return E.LinearEncoder(**kw)
    if cls == 'stack':
        return E.StackEncoder(**kw)
    if cls == 'bucket':
        return E.LinearBucketEncoder(**kw)
    if cls == 'periodic':
        return E.LinearPeriodicEncoder(n_bins=e['n_bins'], **kw)
    if cls == 'excel':
        return E.ExcelFormerEncoder(**kw)
    if cls == 'embedding':
        return E.EmbeddingEncoder(**kw)
    if cls == 'bag':
        return E.MultiCategoricalEmbeddingEncoder(mode=e['mode'], **kw)
    if cls == 'timestamp':
        return E.TimestampEncoder(out_size=e['out_size'], **kw)
    if cls == 'linemb':
        return E.LinearEmbeddingEncoder(**kw)
    raise ValueError(cls)


def randomize(module, e, gen):
    """re-draw every parameter; Embedding padding rows stay zero (hypothesis of missing_is_zero)"""
    torch = T()['torch']
    with torch.no_grad():
        for name, p in module.named_parameters():
            if name == 'emb.weight':
                p[1:] = torch.randn(p[1:].shape, generator=gen, dtype=p.dtype)
            elif name.startswith('embs.'):
                if e.get('rand_padding_row'):
                    p[:] = torch.randn(p.shape, generator=gen, dtype=p.dtype)   # the padding row is never read
                else:
                    p[1:] = torch.randn(p[1:].shape, generator=gen, dtype=p.dtype)
            elif name.startswith('post_module') and name.endswith('weight'):
                p[:] = 1.0 + 0.5 * torch.randn(p.shape, generator=gen, dtype=p.dtype)
            else:
                p[:] = torch.randn(p.shape, generator=gen, dtype=p.dtype)


def is_f32(e):
    return e['cls'] == 'bucket'


def build_wise(case, ds, tf):
    """the StypeWiseFeatureEncoder of the case on the materialized frame (eval mode, parameters re-drawn)"""
    t = T()
    torch, st = t['torch'], t['stype']
    enc_dict = {}
    for s in case['enc_order']:
        if s.startswith('+'):              # a key for a stype the dataset has no column of
            k = case['extra_keys'][int(s[1:])]
            enc_dict[st(k['stype'])] = make_stype_encoder({'cls': k['cls'], 'na': k['na'], 'post': {'t': 'none'},
                                                           'n_bins': 2, 'mode': 'mean', 'out_size': 2, 'cfg_seed': 1},
                                                          case['ch'], stype_name=k['stype'])
        else:
            enc_dict[st(s)] = make_stype_encoder(case['enc'][s], case['ch'], names=tf.col_names_dict.get(st(s)),
                                                 col_stats=ds.col_stats, stype_name=s)
    wise = t['E'].StypeWiseFeatureEncoder(case['ch'], ds.col_stats, tf.col_names_dict, enc_dict)
    gen = torch.Generator().manual_seed(case['pseed'])
    for s in STYPES:
        if s in case['enc']:
            m = wise.encoder_dict[s]
            randomize(m, case['enc'][s], gen)
            if is_f32(case['enc'][s]):
                m.float()
    return wise.eval()


def build(case):
    """dataset, frame, StypeWiseFeatureEncoder (eval mode, parameters re-drawn, the case's history applied)"""
    ds = make_dataset(case)
    tf = ds.tensor_frame
    wise = build_wise(case, ds, tf)
    tf = adapt_frame(case, tf)
    apply_history(case, tf, wise)
    return ds, tf, wise


def snapshot(feat):
    """hashable content of a feature block (dense tensor / ragged storage), NaN-stable"""
    torch = T()['torch']
    if isinstance(feat, torch.Tensor):
        return ('t', str(feat.dtype), core.stable_hash(torch.nan_to_num(feat.double(), nan=-12345.678).tolist()))
    return ('m', core.stable_hash(torch.nan_to_num(feat.values.double(), nan=-12345.678).tolist()),
            feat.offset.tolist(), feat.num_rows, feat.num_cols)


def family_labels(case, r):
    """labels of the third-round families for the input-distribution histogram (shared by C12 / C13)"""
    labs = []
    kids = [c for c in case['cols'] if c.get('via')]
    if kids:
        plain = [c for c in case['cols'] if c['stype'] == 'embedding' and not c.get('via')]
        labs.append('cfg:merged-embedding:' + '+'.join(sorted({c['via'] for c in kids})) +
                    ('+plain' if plain else '-only'))
        if len({c['w'] for c in kids} | {len(c['values'][0]) for c in plain}) > 1:
            labs.append('cfg:merged-embedding:different-widths')
    if case.get('layout'):
        labs.append('cfg:frame-from-transform:' + case['layout']['t'] +
                    (':' + case['target']['kind'] if case['layout']['t'] == 'cat_to_num' else ''))
    for st, v in (r.get('layout') or {}).items():
        labs.append(f'names:{st}:{v}')
    for c in case['cols']:
        if c['stype'] == 'multicategorical':
            vals = c['values']
            n = len(vals)
            if vals and vals[-1] == '':
                labs.append('ragged:empty-cell:last-row')
            if vals and vals[0] == '':
                labs.append('ragged:empty-cell:first-row')
            if any(v == '' for v in vals[1:-1]):
                labs.append('ragged:empty-cell:middle-row')
            if vals and all(v == '' for v in vals):
                labs.append('ragged:empty-cell:all-rows')
            if any(v is None for v in vals) and any(v == '' for v in vals):
                labs.append('ragged:empty-and-missing-cells')
    for b in case.get('batches', []):
        if b['t'] in ('list', 'tensor32', 'tensor64') and b['idx']:
            mc = [c for c in case['cols'] if c['stype'] == 'multicategorical']
            if mc and all(c['values'][b['idx'][-1]] == '' for c in mc):
                labs.append('ragged:batch-ends-with-empty-cells')
    for op in case.get('mutate', []):
        labs.append('alias:caller-edits-returned-' + op)
    if case.get('mutate'):
        labs.append(f"alias:caller-edits:groups-{len(case['enc'])}")
    return labs


def names_layout(tf):
    """per stype: is the frame's column list sorted? (labels of the input distribution)"""
    return {s.value: ('sorted' if list(tf.col_names_dict[s]) == sorted(tf.col_names_dict[s]) else 'unsorted')
            for s in tf.stypes if len(tf.col_names_dict[s]) > 1}


def apply_history(case, tf, wise):
    """family 5: earlier calls on the same encoder object before the measured ones"""
    torch = T()['torch']
    for h in case.get('hist', []):
        with torch.no_grad():
            if h == 'fwd':
                wise(tf)
            elif h == 'fwd_row':
                wise(tf[[0]])
            elif h == 'fwd_empty':
                wise(tf[[]])
            elif h == 'train_fwd':
                wise.train()
                wise(tf)
                wise.eval()
            elif h == 'train_eval':
                wise.train()
                wise.eval()
            elif h == 'reset':             # reset_parameters(), then the same parameter draw again
                wise.reset_parameters()            # (a no-op in FeatureEncoder) ...
                for m in wise.encoder_dict.values():
                    m.reset_parameters()           # ... so every stype encoder is reset as well
                gen = torch.Generator().manual_seed(case['pseed'])
                for s in STYPES:
                    if s in case['enc']:
                        randomize(wise.encoder_dict[s], case['enc'][s], gen)
            else:
                raise ValueError(h)


def adapt_frame(case, tf):
    """LinearBucketEncoder only runs in float32: hand it the (float32-exact) numerical block as float32"""
    e = case['enc'].get('numerical')
    st = T()['stype']
    torch = T()['torch']
    if e and is_f32(e):
        fd = dict(tf.feat_dict)
        fd[st.numerical] = fd[st.numerical].float()
        tf = T()['tf'].TensorFrame(fd, tf.col_names_dict, tf.y)
    for s, dt in (case.get('block_dtype') or {}).items():
        # family 3: the same values in another legal dtype (float32 numbers / int32 indices and calendar values)
        if st(s) in tf.feat_dict and isinstance(tf.feat_dict[st(s)], torch.Tensor):
            fd = dict(tf.feat_dict)
            fd[st(s)] = fd[st(s)].to({'f32': torch.float32, 'i32': torch.int32}[dt])
            tf = T()['tf'].TensorFrame(fd, tf.col_names_dict, tf.y)
    return tf


def eval_frame(case, ds):
    df = make_df(case['eval_cols'], case['eval_nrows'])
    return adapt_frame(case, ds.convert_to_tensor_frame(df))


def select(tf, b):
    torch = T()['torch']
    k = b['t']
    if k == 'whole':
        return tf
    if k == 'row':
        return tf[b['i']]
    if k == 'list':
        return tf[list(b['idx'])]
    if k == 'tensor64':
        return tf[torch.tensor(b['idx'], dtype=torch.long)]
    if k == 'tensor32':
        return tf[torch.tensor(b['idx'], dtype=torch.int32)]
    if k == 'mask':
        return tf[torch.tensor(b['mask'], dtype=torch.bool)]
    if k == 'empty_list':
        return tf[[]]
    if k == 'slice00':
        return tf[0:0]
    if k == 'empty_tensor':
        return tf[torch.tensor([], dtype=torch.long)]
    if k == 'slice':
        return tf[b['a']:b['b']]
    raise ValueError(k)


def batch_rows(b, n):
    k = b['t']
    if k == 'whole':
        return list(range(n))
    if k == 'row':
        return [b['i']]
    if k in ('list', 'tensor64', 'tensor32'):
        return list(b['idx'])
    if k == 'mask':
        return [i for i, v in enumerate(b['mask']) if v]
    if k == 'slice':
        return list(range(n))[b['a']:b['b']]
    return []


# --------------------------------------------------------------------------- export for the model

def fb(x):
    return core.float_bits(float(x))


def bits_nested(x):
    if isinstance(x, (list, tuple)):
        return [bits_nested(v) for v in x]
    return fb(x)


def tol(t):
    return t.detach().double().tolist()


def stats_json(ds, tf, s, f32=False):
    t = T()
    Stat, np = t['Stat'], t['np']
    out = []
    r32 = (lambda v: float(np.float32(v))) if f32 else float
    for name in tf.col_names_dict[t['stype'](s)]:
        st = ds.col_stats[name]
        if s == 'numerical':
            out.append({'t': 'num', 'mean': fb(r32(st[Stat.MEAN])), 'std': fb(r32(st[Stat.STD])),
                        'q': [fb(r32(q)) for q in st[Stat.QUANTILES]]})
        elif s == 'categorical':
            out.append({'t': 'cat', 'n': len(st[Stat.COUNT][0])})
        elif s == 'multicategorical':
            out.append({'t': 'multi', 'n': len(st[Stat.MULTI_COUNT][0])})
        elif s == 'timestamp':
            out.append({'t': 'time', 'minYear': int(st[Stat.YEAR_RANGE][0]),
                        'newest': [int(v) for v in st[Stat.NEWEST_TIME]],
                        'oldest': [int(v) for v in st[Stat.OLDEST_TIME]],
                        'median': [int(v) for v in st[Stat.MEDIAN_TIME]]})
        else:
            out.append({'t': 'emb', 'dim': int(st[Stat.EMB_DIM])})
    return out


def weights_json(m, e):
    sd = {k: v for k, v in m.state_dict().items()}
    cls = e['cls']
    if cls == 'linear':
        return {'cls': 'linear', 'weight': bits_nested(tol(sd['weight'])), 'bias': bits_nested(tol(sd['bias']))}
    if cls == 'stack':
        return {'cls': 'stack'}
    if cls == 'bucket':
        return {'cls': 'bucket', 'weight': bits_nested(tol(sd['weight'])), 'bias': bits_nested(tol(sd['bias']))}
    if cls == 'periodic':
        return {'cls': 'periodic', 'linIn': bits_nested(tol(sd['linear_in'])), 'linOut': bits_nested(tol(sd['linear_out']))}
    if cls == 'excel':
        return {'cls': 'excel', 'w1': bits_nested(tol(sd['W_1'])), 'w2': bits_nested(tol(sd['W_2'])),
                'b1': bits_nested(tol(sd['b_1'])), 'b2': bits_nested(tol(sd['b_2']))}
    if cls == 'embedding':
        return {'cls': 'embedding', 'table': bits_nested(tol(sd['emb.weight']))}
    if cls == 'bag':
        n = len(m.embs)
        return {'cls': 'bag', 'mode': e['mode'], 'tables': [bits_nested(tol(sd[f'embs.{i}.weight'])) for i in range(n)]}
    if cls == 'timestamp':
        return {'cls': 'timestamp', 'outSize': e['out_size'], 'weight': bits_nested(tol(sd['weight'])),
                'bias': bits_nested(tol(sd['bias']))}
    if cls == 'linemb':
        n = len(m.weight_list)
        return {'cls': 'linemb', 'weights': [bits_nested(tol(sd[f'weight_list.{i}'])) for i in range(n)],
                'biases': bits_nested(tol(sd['biases']))}
    if cls == 'linmodel':
        # the dict entries in the insertion order of the user's col_to_model_cfg (= ModuleDict order)
        return {'cls': 'linmodel', 'cols': [
            {'name': nm, 'a': bits_nested(tol(mod.lin.weight.t())), 'c': bits_nested(tol(mod.lin.bias)),
             'weight': bits_nested(tol(m.weight_dict[nm])), 'bias': bits_nested(tol(m.bias_dict[nm]))}
            for nm, mod in m.model_dict.items()]}
    raise ValueError(cls)


def post_json(m, e):
    p = e['post']
    if p['t'] != 'ln':
        return {'t': p['t']}
    return {'t': 'ln', 'g': bits_nested(tol(m.post_module.weight)), 'b': bits_nested(tol(m.post_module.bias))}


def enc_json(ds, tf, wise, case, s):
    e = case['enc'][s]
    m = wise.encoder_dict[s]
    return {'stype': s, 'na': e['na'], 'ch': case['ch'], 'stats': stats_json(ds, tf, s, f32=is_f32(e)),
            'weights': weights_json(m, e), 'post': post_json(m, e)}


def mnt_cells(m):
    """cells of a MultiNestedTensor read directly off its storage (values/offset), no library call"""
    vals, off = m.values.tolist(), m.offset.tolist()
    R, C = m.num_rows, m.num_cols
    return [[vals[off[r * C + c]:off[r * C + c + 1]] for c in range(C)] for r in range(R)]


def feat_json(tf, s):
    """(rows, cols, feat) of one stype block"""
    t = T()
    feat = tf.feat_dict[t['stype'](s)]
    if s == 'numerical':
        return feat.shape[0], feat.shape[1], {'t': 'num', 'x': bits_nested(tol(feat))}
    if s == 'categorical':
        return feat.shape[0], feat.shape[1], {'t': 'cat', 'x': feat.tolist()}
    if s == 'timestamp':
        return feat.shape[0], feat.shape[1], {'t': 'time', 'x': feat.tolist()}
    if s == 'multicategorical':
        return feat.num_rows, feat.num_cols, {'t': 'bags', 'x': mnt_cells(feat)}
    return feat.num_rows, feat.num_cols, {'t': 'emb', 'offset': feat.offset.tolist(),
                                          'values': bits_nested(tol(feat.values))}


def canonical_stypes(tf):
    return [s.value for s in tf.stypes]


def buffers_real(m, e):
    """the registered buffers of the real encoder, canonicalised like the driver's `buffers`"""
    sd = m.state_dict()
    out = {}
    fv = sd.get('fill_values')
    if fv is None:
        out['fill_values'] = None
    elif fv.dim() == 2:
        out['fill_values'] = {'time': fv.tolist()}
    elif fv.is_floating_point():
        out['fill_values'] = {'num': tol(fv)}
    else:
        out['fill_values'] = {'int': fv.tolist()}
    for k in ('mean', 'std'):
        if k in sd:
            out[k] = tol(sd[k])
    if 'boundaries' in sd:
        out['boundaries'] = tol(sd['boundaries'])
    if 'offset' in sd:
        out['offset'] = sd['offset'].tolist()
    if 'min_year' in sd:
        out['min_year'] = sd['min_year'].tolist()
        out['max_values'] = sd['max_values'].tolist()
    if hasattr(m, 'emb_dim_list'):
        out['emb_dim_list'] = [int(d) for d in m.emb_dim_list]
    return out


def buffers_model(b, e, s=None):
    """driver `buffers` -> the same canonical form (floats decoded)"""
    out = {}
    fv = b.get('fill_values')
    if fv is None:
        out['fill_values'] = None
    elif 'num' in fv:
        out['fill_values'] = {'num': [core.bits_float(x) for x in fv['num']]}
        if (e['cls'] in NUM_CLASSES or (e['cls'] == 'linmodel' and s == 'numerical')) and e['na'] == 'zeros':
            out['fill_values'] = {'int': [0 for _ in fv['num']]}     # torch.tensor([0, 0, ...]) is an int tensor
    else:
        out['fill_values'] = fv
    for k in ('mean', 'std'):
        if k in b:
            out[k] = [core.bits_float(x) for x in b[k]]
    if 'boundaries' in b:
        out['boundaries'] = [[core.bits_float(x) for x in r] for r in b['boundaries']]
    for k in ('offset', 'min_year', 'max_values', 'emb_dim_list'):
        if k in b:
            out[k] = b[k]
    return out


def decode(x):
    if isinstance(x, list):
        return [decode(v) for v in x]
    return core.bits_float(x)


# --------------------------------------------------------------------------- tolerances

def group_tolerance(m, e, mid=None):
    """absolute tolerance per (column, channel) on top of REL64*|x| + ABS64; `mid` = the model's [B][C][K]
    intermediate for the float32 bucket contraction (then the result is per (row, column, channel))"""
    torch = T()['torch']
    cls = e['cls']
    if cls == 'timestamp':
        w = m.weight.detach().double().abs().sum(dim=(1, 2))          # [C, ch]
        s = w + m.bias.detach().double().abs()
        return ('cc', (TS_ERR * s + 1e-7).tolist())
    if cls == 'bucket':
        w = m.weight.detach().double().abs()                          # [C, K, ch]
        midt = torch.tensor(mid, dtype=torch.float64).abs() if mid else torch.zeros(0, w.shape[0], w.shape[1])
        midt = torch.nan_to_num(midt, nan=0.0, posinf=1e300, neginf=1e300)
        s = torch.einsum('ijk,jkl->ijl', midt, w) + m.bias.detach().double().abs()[None]
        return ('rcc', (F32_ERR * s + 1e-6).tolist())
    return ('none', None)


def close(a, b, extra=0.0):
    if math.isnan(a) or math.isnan(b):
        return math.isnan(a) and math.isnan(b)
    if math.isinf(a) or math.isinf(b):
        return a == b
    if abs(a) >= 3.0e38 and abs(b) >= 3.0e38 and (a > 0) == (b > 0):
        return True     # nan_to_num clamps +-inf to the largest finite value of the dtype (float32 vs float64 run)
    return abs(a - b) <= REL64 * max(abs(a), abs(b)) + ABS64 + extra


def close_nested(a, b, extra=None):
    """a, b nested lists of floats with equal structure; extra mirrors the structure from some depth or is None"""
    if isinstance(a, list) != isinstance(b, list):
        return False
    if isinstance(a, list):
        if len(a) != len(b):
            return False
        for i, (x, y) in enumerate(zip(a, b)):
            ex = extra[i] if isinstance(extra, list) else extra
            if not close_nested(x, y, ex):
                return False
        return True
    return close(a, b, extra or 0.0)

"""Reflective tables of the encoder layer, evaluated from the LIVE package over their whole finite domain.

  stypeNames / parentIdx   list(torch_frame.stype) and stype.parent
  naNames                  list(NAStrategy)
  classNames               every StypeEncoder subclass found in torch_frame.nn.encoder.stype_encoder
  supported                <class>.supported_stypes (stype indices, ascending)
  directAccepted           (class, stype, na) for which constructing the class directly with that stype,
                           statistics of that stype and that NA strategy is accepted - over all pairs with
                           stype in supported_stypes
  wiseAccepted             (class, stype, na) for which StypeWiseFeatureEncoder accepts {stype: class(na)}
                           on a frame that has columns of (the parent of) that stype - over ALL triples
  cyclicConst, timeIndex   TimestampTensorMapper constants the TimestampEncoder relies on
Codes: class/stype = position in classNames/stypeNames; na = 0 for None, 1 + position in naNames.
"""
import inspect
import warnings

NAME = 'Encoder'

# fixed presentation order of the known classes; anything new is appended (and breaks gen_eq_model_*)
KNOWN = ['EmbeddingEncoder', 'MultiCategoricalEmbeddingEncoder', 'LinearEncoder', 'StackEncoder',
         'LinearBucketEncoder', 'LinearPeriodicEncoder', 'ExcelFormerEncoder', 'LinearEmbeddingEncoder',
         'LinearModelEncoder', 'TimestampEncoder']


def _classes():
    from torch_frame.nn.encoder import stype_encoder as M
    found = {n: c for n, c in vars(M).items()
             if inspect.isclass(c) and issubclass(c, M.StypeEncoder) and c is not M.StypeEncoder
             and c.__module__ == M.__name__}
    names = [n for n in KNOWN if n in found] + sorted(n for n in found if n not in KNOWN)
    return [(n, found[n]) for n in names]


def _stats_for(st):
    """statistics of one column of stype `st`, with the keys StatType.stats_for_stype declares"""
    import torch
    import torch_frame
    from torch_frame.data.stats import StatType
    vals = {
        StatType.MEAN: 0.5, StatType.STD: 1.0, StatType.QUANTILES: [0.0, 0.25, 0.5, 0.75, 1.0],
        StatType.COUNT: (['a', 'b'], [2, 1]), StatType.MULTI_COUNT: (['p', 'q'], [2, 1]),
        StatType.YEAR_RANGE: [2000, 2001],
        StatType.NEWEST_TIME: torch.tensor([2001, 0, 0, 0, 0, 0, 0]),
        StatType.OLDEST_TIME: torch.tensor([2000, 0, 0, 0, 0, 0, 0]),
        StatType.MEDIAN_TIME: torch.tensor([2000, 5, 5, 5, 5, 5, 5]),
        StatType.EMB_DIM: 2,
    }
    keys = list(StatType.stats_for_stype(st))
    if st in (torch_frame.text_embedded, torch_frame.image_embedded):
        keys.append(StatType.EMB_DIM)      # added by Dataset._update_col_stats
    return {k: vals[k] for k in keys}


def _make(cls, **kw):
    import torch
    from torch_frame.config import ModelConfig
    if cls.__name__ == 'LinearModelEncoder':
        kw['col_to_model_cfg'] = {'c': ModelConfig(model=torch.nn.Identity(), out_channels=1)}
    return cls(**kw)


def compute():
    import torch_frame
    from torch_frame import NAStrategy
    from torch_frame.data.mapper import TimestampTensorMapper
    from torch_frame.nn.encoder import StypeWiseFeatureEncoder
    warnings.filterwarnings('ignore')
    stypes = list(torch_frame.stype)
    nas = [None] + list(NAStrategy)
    classes = _classes()
    supported = [sorted(stypes.index(s) for s in c.supported_stypes) for _, c in classes]
    direct, wise = [], []
    for ci, (_, c) in enumerate(classes):
        for si, st in enumerate(stypes):
            for ni, na in enumerate(nas):
                if st in c.supported_stypes:
                    try:
                        _make(c, out_channels=2, stats_list=[_stats_for(st)], stype=st, na_strategy=na)
                        direct.append((ci, si, ni))
                    except Exception:
                        pass
                try:
                    StypeWiseFeatureEncoder(2, {'c': _stats_for(st.parent)}, {st.parent: ['c']},
                                            {st: _make(c, na_strategy=na)})
                    wise.append((ci, si, ni))
                except Exception:
                    pass
    return {
        'stypeNames': [s.value for s in stypes],
        'parentIdx': [stypes.index(s.parent) for s in stypes],
        'naNames': [n.value for n in NAStrategy],
        'classNames': [n for n, _ in classes],
        'supported': supported,
        'directAccepted': direct,
        'wiseAccepted': wise,
        'cyclicConst': [int(v) for v in TimestampTensorMapper.CYCLIC_VALUES_NORMALIZATION_CONSTANT.tolist()],
        'timeIndex': sorted(TimestampTensorMapper.TIME_TO_INDEX.items(), key=lambda kv: kv[1]),
    }


def _strs(xs):
    return '[' + ', '.join('"%s"' % x for x in xs) + ']'


def _nats(xs):
    return '[' + ', '.join(str(x) for x in xs) + ']'


def _triples(ts):
    rows = ['(%d, %d, %d)' % t for t in ts]
    lines = [', '.join(rows[i:i + 8]) for i in range(0, len(rows), 8)]
    return '[' + ',\n   '.join(lines) + ']'


def lines():
    t = compute()
    return [
        'def stypeNames : List String := ' + _strs(t['stypeNames']),
        'def parentIdx : List Nat := ' + _nats(t['parentIdx']),
        'def naNames : List String := ' + _strs(t['naNames']),
        'def classNames : List String := ' + _strs(t['classNames']),
        'def supported : List (List Nat) := [' + ', '.join(_nats(s) for s in t['supported']) + ']',
        'def directAccepted : List (Nat × Nat × Nat) :=\n  ' + _triples(t['directAccepted']),
        'def wiseAccepted : List (Nat × Nat × Nat) :=\n  ' + _triples(t['wiseAccepted']),
        'def cyclicConst : List Int := ' + _nats(t['cyclicConst']),
        'def timeIndex : List (String × Nat) := [' + ', '.join('("%s", %d)' % kv for kv in t['timeIndex']) + ']',
    ]

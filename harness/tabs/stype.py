"""Reflective tables of `torch_frame.stype`, the child-merge order of `_merge_feat`, the timestamp mapper's
constants and `Dataset.task_type`, each evaluated over its WHOLE finite domain from the live package.
Written to lean/TFVerif/Gen/Stype.lean; Props/C01.lean and Props/C02.lean prove `Gen.Stype.t = Model.t` by
`decide` (obligations gen_eq_model_*)."""
NAME = 'Stype'


def _lean_str(s):
    return '"' + s.replace('\\', '\\\\').replace('"', '\\"') + '"'


def _bool(b):
    return 'true' if b else 'false'


def _task_type(st, ncls):
    """Dataset.task_type for a target of stype `st` whose COUNT statistic lists `ncls` classes"""
    import pandas as pd
    import torch_frame
    from torch_frame.data import Dataset
    from torch_frame.data.stats import StatType
    from torch_frame.config import ImageEmbedderConfig, TextEmbedderConfig, TextTokenizerConfig
    try:
        ds = Dataset(pd.DataFrame({'t': [0.0]}), {'t': st}, target_col='t',
                     col_to_text_embedder_cfg=TextEmbedderConfig(text_embedder=lambda xs: None),
                     col_to_text_tokenizer_cfg=TextTokenizerConfig(text_tokenizer=lambda xs: None),
                     col_to_image_embedder_cfg=ImageEmbedderConfig(image_embedder=lambda xs: None))
        ds._is_materialized = True
        ds._col_stats = {'t': {StatType.COUNT: (list(range(ncls)), [1] * ncls)}}
        if st != torch_frame.categorical:
            ds._col_stats = {'t': {}}
        return ds.task_type.value
    except Exception:   # noqa
        return 'raises'


def lines():
    import torch
    import torch_frame
    from torch_frame import stype
    from torch_frame.data import TensorFrame
    from torch_frame.data.mapper import TimestampTensorMapper
    members = list(stype)
    out = []
    out.append('/-- `list(torch_frame.stype)`: member values in declaration order -/')
    out.append('def stypes : List String := [' + ', '.join(_lean_str(s.value) for s in members) + ']')
    out.append('/-- `s.parent` for every member -/')
    out.append('def parent : List (String × String) := [' +
               ', '.join(f'({_lean_str(s.value)}, {_lean_str(s.parent.value)})' for s in members) + ']')
    for prop, nm in (('use_multi_nested_tensor', 'useNested'), ('use_multi_embedding_tensor', 'useEmbedding'),
                     ('use_dict_multi_nested_tensor', 'useDict')):
        out.append(f'/-- `s.{prop}` for every member -/')
        out.append(f'def {nm} : List (String × Bool) := [' +
                   ', '.join(f'({_lean_str(s.value)}, {_bool(getattr(s, prop))})' for s in members) + ']')
    # order in which _merge_feat visits the stypes: TensorFrame.stypes of a frame holding every stype
    feat = {s: torch.zeros(1, 1) for s in members}
    tf = TensorFrame.__new__(TensorFrame)
    tf.feat_dict = feat
    out.append('/-- `TensorFrame.stypes` of a frame that holds every stype: the visiting order of `_merge_feat` -/')
    out.append('def childOrder : List String := [' + ', '.join(_lean_str(s.value) for s in tf.stypes) + ']')
    t2i = TimestampTensorMapper.TIME_TO_INDEX
    out.append('/-- `TimestampTensorMapper.TIME_TO_INDEX`, by position -/')
    out.append('def timeIndex : List (String × Nat) := [' +
               ', '.join(f'({_lean_str(k)}, {int(v)})' for k, v in sorted(t2i.items(), key=lambda kv: kv[1])) + ']')
    cyc = [int(x) for x in TimestampTensorMapper.CYCLIC_VALUES_NORMALIZATION_CONSTANT.tolist()]
    out.append('/-- `TimestampTensorMapper.CYCLIC_VALUES_NORMALIZATION_CONSTANT` -/')
    out.append('def cyclicConst : List Nat := [' + ', '.join(map(str, cyc)) + ']')
    out.append('/-- `Dataset.task_type` for every target stype × class count 0..6 (class count only matters for '
               'categorical targets) -/')
    rows = []
    for s in members:
        for k in range(0, 7):
            rows.append(f'({_lean_str(s.value)}, {k}, {_lean_str(_task_type(s, k))})')
    out.append('def taskType : List (String × Nat × String) := [' + ',\n  '.join(rows) + ']')
    return out

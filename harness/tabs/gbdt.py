"""Reflective tables for C20, evaluated from the live package over the whole finite domain:
TaskType x Metric -> supported, DEFAULT_METRIC per task, constructor accept/raise of GBDT and the three
adapter classes for every (task, metric | None) pair."""
NAME = 'GBDT'


def _s(x):
    return '"' + str(x) + '"'


def _list(items):
    return '[' + ', '.join(items) + ']'


def lines():
    from torch_frame import Metric, TaskType
    from torch_frame.gbdt import GBDT, CatBoost, LightGBM, XGBoost
    from torch_frame.gbdt import gbdt as gbdt_mod
    out = []
    out.append('/-- `[t.value for t in TaskType]` -/')
    out.append('def taskTypes : List String := ' + _list(_s(t.value) for t in TaskType))
    out.append('/-- `[m.value for m in Metric]` -/')
    out.append('def metrics : List String := ' + _list(_s(m.value) for m in Metric))
    out.append('/-- `TaskType.supported_metrics` -/')
    out.append('def supported : List (String × List String) := ' + _list(
        f'({_s(t.value)}, {_list(_s(m.value) for m in t.supported_metrics)})' for t in TaskType))
    out.append('/-- `Metric.supports_task_type(task)` for every pair -/')
    out.append('def metricOk : List (String × String × Bool) := ' + _list(
        f'({_s(t.value)}, {_s(m.value)}, {"true" if m.supports_task_type(t) else "false"})'
        for t in TaskType for m in Metric))
    out.append('/-- `DEFAULT_METRIC[task]` ("raises" = no entry) -/')
    out.append('def defaultMetric : List (String × String) := ' + _list(
        f'({_s(t.value)}, {_s(gbdt_mod.DEFAULT_METRIC[t].value if t in gbdt_mod.DEFAULT_METRIC else "raises")})'
        for t in TaskType))

    def ctor(cls, t, m):
        try:
            return cls(t, metric=m).metric.value
        except Exception:
            return 'raises'

    out.append('/-- `cls(task, metric=m).metric` or "raises", for every class, task and metric (or None) -/')
    out.append('def ctor : List (String × List (String × String × String)) := ' + _list(
        f'({_s(cls.__name__)}, ' + _list(
            f'({_s(t.value)}, {_s("None" if m is None else m.value)}, {_s(ctor(cls, t, m))})'
            for t in TaskType for m in [None] + list(Metric)) + ')'
        for cls in (GBDT, XGBoost, CatBoost, LightGBM)))
    return out

"""Storage-kind flags of every stype, evaluated from the live `torch_frame.stype` enum (C11).

`serialize_feat_dict` / `deserialize_feat_dict` choose their branch from these flags; the Lean model
(TFVerif/Model/IO.lean) carries the same table and Props/C11.lean proves the two equal by `decide`
over the whole (finite) enum."""
NAME = 'IO'


def _bools(xs):
    return '[' + ', '.join('true' if x else 'false' for x in xs) + ']'


def lines():
    import torch_frame
    members = list(torch_frame.stype)
    out = ['/-- `list(torch_frame.stype)`: member names in declaration order. -/',
           'def stypes : List String := [' + ', '.join(f'"{m.name}"' for m in members) + ']', '']
    for lean_name, attr in (('useNested', 'use_multi_nested_tensor'),
                            ('useEmbedding', 'use_multi_embedding_tensor'),
                            ('useDict', 'use_dict_multi_nested_tensor'),
                            ('useMultiTensor', 'use_multi_tensor')):
        out.append(f'/-- `stype.{attr}` for every member, in declaration order. -/')
        out.append(f'def {lean_name} : List Bool := ' + _bools([bool(getattr(m, attr)) for m in members]))
        out.append('')
    return out[:-1]

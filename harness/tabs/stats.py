"""Reflective tables for C03: StatType members, stype members, StatType.stats_for_stype over every stype, and the
`_default_values` table, evaluated from the live package -> lean/TFVerif/Gen/Stats.lean.
Props/C03.lean proves Gen.Stats.<t> = the hand-written model table by `decide`."""
import math

NAME = 'Stats'


def _s(x):
    return '"' + str(x).replace('\\', '\\\\').replace('"', '\\"') + '"'


def _strs(xs):
    return '[' + ', '.join(_s(x) for x in xs) + ']'


def render_default(v):
    """(kind, integer payload) -- same rendering as TFVerif.Stats.DefaultVal.render"""
    import torch
    if isinstance(v, float) and math.isnan(v):
        return 'nan', []
    if isinstance(v, bool):
        return f'other:{v!r}', []
    if isinstance(v, int):
        return 'int', [int(v)]
    if isinstance(v, tuple) and len(v) == 2 and all(isinstance(x, list) and len(x) == 0 for x in v):
        return 'nocounts', []
    if isinstance(v, torch.Tensor):
        if v.dtype in (torch.int64, torch.int32) and v.dim() == 1:
            return 'ints', [int(x) for x in v.tolist()]
        return f'other:{v!r}', []
    if isinstance(v, list) and v and all(isinstance(x, float) and math.isnan(x) for x in v):
        return 'nans', [len(v)]
    if isinstance(v, list) and all(isinstance(x, int) and not isinstance(x, bool) for x in v):
        return 'ints', [int(x) for x in v]
    return f'other:{v!r}', []


def lines():
    import torch_frame
    from torch_frame.data import stats as S
    out = []
    out.append('/-- `StatType` members in declaration order -/')
    out.append(f'def statTypes : List String := {_strs(m.name for m in S.StatType)}')
    out.append('')
    out.append('/-- `StatType` member values (the strings used as keys when saved) -/')
    out.append(f'def statTypeValues : List String := {_strs(m.value for m in S.StatType)}')
    out.append('')
    out.append('/-- `torch_frame.stype` members in declaration order -/')
    out.append(f'def stypes : List String := {_strs(m.value for m in torch_frame.stype)}')
    out.append('')
    out.append('/-- `StatType.stats_for_stype(s)` for every stype -/')
    rows = []
    for st in torch_frame.stype:
        rows.append(f'({_s(st.value)}, {_strs(m.name for m in S.StatType.stats_for_stype(st))})')
    out.append('def statsFor : List (String × List String) :=\n  [' + ',\n   '.join(rows) + ']')
    out.append('')
    out.append('/-- stypes whose parent is `embedding` (merged into the embedding group), declaration order -/')
    out.append(f'def embGroup : List String := '
               f'{_strs(m.value for m in torch_frame.stype if m.parent == torch_frame.stype.embedding)}')
    out.append('')
    out.append('/-- `_default_values`, one row per `StatType` in declaration order (missing key -> "absent") -/')
    rows = []
    for m in S.StatType:
        if m in S._default_values:
            kind, ints = render_default(S._default_values[m])
        else:
            kind, ints = 'absent', []
        rows.append(f'({_s(m.name)}, {_s(kind)}, [{", ".join(str(i) for i in ints)}])')
    out.append('def defaults : List (String × String × List Int) :=\n  [' + ',\n   '.join(rows) + ']')
    return out

"""Reflective table for C09: `SPLIT_TO_NUM` of torch_frame/utils/split.py, evaluated from the live package
(the whole dict, in its own order).  Props/C09.lean proves `Gen.Split.splitNum = Model splitNum` by `decide`."""
NAME = 'Split'


def lines():
    from torch_frame.utils.split import SPLIT_TO_NUM
    items = ', '.join(f'("{str(k)}", {int(v)})' for k, v in SPLIT_TO_NUM.items())
    return [f'def splitNum : List (String × Nat) := [{items}]']

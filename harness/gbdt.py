"""Helpers of the C20 check (GBDT adapters): frame generation / construction, canonicalisers, the stub subclass
used for the guard histories, and the direct oracles (Python list semantics, textbook metric formulas).
Nothing here knows about the Lean model."""
import math
import os
import sys
import types

from harness import core

LIBS = ('xgboost', 'catboost', 'lightgbm')
IGNORED = ('timestamp', 'multicategorical', 'sequence_numerical', 'text_embedded', 'image_embedded')
STUBBED = []


def import_gbdt():
    """torch_frame.gbdt imports none of xgboost/catboost/lightgbm/optuna/sklearn at module import or in the
    conversion / metric / guard code.  Should a future version import one at module level, stub the name in
    sys.modules of THIS process only (recorded in the evidence's trusted base)."""
    try:
        import torch_frame.gbdt as g
        return g
    except ImportError as e:
        name = getattr(e, 'name', None)
        if name in ('xgboost', 'catboost', 'lightgbm', 'optuna', 'sklearn'):
            sys.modules[name] = types.ModuleType(name)
            STUBBED.append(name)
            return import_gbdt()
        raise


def fbits(v):
    return core.float_bits(float(v))


def canon(v):
    v = float(v)
    return 'nan' if math.isnan(v) else core.float_bits(v)


def _f(v):
    return float('nan') if v is None else float(v)      # also 'inf' / '-inf' (cases stay strict JSON)


# ----------------------------------------------------------------------------- frames

NUM_SPECIAL32 = [-1.0, 0.5, -0.0, 1.0, 2.0 ** 24, 2.0 ** 24 + 2, -2.0 ** 31, 2.0 ** 127, -2.0 ** 127, 2.0 ** -126,
                 'inf', '-inf']                                                     # exact in float32
NUM_SPECIAL64 = [0.1, 1.0 / 3.0, 2.0 ** 24 + 1, 1700000001.0, 1700000002.0, 1e39, -1e39, 1.7e308, 5e-324]   # float64 only


def _val(rng, dt, p_special=0.08):
    if rng.random() < p_special:
        return rng.choice(NUM_SPECIAL32 + (NUM_SPECIAL64 if dt == 'f64' else []))
    return rng.randint(-40, 40) / 8


def gen_frame(rng, level=0, sc=None, lib=None):
    """sc: sizes from the stress ladder for a scale case ({'R': ..} / {'nc': ..} / {'nn': ..} / {'ne': ..} / {'dim': ..})"""
    sc = sc or {}
    R = sc.get('R', rng.choice([0, 1, 1, 2, 2, 3, 3, 3, 4, 4, 5, 5, 6]))
    present = rng.choice([['categorical'], ['numerical'], ['embedding'], ['categorical', 'numerical'],
                          ['categorical', 'embedding'], ['numerical', 'embedding'],
                          ['categorical', 'numerical', 'embedding'], ['categorical', 'numerical', 'embedding']])
    for k, st in (('nc', 'categorical'), ('nn', 'numerical'), ('ne', 'embedding'), ('dim', 'embedding')):
        if k in sc and st not in present:
            present = present + [st]
    if rng.random() < 0.04 and not sc:
        present = []
    fr = {'R': R, 'cat': None, 'num': None, 'emb': None}
    miss = rng.choice([0.0, 0.0, 0.15, 0.4, 1.0])
    few = 'R' in sc and R > 2000           # keep a long frame narrow
    if 'categorical' in present:
        nc = sc.get('nc', rng.randint(1, 2 if few else 4))
        top = rng.choice([6, 6, 6, 300, 70000])
        fr['cat'] = [[-1 if rng.random() < miss else rng.randint(0, top) for _ in range(nc)] for _ in range(R)]
        if lib in ('catboost', 'lightgbm') and R and rng.random() < 0.1:
            fr['cat'][rng.randrange(R)][rng.randrange(nc)] = rng.choice([2 ** 24 + 1, 2 ** 31 + 5])   # int64 all the way
        fr['cat_names'] = nc
        if rng.random() < 0.25:
            fr['cat_dt'] = rng.choice(['int32', 'int32', 'int16', 'int8'])
            lim = {'int32': 2 ** 31 - 1, 'int16': 32767, 'int8': 127}[fr['cat_dt']]
            fr['cat'] = [[min(v, lim) for v in row] for row in fr['cat']]
    if 'numerical' in present:
        nn = sc.get('nn', rng.randint(1, 2 if few else 4))
        dt = 'f64' if rng.random() < 0.3 else 'f32'
        fr['num'] = [[None if rng.random() < miss else _val(rng, dt) for _ in range(nn)] for _ in range(R)]
        fr['num_names'] = nn
        if dt == 'f64':
            fr['num_dt'] = 'f64'
    if 'embedding' in present:
        ne = sc.get('ne', rng.randint(1, 3))
        dims = [rng.randint(1, 3) for _ in range(ne)]
        if 'dim' in sc:
            dims[rng.randrange(ne)] = sc['dim']
        if few:
            dims = dims[:1]
        dt = 'f64' if rng.random() < 0.25 else 'f32'
        # per column: [R][dim] cells; a missing embedding cell is a row of NaN
        fr['emb'] = [[[None] * d if rng.random() < miss * 0.5 else [_val(rng, dt, 0.04) for _ in range(d)]
                      for _ in range(R)] for d in dims]
        fr['emb_dims'] = dims
        if dt == 'f64':
            fr['emb_dt'] = 'f64'
    fr['ignored'] = [s for s in IGNORED if rng.random() < 0.22]
    order = present + fr['ignored']
    rng.shuffle(order)
    fr['order'] = order
    r = rng.random()
    if r < 0.3:
        fr['y'] = None
    elif r < 0.65:
        ydt = rng.choice(['f32', 'f32', 'f64'])
        fr['y'] = {'t': 'f', 'v': [_val(rng, ydt) if rng.random() < 0.5 else rng.randint(-40, 40) / 8 for _ in range(R)]}
        if ydt == 'f64':
            fr['y']['dt'] = 'f64'
    else:
        fr['y'] = {'t': 'i', 'v': [rng.randint(0, 4) for _ in range(R)]}
        if rng.random() < 0.3:
            fr['y']['dt'] = rng.choice(['int32', 'uint8', 'bool', 'int16'])
            if fr['y']['dt'] == 'bool':
                fr['y']['v'] = [v % 2 for v in fr['y']['v']]
    # how the frame object comes into being: built directly, or as a row selection / slice of a longer frame, or
    # with column-major (non-contiguous) storage
    if rng.random() < 0.3 and present:
        fr['via'] = rng.choice(['index', 'slice', 'colmajor', 'index-repeat'])
    return fr


def twin_frame(rng, fr):
    """same schema, same shapes and dtypes, other payloads (a next batch)"""
    import copy
    tw = copy.deepcopy(fr)
    if tw['cat'] is not None:
        tw['cat'] = [[(v + 1 if v >= 0 and v < 100 else v) if rng.random() < 0.7 else -1 for v in row] for row in tw['cat']]
    if tw['num'] is not None:
        tw['num'] = [[(None if rng.random() < 0.1 else rng.randint(-40, 40) / 8 + 100.0) for _ in row] for row in tw['num']]
    if tw['emb'] is not None:
        tw['emb'] = [[[rng.randint(-40, 40) / 8 - 100.0 for _ in cell] for cell in col] for col in tw['emb']]
    if tw['y'] is not None:
        tw['y'] = dict(tw['y'], v=[(1 - v if tw['y']['t'] == 'i' and v in (0, 1) else v) for v in tw['y']['v']])
    return tw


def gen_scale_frame(rng, level, lib):
    from harness import stress
    dim = rng.choice(['R', 'R', 'R', 'nc', 'nn', 'ne', 'dim'])
    cap = {'R': 65537, 'nc': 1025, 'nn': 1025, 'ne': 1025, 'dim': 4097}[dim]
    fr = gen_frame(rng, level, {dim: stress.pick_size(rng, level, cap)}, lib)
    fr['scale'] = dim
    return fr


def _dt(name):
    import torch
    return {'f32': torch.float32, 'f64': torch.float64}.get(name) or getattr(torch, name)


def _tensor_rows(rows, R, n, dt, via):
    import torch
    t = torch.tensor([[_f(v) for v in row] for row in rows], dtype=dt).reshape(R, n)
    return t


def build_frame(fr):
    import torch
    import torch_frame
    from torch_frame import stype
    from torch_frame.data.multi_embedding_tensor import MultiEmbeddingTensor
    from torch_frame.data.multi_nested_tensor import MultiNestedTensor
    R0 = fr['R']
    via = fr.get('via')
    # the rows actually stored: the case's rows, plus junk rows when the frame is later cut out of a longer one
    if via in ('index', 'index-repeat'):
        pos = [2 * i + 1 for i in range(R0)]      # the case's row i sits at position 2i+1 of the long frame
        R = 2 * R0 + 1
    elif via == 'slice':
        pos = [i + 1 for i in range(R0)]
        R = R0 + 2
    else:
        pos, R = list(range(R0)), R0

    def spread(rows, junk):
        out = [junk] * R
        for i, p_ in enumerate(pos):
            out[p_] = rows[i]
        return out
    feat, names = {}, {}
    for s in fr['order']:
        if s == 'categorical':
            nc = fr['cat_names']
            feat[stype.categorical] = torch.tensor(spread(fr['cat'], [5] * nc),
                                                   dtype=_dt(fr.get('cat_dt', 'int64'))).reshape(R, nc)
            if via == 'colmajor' and R > 1 and nc > 1:
                feat[stype.categorical] = feat[stype.categorical].t().contiguous().t()
            names[stype.categorical] = [f'cat{j}' for j in range(nc)]
        elif s == 'numerical':
            nn = fr['num_names']
            t = torch.tensor([[_f(v) for v in row] for row in spread(fr['num'], [77.0] * nn)],
                             dtype=_dt(fr.get('num_dt', 'f32'))).reshape(R, nn)
            if via == 'colmajor':
                t = t.t().contiguous().t()
            feat[stype.numerical] = t
            names[stype.numerical] = [f'num{j}' for j in range(nn)]
        elif s == 'embedding':
            cols = [torch.tensor([[_f(v) for v in cell] for cell in spread(col, [88.0] * d)],
                                 dtype=_dt(fr.get('emb_dt', 'f32'))).reshape(R, d)
                    for col, d in zip(fr['emb'], fr['emb_dims'])]
            feat[stype.embedding] = MultiEmbeddingTensor.from_tensor_list(cols)
            names[stype.embedding] = [f'emb{j}' for j in range(len(cols))]
        elif s == 'timestamp':
            feat[stype.timestamp] = torch.full((R, 1, 7), 3, dtype=torch.long)
            names[stype.timestamp] = ['ts0']
        elif s in ('multicategorical', 'sequence_numerical'):
            st = stype(s)
            dt = torch.long if s == 'multicategorical' else torch.float32
            feat[st] = MultiNestedTensor.from_tensor_mat(
                [[torch.tensor([1, 2][: (r % 3)], dtype=dt), torch.tensor([5], dtype=dt)] for r in range(R)]) \
                if R > 0 else MultiNestedTensor(0, 2, torch.tensor([], dtype=dt), torch.tensor([0]))
            names[st] = [f'{s}0', f'{s}1']
        else:                                # text_embedded / image_embedded kept under their own key
            st = stype(s)
            feat[st] = MultiEmbeddingTensor.from_tensor_list([torch.full((R, 2), 9.0)])
            names[st] = [f'{s}0']
    y = None
    if fr['y'] is not None:
        ydt = _dt(fr['y'].get('dt', 'f32' if fr['y']['t'] == 'f' else 'int64'))
        y = torch.tensor([_f(v) for v in spread(fr['y']['v'], 3)] if fr['y']['t'] == 'f' else spread(fr['y']['v'], 1),
                         dtype=ydt)
    tf = torch_frame.TensorFrame(feat, names, y=y, num_rows=R)
    if via in ('index', 'index-repeat'):
        idx = torch.tensor(pos, dtype=torch.long)
        tf = tf[idx]
        if via == 'index-repeat':          # the SAME index tensor object once more (identity selection of the result)
            tf = tf[torch.arange(R0)]
    elif via == 'slice':
        tf = tf[1:R0 + 1]
    return tf


def new_adapter(lib):
    g = import_gbdt()
    from torch_frame import TaskType
    return {'xgboost': g.XGBoost, 'catboost': g.CatBoost, 'lightgbm': g.LightGBM}[lib](TaskType.REGRESSION)


def convert_raw(obj, lib, tf):
    return getattr(obj, f'_to_{lib}_input')(tf)


def canon_converted(lib, raw):
    if lib == 'xgboost':
        x, y, types_ = raw
        rows = [[canon(v) for v in row] for row in x.tolist()]
        out = {'rows': rows, 'width': int(x.shape[1]), 'types': [t == 'c' for t in types_],
               'other_types': sorted(set(types_) - {'c', 'q'})}
    else:
        df, y, cf = raw
        cf = [int(v) for v in (cf.tolist() if hasattr(cf, 'tolist') else cf)]
        rows = [[canon(v) for v in row] for row in df.to_numpy(dtype='float64').tolist()] if df.shape[1] else \
            [[] for _ in range(len(df))]
        out = {'rows': rows, 'width': int(df.shape[1]), 'catIdx': cf,
               'cols': [int(c) for c in df.columns.tolist()],
               'int_cols': [k for k, dt in enumerate(df.dtypes.tolist()) if dt.kind in 'iu']}
    out['y'] = None if y is None else [canon(v) for v in y.tolist()]
    return out


def run_adapter(lib, tf, obj=None):
    return canon_converted(lib, convert_raw(obj or new_adapter(lib), lib, tf))


def model_frame(fr, tf):
    """the frame as the Lean model sees it: raw storage of the real TensorFrame (values/offset of the embedding
    container), payloads as double bit patterns"""
    from torch_frame import stype
    R = fr['R']
    mf = {'R': R, 'cat': None, 'catNames': 0, 'num': None, 'numNames': 0, 'emb': None,
          'other': len(fr['ignored']), 'y': None}
    if stype.categorical in tf.feat_dict:
        mf['cat'] = tf.feat_dict[stype.categorical].tolist()
        mf['catNames'] = len(tf.col_names_dict[stype.categorical])
    if stype.numerical in tf.feat_dict:
        mf['num'] = [[fbits(v) for v in row] for row in tf.feat_dict[stype.numerical].tolist()]
        mf['numNames'] = len(tf.col_names_dict[stype.numerical])
    if stype.embedding in tf.feat_dict:
        met = tf.feat_dict[stype.embedding]
        mf['emb'] = {'values': [[fbits(v) for v in row] for row in met.values.tolist()] if R > 0 else [],
                     'offset': [int(o) for o in met.offset.tolist()]}
    if tf.y is not None:
        mf['y'] = [fbits(v) for v in tf.y.tolist()]
    return mf


def expected_matrix(fr, lib):
    """the property's text, on Python lists: categorical columns first (-1 -> NaN for XGBoost only), numerical
    next, embedding columns flattened in column order; rows in order"""
    rows = []
    for r in range(fr['R']):
        row = []
        if fr['cat'] is not None:
            row += [float('nan') if (v == -1 and lib == 'xgboost') else float(v) for v in fr['cat'][r]]
        if fr['num'] is not None:
            row += [_f(v) for v in fr['num'][r]]
        if fr['emb'] is not None:
            for col in fr['emb']:
                row += [_f(v) for v in col[r]]
        rows.append([canon(v) for v in row])
    return rows


def expected_width(fr):
    return ((fr['cat_names'] if fr['cat'] is not None else 0) + (fr['num_names'] if fr['num'] is not None else 0)
            + (sum(fr['emb_dims']) if fr['emb'] is not None else 0))


# ----------------------------------------------------------------------------- metrics

def gen_metric(rng, level=0):
    from harness import stress
    combo = rng.choice([('regression', 'rmse'), ('regression', 'mae'), ('regression', 'rmse'),
                        ('binary_classification', 'accuracy'), ('binary_classification', 'accuracy'),
                        ('multiclass_classification', 'accuracy')])
    task, metric = combo
    n = rng.choice([0, 1, 1, 2, 3, 4, 5, 6, 8, 12])
    scaled = rng.random() < 0.02 and level >= 0
    if scaled:
        n = stress.pick_size(rng, level, 65537)
    int_target = rng.random() < 0.25
    if task == 'regression':
        big = rng.random() < 0.15
        pred = [(rng.uniform(-1e6, 1e6) if big else rng.uniform(-5, 5)) for _ in range(n)]
        if rng.random() < 0.15:
            pred = [rng.choice([-1.0, 0.5, 0.1, 2.0 ** 24 + 1, 1700000001.0, -0.0, 1e-300]) if rng.random() < 0.3 else p for p in pred]
        target = [p if rng.random() < 0.2 else (rng.uniform(-1e6, 1e6) if big else rng.uniform(-5, 5)) for p in pred]
        if int_target:
            target = [float(round(t)) for t in target]
    elif task == 'binary_classification':
        pred = [rng.choice([0.5, 0.5, 0.0, 1.0, 0.25, 0.75, 0.5000000000000001, 0.49999999999999994,
                            rng.random()]) for _ in range(n)]
        target = [float(rng.choice([0, 1, 1, 0, 2]) if rng.random() < 0.1 else rng.randint(0, 1)) for _ in range(n)]
    else:
        pred = [float(rng.randint(0, 3)) for _ in range(n)]
        target = [p if rng.random() < 0.6 else float(rng.randint(0, 3)) for p in pred]
    case = {'task': task, 'metric': metric, 'pred': pred, 'target': target}
    if int_target:             # labels / integral targets held in an integer tensor
        if task == 'binary_classification' and all(t in (0.0, 1.0) for t in target) and rng.random() < 0.3:
            case['target_dt'] = 'bool'
        else:
            case['target_dt'] = rng.choice(['int64', 'int64', 'int32', 'uint8' if all(0 <= t < 256 for t in target) else 'int64'])
        if task == 'multiclass_classification' and rng.random() < 0.7:
            case['pred_dt'] = 'int64'
    if rng.random() < 0.15:
        case['view'] = True
    if rng.random() < 0.15:
        case['repeat'] = rng.randint(1, 2)
    if rng.random() < 0.04 and n >= 2 and not scaled:
        case['target'] = target + [target[0], target[-1]]      # mismatched lengths (no broadcasting): raises
    return case


def textbook_metric(case):
    """None when outside the domain of the definition (empty or mismatched vectors)"""
    p, t = case['pred'], case['target']
    n = len(t)
    if n == 0 or len(p) != n:
        return None
    if case['metric'] == 'rmse':
        return math.sqrt(math.fsum((a - b) ** 2 for a, b in zip(p, t)) / n)
    if case['metric'] == 'mae':
        return math.fsum(abs(a - b) for a, b in zip(p, t)) / n
    if case['task'] == 'binary_classification':
        return sum(1 for a, b in zip(p, t) if b == (1.0 if a > 0.5 else 0.0)) / n
    return sum(1 for a, b in zip(p, t) if a == b) / n


# ----------------------------------------------------------------------------- constructor table (text of the property)

# which task a metric is defined for (textbook): accuracy for classification, ROC-AUC for binary scores,
# RMSE / MAE / R2 for regression; the default follows the task type
METRIC_DOMAIN = {
    'accuracy': {'binary_classification', 'multiclass_classification'},
    'rocauc': {'binary_classification'},
    'rmse': {'regression'}, 'mae': {'regression'}, 'r2': {'regression'},
}
DEFAULTS = {'regression': 'rmse', 'binary_classification': 'rocauc', 'multiclass_classification': 'accuracy'}


def expected_ctor(task, metric):
    if task not in DEFAULTS:
        return 'raises'
    if metric is None:
        return DEFAULTS[task]
    return metric if task in METRIC_DOMAIN.get(metric, set()) else 'raises'


# ----------------------------------------------------------------------------- guards

def gen_ops(rng, level=0):
    from harness import stress
    ops = []
    count = rng.randint(1, 7)
    if rng.random() < 0.03:
        count = stress.pick_size(rng, level, 4097)
    late = rng.random() < 0.5         # in a long history the first fitting call may come late
    for k in range(count):
        r = rng.random()
        if count > 20 and late and k < count * 0.8 and 0.55 <= r < 0.85:
            r = rng.choice([0.1, 0.4, 0.9])
            if r == 0.9:
                ops.append({'op': 'load', 'hookOk': False})
                continue
        if rng.random() < 0.08:
            ops.append({'op': 'other_tune'})        # ANOTHER object of the same class gets fitted
        if not ops and r < 0.45:
            r = 0.7                     # start with a tune reasonably often
        if r < 0.3:
            ops.append({'op': 'predict'})
        elif r < 0.55:
            ops.append({'op': 'save'})
        elif r < 0.85:
            ops.append({'op': 'tune', 'trainY': rng.random() < 0.85, 'valY': rng.random() < 0.85,
                        'hookOk': rng.random() < 0.85})
        else:
            ops.append({'op': 'load', 'hookOk': rng.random() < 0.7})
    return ops


def run_ops(cls_name, ops, task='regression'):
    """run a call history on a fresh object; outcomes (True = returned, False = raised) and the final flag.
    `stub` is a subclass of the real GBDT base class whose abstract hooks (_tune/_predict/_load) are trivial:
    tune/predict/save/load themselves are the library's."""
    import torch
    import torch_frame
    from torch_frame import TaskType, stype
    g = import_gbdt()

    class Stub(g.GBDT):
        hook_ok = True

        def _tune(self, tf_train, tf_val, num_trials, *a, **k):
            if not self.hook_ok:
                raise RuntimeError('hook fails')
            self.model = types.SimpleNamespace(save_model=lambda path: None)

        def _predict(self, tf):
            return torch.zeros(len(tf))

        def _load(self, path):
            if not self.hook_ok:
                raise RuntimeError('hook fails')
            self.model = types.SimpleNamespace(save_model=lambda path: None)

    cls = {'stub': Stub, 'XGBoost': g.XGBoost, 'CatBoost': g.CatBoost, 'LightGBM': g.LightGBM}[cls_name]
    obj = cls(TaskType(task))
    other = cls(TaskType(task))
    # a stand-in booster is present from the start, so that a save() that forgot its guard would RETURN (and be
    # seen) instead of failing later for an unrelated reason; it writes nothing
    obj.model = types.SimpleNamespace(save_model=lambda path: None)
    save_path = os.path.join(core.VERIF, 'evidence', 'gbdt_stub_model')     # dirname exists; nothing is written

    def frame(with_y):
        return torch_frame.TensorFrame({stype.numerical: torch.zeros(2, 1)}, {stype.numerical: ['a']},
                                       y=torch.zeros(2) if with_y else None)

    outs = []
    for op in ops:
        if op['op'] == 'other_tune':        # not a call on the observed object: no outcome recorded
            other._is_fitted = True if cls_name != 'stub' else other._is_fitted
            if cls_name == 'stub':
                other.hook_ok = True
                other.tune(frame(True), frame(True), num_trials=1)
            continue
        try:
            if op['op'] == 'predict':
                obj.predict(frame(False))
            elif op['op'] == 'save':
                obj.save(save_path)
            elif op['op'] == 'tune':
                obj.hook_ok = op['hookOk']
                obj.tune(frame(op['trainY']), frame(op['valY']), num_trials=1)
            else:
                obj.hook_ok = op['hookOk']
                obj.load('unused')
            outs.append(True)
        except Exception:  # noqa
            outs.append(False)
    return {'outcomes': outs, 'fitted': bool(obj.is_fitted)}

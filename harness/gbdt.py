"""Helpers of the C20 check (GBDT adapters): frame generation / construction, canonicalisers, the stub subclass
used for the guard histories, and the direct oracles (Python list semantics, textbook metric formulas).
Nothing here knows about the Lean model."""
import math
import os
import sys
import types

from harness import core

LIBS = ('xgboost', 'catboost', 'lightgbm')
IGNORED = ('timestamp', 'multicategorical', 'sequence_numerical', 'text_embedded', 'image_embedded')
STUBBED = []


def import_gbdt():
    """torch_frame.gbdt imports none of xgboost/catboost/lightgbm/optuna/sklearn at module import or in the
    conversion / metric / guard code.  Should a future version import one at module level, stub the name in
    sys.modules of THIS process only (recorded in the evidence's trusted base)."""
    try:
        import torch_frame.gbdt as g
        return g
    except ImportError as e:
        name = getattr(e, 'name', None)
        if name in ('xgboost', 'catboost', 'lightgbm', 'optuna', 'sklearn'):
            sys.modules[name] = types.ModuleType(name)
            STUBBED.append(name)
            return import_gbdt()
        raise


def fbits(v):
    return core.float_bits(float(v))


def canon(v):
    v = float(v)
    return 'nan' if math.isnan(v) else core.float_bits(v)


def _f(v):
    return float('nan') if v is None else float(v)


# ----------------------------------------------------------------------------- frames

def gen_frame(rng):
    R = rng.choice([0, 1, 1, 2, 2, 3, 3, 3, 4, 4, 5, 5, 6])
    present = rng.choice([['categorical'], ['numerical'], ['embedding'], ['categorical', 'numerical'],
                          ['categorical', 'embedding'], ['numerical', 'embedding'],
                          ['categorical', 'numerical', 'embedding'], ['categorical', 'numerical', 'embedding']])
    if rng.random() < 0.04:
        present = []
    fr = {'R': R, 'cat': None, 'num': None, 'emb': None}
    miss = rng.choice([0.0, 0.0, 0.15, 0.4, 1.0])
    if 'categorical' in present:
        nc = rng.randint(1, 4)
        fr['cat'] = [[-1 if rng.random() < miss else rng.randint(0, 6) for _ in range(nc)] for _ in range(R)]
        fr['cat_names'] = nc
    if 'numerical' in present:
        nn = rng.randint(1, 4)
        fr['num'] = [[None if rng.random() < miss else rng.randint(-40, 40) / 8 for _ in range(nn)]
                     for _ in range(R)]
        fr['num_names'] = nn
    if 'embedding' in present:
        dims = [rng.randint(1, 3) for _ in range(rng.randint(1, 3))]
        # per column: [R][dim] cells; a missing embedding cell is a row of NaN
        fr['emb'] = [[[None] * d if rng.random() < miss * 0.5 else [rng.randint(-40, 40) / 8 for _ in range(d)]
                      for _ in range(R)] for d in dims]
        fr['emb_dims'] = dims
    fr['ignored'] = [s for s in IGNORED if rng.random() < 0.22]
    order = present + fr['ignored']
    rng.shuffle(order)
    fr['order'] = order
    r = rng.random()
    if r < 0.3:
        fr['y'] = None
    elif r < 0.65:
        fr['y'] = {'t': 'f', 'v': [rng.randint(-40, 40) / 8 for _ in range(R)]}
    else:
        fr['y'] = {'t': 'i', 'v': [rng.randint(0, 4) for _ in range(R)]}
    return fr


def build_frame(fr):
    import torch
    import torch_frame
    from torch_frame import stype
    from torch_frame.data.multi_embedding_tensor import MultiEmbeddingTensor
    from torch_frame.data.multi_nested_tensor import MultiNestedTensor
    R = fr['R']
    feat, names = {}, {}
    for s in fr['order']:
        if s == 'categorical':
            nc = fr['cat_names']
            feat[stype.categorical] = torch.tensor(fr['cat'], dtype=torch.long).reshape(R, nc)
            names[stype.categorical] = [f'cat{j}' for j in range(nc)]
        elif s == 'numerical':
            nn = fr['num_names']
            feat[stype.numerical] = torch.tensor([[_f(v) for v in row] for row in fr['num']],
                                                 dtype=torch.float32).reshape(R, nn)
            names[stype.numerical] = [f'num{j}' for j in range(nn)]
        elif s == 'embedding':
            cols = [torch.tensor([[_f(v) for v in cell] for cell in col], dtype=torch.float32).reshape(R, d)
                    for col, d in zip(fr['emb'], fr['emb_dims'])]
            feat[stype.embedding] = MultiEmbeddingTensor.from_tensor_list(cols)
            names[stype.embedding] = [f'emb{j}' for j in range(len(cols))]
        elif s == 'timestamp':
            feat[stype.timestamp] = torch.full((R, 1, 7), 3, dtype=torch.long)
            names[stype.timestamp] = ['ts0']
        elif s in ('multicategorical', 'sequence_numerical'):
            st = stype(s)
            dt = torch.long if s == 'multicategorical' else torch.float32
            feat[st] = MultiNestedTensor.from_tensor_mat(
                [[torch.tensor([1, 2][: (r % 3)], dtype=dt), torch.tensor([5], dtype=dt)] for r in range(R)]) \
                if R > 0 else MultiNestedTensor(0, 2, torch.tensor([], dtype=dt), torch.tensor([0]))
            names[st] = [f'{s}0', f'{s}1']
        else:                                # text_embedded / image_embedded kept under their own key
            st = stype(s)
            feat[st] = MultiEmbeddingTensor.from_tensor_list([torch.full((R, 2), 9.0)])
            names[st] = [f'{s}0']
    y = None
    if fr['y'] is not None:
        y = torch.tensor(fr['y']['v'], dtype=torch.float32 if fr['y']['t'] == 'f' else torch.long)
    return torch_frame.TensorFrame(feat, names, y=y, num_rows=R)


def run_adapter(lib, tf):
    g = import_gbdt()
    from torch_frame import TaskType
    if lib == 'xgboost':
        x, y, types_ = g.XGBoost(TaskType.REGRESSION)._to_xgboost_input(tf)
        rows = [[canon(v) for v in row] for row in x.tolist()]
        out = {'rows': rows, 'width': int(x.shape[1]), 'types': [t == 'c' for t in types_],
               'other_types': sorted(set(types_) - {'c', 'q'})}
    else:
        if lib == 'catboost':
            df, y, cf = g.CatBoost(TaskType.REGRESSION)._to_catboost_input(tf)
        else:
            df, y, cf = g.LightGBM(TaskType.REGRESSION)._to_lightgbm_input(tf)
        cf = [int(v) for v in (cf.tolist() if hasattr(cf, 'tolist') else cf)]
        rows = [[canon(v) for v in row] for row in df.to_numpy(dtype='float64').tolist()] if df.shape[1] else \
            [[] for _ in range(len(df))]
        out = {'rows': rows, 'width': int(df.shape[1]), 'catIdx': cf,
               'cols': [int(c) for c in df.columns.tolist()],
               'int_cols': [k for k, dt in enumerate(df.dtypes.tolist()) if dt.kind in 'iu']}
    out['y'] = None if y is None else [canon(v) for v in y.tolist()]
    return out


def model_frame(fr, tf):
    """the frame as the Lean model sees it: raw storage of the real TensorFrame (values/offset of the embedding
    container), payloads as double bit patterns"""
    from torch_frame import stype
    R = fr['R']
    mf = {'R': R, 'cat': None, 'catNames': 0, 'num': None, 'numNames': 0, 'emb': None,
          'other': len(fr['ignored']), 'y': None}
    if stype.categorical in tf.feat_dict:
        mf['cat'] = tf.feat_dict[stype.categorical].tolist()
        mf['catNames'] = len(tf.col_names_dict[stype.categorical])
    if stype.numerical in tf.feat_dict:
        mf['num'] = [[fbits(v) for v in row] for row in tf.feat_dict[stype.numerical].tolist()]
        mf['numNames'] = len(tf.col_names_dict[stype.numerical])
    if stype.embedding in tf.feat_dict:
        met = tf.feat_dict[stype.embedding]
        mf['emb'] = {'values': [[fbits(v) for v in row] for row in met.values.tolist()] if R > 0 else [],
                     'offset': [int(o) for o in met.offset.tolist()]}
    if tf.y is not None:
        mf['y'] = [fbits(v) for v in tf.y.tolist()]
    return mf


def expected_matrix(fr, lib):
    """the property's text, on Python lists: categorical columns first (-1 -> NaN for XGBoost only), numerical
    next, embedding columns flattened in column order; rows in order"""
    rows = []
    for r in range(fr['R']):
        row = []
        if fr['cat'] is not None:
            row += [float('nan') if (v == -1 and lib == 'xgboost') else float(v) for v in fr['cat'][r]]
        if fr['num'] is not None:
            row += [_f(v) for v in fr['num'][r]]
        if fr['emb'] is not None:
            for col in fr['emb']:
                row += [_f(v) for v in col[r]]
        rows.append([canon(v) for v in row])
    return rows


def expected_width(fr):
    return ((fr['cat_names'] if fr['cat'] is not None else 0) + (fr['num_names'] if fr['num'] is not None else 0)
            + (sum(fr['emb_dims']) if fr['emb'] is not None else 0))


# ----------------------------------------------------------------------------- metrics

def gen_metric(rng):
    combo = rng.choice([('regression', 'rmse'), ('regression', 'mae'), ('regression', 'rmse'),
                        ('binary_classification', 'accuracy'), ('binary_classification', 'accuracy'),
                        ('multiclass_classification', 'accuracy')])
    task, metric = combo
    n = rng.choice([0, 1, 1, 2, 3, 4, 5, 6, 8, 12])
    if task == 'regression':
        big = rng.random() < 0.15
        pred = [(rng.uniform(-1e6, 1e6) if big else rng.uniform(-5, 5)) for _ in range(n)]
        target = [p if rng.random() < 0.2 else (rng.uniform(-1e6, 1e6) if big else rng.uniform(-5, 5)) for p in pred]
    elif task == 'binary_classification':
        pred = [rng.choice([0.5, 0.5, 0.0, 1.0, 0.25, 0.75, 0.5000000000000001, 0.49999999999999994,
                            rng.random()]) for _ in range(n)]
        target = [float(rng.choice([0, 1, 1, 0, 2]) if rng.random() < 0.1 else rng.randint(0, 1)) for _ in range(n)]
    else:
        pred = [float(rng.randint(0, 3)) for _ in range(n)]
        target = [p if rng.random() < 0.6 else float(rng.randint(0, 3)) for p in pred]
    case = {'task': task, 'metric': metric, 'pred': pred, 'target': target}
    if rng.random() < 0.04 and n >= 2:
        case['target'] = target + [target[0], target[-1]]      # mismatched lengths (no broadcasting): raises
    return case


def textbook_metric(case):
    """None when outside the domain of the definition (empty or mismatched vectors)"""
    p, t = case['pred'], case['target']
    n = len(t)
    if n == 0 or len(p) != n:
        return None
    if case['metric'] == 'rmse':
        return math.sqrt(math.fsum((a - b) ** 2 for a, b in zip(p, t)) / n)
    if case['metric'] == 'mae':
        return math.fsum(abs(a - b) for a, b in zip(p, t)) / n
    if case['task'] == 'binary_classification':
        return sum(1 for a, b in zip(p, t) if b == (1.0 if a > 0.5 else 0.0)) / n
    return sum(1 for a, b in zip(p, t) if a == b) / n


# ----------------------------------------------------------------------------- constructor table (text of the property)

# which task a metric is defined for (textbook): accuracy for classification, ROC-AUC for binary scores,
# RMSE / MAE / R2 for regression; the default follows the task type
METRIC_DOMAIN = {
    'accuracy': {'binary_classification', 'multiclass_classification'},
    'rocauc': {'binary_classification'},
    'rmse': {'regression'}, 'mae': {'regression'}, 'r2': {'regression'},
}
DEFAULTS = {'regression': 'rmse', 'binary_classification': 'rocauc', 'multiclass_classification': 'accuracy'}


def expected_ctor(task, metric):
    if task not in DEFAULTS:
        return 'raises'
    if metric is None:
        return DEFAULTS[task]
    return metric if task in METRIC_DOMAIN.get(metric, set()) else 'raises'


# ----------------------------------------------------------------------------- guards

def gen_ops(rng):
    ops = []
    for _ in range(rng.randint(1, 7)):
        r = rng.random()
        if not ops and r < 0.45:
            r = 0.7                     # start with a tune reasonably often
        if r < 0.3:
            ops.append({'op': 'predict'})
        elif r < 0.55:
            ops.append({'op': 'save'})
        elif r < 0.85:
            ops.append({'op': 'tune', 'trainY': rng.random() < 0.85, 'valY': rng.random() < 0.85,
                        'hookOk': rng.random() < 0.85})
        else:
            ops.append({'op': 'load', 'hookOk': rng.random() < 0.7})
    return ops


def run_ops(cls_name, ops):
    """run a call history on a fresh object; outcomes (True = returned, False = raised) and the final flag.
    `stub` is a subclass of the real GBDT base class whose abstract hooks (_tune/_predict/_load) are trivial:
    tune/predict/save/load themselves are the library's."""
    import torch
    import torch_frame
    from torch_frame import TaskType, stype
    g = import_gbdt()

    class Stub(g.GBDT):
        hook_ok = True

        def _tune(self, tf_train, tf_val, num_trials, *a, **k):
            if not self.hook_ok:
                raise RuntimeError('hook fails')
            self.model = types.SimpleNamespace(save_model=lambda path: None)

        def _predict(self, tf):
            return torch.zeros(len(tf))

        def _load(self, path):
            if not self.hook_ok:
                raise RuntimeError('hook fails')
            self.model = types.SimpleNamespace(save_model=lambda path: None)

    cls = {'stub': Stub, 'XGBoost': g.XGBoost, 'CatBoost': g.CatBoost, 'LightGBM': g.LightGBM}[cls_name]
    obj = cls(TaskType.REGRESSION)
    # a stand-in booster is present from the start, so that a save() that forgot its guard would RETURN (and be
    # seen) instead of failing later for an unrelated reason; it writes nothing
    obj.model = types.SimpleNamespace(save_model=lambda path: None)
    save_path = os.path.join(core.VERIF, 'evidence', 'gbdt_stub_model')     # dirname exists; nothing is written

    def frame(with_y):
        return torch_frame.TensorFrame({stype.numerical: torch.zeros(2, 1)}, {stype.numerical: ['a']},
                                       y=torch.zeros(2) if with_y else None)

    outs = []
    for op in ops:
        try:
            if op['op'] == 'predict':
                obj.predict(frame(False))
            elif op['op'] == 'save':
                obj.save(save_path)
            elif op['op'] == 'tune':
                obj.hook_ok = op['hookOk']
                obj.tune(frame(op['trainY']), frame(op['valY']), num_trials=1)
            else:
                obj.hook_ok = op['hookOk']
                obj.load('unused')
            outs.append(True)
        except Exception:  # noqa
            outs.append(False)
    return {'outcomes': outs, 'fitted': bool(obj.is_fitted)}

"""Helpers of the C16 check: abstract text columns -> pandas objects, recording stub callables, canonical
representations of the assembled containers.  The stub functions `emb_f` / `tok_g` are re-implemented in
lean/Drivers/C16.lean (`embStub` / `tokStub`); both sides are deterministic functions of the input string."""
from __future__ import annotations

import math
import os

os.environ.setdefault('TQDM_DISABLE', '1')   # the mappers wrap their chunk loops in tqdm; keep the check's output clean


def quiet_progress_bars():
    """torch_frame (and with it tqdm) may already be imported when this module is loaded, so the environment
    variable can come too late: give the mapper module a disabled tqdm (it iterates exactly like the original)."""
    import functools
    import tqdm
    from torch_frame.data import mapper
    if getattr(mapper.tqdm, 'func', None) is not tqdm.tqdm:
        mapper.tqdm = functools.partial(tqdm.tqdm, disable=True)

STR_POOL = ['a', 'bb', '', 'ccc dd', 'é', '日本語', 'None', 'nan', '<NA>', ' x ', '😀', 'A\tB', '0', '1.5', 'NaN',
            'img/0.png', '/tmp/a b.jpg', 'ß', 'xyzxyzxy', '"q"', 'a\\b', 'null']
ALPHABET = 'abcXYZ 019_-./éß日😀'
MISSING = ['none', 'nan', 'na']
DTYPES = ['object', 'str', 'string']
KINDS = ['text_emb', 'image_emb', 'tok_map', 'tok_list']
KEYSETS = [['input_ids'], ['input_ids', 'attention_mask'], ['b', 'a', 'c']]
INDEX_KINDS = ['range', 'offset', 'dup', 'shuffled', 'str', 'neg', 'const']


# ----------------------------------------------------------------------------- generation

def gen_cell(rng, p_missing=0.28):
    if rng.random() < p_missing:
        return {'m': rng.choice(MISSING)}
    if rng.random() < 0.6:
        return {'s': rng.choice(STR_POOL)}
    return {'s': ''.join(rng.choice(ALPHABET) for _ in range(rng.randint(0, 8)))}


def gen_bs(rng, n, allow_zero=False):
    r = rng.random()
    if allow_zero and r < 0.03:
        return 0
    if r < 0.2:
        return None
    return rng.randint(1, n + 1)


def gen_col(rng, name, n, keys=None, allow_zero=False):
    kind = rng.choice(KINDS)
    col = {'name': name, 'kind': kind, 'dtype': rng.choice(DTYPES),
           'cells': [gen_cell(rng) for _ in range(n)], 'bs': gen_bs(rng, n, allow_zero)}
    if kind in ('text_emb', 'image_emb'):
        col['D'] = rng.randint(1, 4)
    else:
        col['keys'] = keys if keys is not None else rng.choice(KEYSETS)
        if kind == 'tok_map':
            col['W'] = rng.randint(0, 4)          # one 2-D tensor per key: fixed width
        else:
            col['W'] = rng.choice([None, None, rng.randint(0, 4)])
    return col


def gen_case(rng):
    path = 'dataset' if rng.random() < 0.4 else 'mapper'
    if path == 'mapper':
        n = 0 if rng.random() < 0.03 else rng.randint(1, 8)
        cols = [gen_col(rng, 'c0', n, allow_zero=True)]
    else:
        n = rng.randint(1, 7)
        names = rng.sample(['t0', 't1', 't2', 'a_text', 'Z'], rng.randint(1, 3))
        keys = rng.choice(KEYSETS)
        cols = [gen_col(rng, nm, n, keys=keys) for nm in names]
    case = {'path': path, 'n': n, 'index': rng.choice(INDEX_KINDS), 'cols': cols, 'iseed': rng.randrange(1 << 30)}
    if path == 'dataset':
        case['shared'] = False
    return case


# ----------------------------------------------------------------------------- pandas rendering

def py_cell(c):
    import pandas as pd
    if 's' in c:
        return c['s']
    return {'none': None, 'nan': float('nan'), 'na': pd.NA}[c['m']]


def make_index(kind, n, iseed):
    import random
    r = random.Random(iseed)
    if kind == 'range':
        return None
    if kind == 'offset':
        return list(range(5, 5 + n))
    if kind == 'dup':
        return [i // 2 for i in range(n)]
    if kind == 'shuffled':
        xs = list(range(n))
        r.shuffle(xs)
        return xs
    if kind == 'str':
        return [f'r{(i * 7) % 5}' for i in range(n)]
    if kind == 'neg':
        return [-(i + 1) for i in range(n)]
    if kind == 'const':
        return [0] * n
    raise ValueError(kind)


def make_series(col, index_kind, n, iseed):
    import pandas as pd
    dt = {'object': object, 'str': 'str', 'string': 'string'}[col['dtype']]
    ser = pd.Series([py_cell(c) for c in col['cells']], dtype=dt)
    idx = make_index(index_kind, n, iseed)
    if idx is not None:
        ser.index = idx
    return ser


# ----------------------------------------------------------------------------- stub callables

def ords(s):
    return [ord(ch) for ch in s]


def emb_f(d, s):
    o = ords(s)
    full = [len(s), sum(o), sum((i + 1) * x for i, x in enumerate(o)) % 1009] + [7] * d
    return full[:d]


def tok_g(keys, w, s, k):
    j = keys.index(k)
    base = [x + j for x in ords(s)]
    if w is None:
        return base
    return (base + [0] * w)[:w]


def _as_text(x):
    """the stubs must not crash on a non-string (that is exactly what the check wants to see and report)"""
    return x if isinstance(x, str) else repr(x)


class Recorder:
    def __init__(self):
        self.calls = []          # list of lists (elements as given)
        self.containers = []     # type name of each argument container

    def note(self, xs):
        self.containers.append(type(xs).__name__)
        self.calls.append(list(xs))

    def summary(self):
        calls = [[x if isinstance(x, str) else {'non_str': type(x).__name__, 'repr': repr(x)} for x in c]
                 for c in self.calls]
        types = sorted({type(x).__name__ for c in self.calls for x in c})
        return {'calls': calls, 'argtypes': types, 'containers': sorted(set(self.containers))}


def make_stub(col, rec):
    import torch
    kind = col['kind']
    if kind in ('text_emb', 'image_emb'):
        d = col['D']

        def emb(xs):
            rec.note(xs)
            rows = [emb_f(d, _as_text(x)) for x in xs]
            return torch.tensor(rows, dtype=torch.float32).reshape(len(rows), d)
        return emb
    keys, w = col['keys'], col['W']
    if kind == 'tok_map':
        def tok(xs):
            rec.note(xs)
            return {k: torch.tensor([tok_g(keys, w, _as_text(x), k) for x in xs], dtype=torch.long).reshape(len(xs), w)
                    for k in keys}
        return tok

    def tok(xs):
        rec.note(xs)
        return [{k: torch.tensor(tok_g(keys, w, _as_text(x), k), dtype=torch.long) for k in keys} for x in xs]
    return tok


# ----------------------------------------------------------------------------- canonical representations

def ints(t):
    out = []
    for v in t.reshape(-1).tolist():
        if float(v) != math.floor(float(v)):
            raise ValueError(f'non-integral value {v}')
        out.append(int(v))
    return out


def met_repr(met):
    vals = met.values
    return {'R': int(met.num_rows), 'C': int(met.num_cols), 'W': int(vals.shape[1]) if vals.dim() == 2 else -1,
            'values': [ints(r) for r in vals], 'offset': [int(v) for v in met.offset.tolist()]}


def mnt_repr(mnt):
    return {'R': int(mnt.num_rows), 'C': int(mnt.num_cols), 'values': ints(mnt.values),
            'offset': [int(v) for v in mnt.offset.tolist()]}


def met_column(met, j):
    """column j of a merged MultiEmbeddingTensor as a stand-alone one-column container"""
    a, b = int(met.offset[j]), int(met.offset[j + 1])
    return {'R': int(met.num_rows), 'C': 1, 'W': b - a, 'values': [ints(r[a:b]) for r in met.values],
            'offset': [0, b - a]}


def mnt_column(mnt, j):
    R, C = int(mnt.num_rows), int(mnt.num_cols)
    off = [int(v) for v in mnt.offset.tolist()]
    vals = ints(mnt.values)
    cells = [vals[off[i * C + j]:off[i * C + j + 1]] for i in range(R)]
    o, acc = [0], 0
    for c in cells:
        acc += len(c)
        o.append(acc)
    return {'R': R, 'C': 1, 'values': [v for c in cells for v in c], 'offset': o}


def rows_of(out, col):
    """per-row python lists of an 'ok' outcome: embed -> list of rows; tok -> {key: list of rows}"""
    if col['kind'] in ('text_emb', 'image_emb'):
        return out['values']
    res = {}
    for k, m in out:
        res[k] = [m['values'][m['offset'][i]:m['offset'][i + 1]] for i in range(m['R'])]
    return res


# ----------------------------------------------------------------------------- running the real code

def run_mapper(col, ser, bs='case'):
    from torch_frame.data.mapper import EmbeddingTensorMapper, TextTokenizationTensorMapper
    quiet_progress_bars()
    rec = Recorder()
    stub = make_stub(col, rec)
    b = col['bs'] if bs == 'case' else bs
    try:
        if col['kind'] in ('text_emb', 'image_emb'):
            out = {'ok': met_repr(EmbeddingTensorMapper(stub, b).forward(ser))}
        else:
            d = TextTokenizationTensorMapper(stub, b).forward(ser)
            out = {'ok': [[k, mnt_repr(m)] for k, m in d.items()]}
    except Exception:
        out = 'raises'
    res = rec.summary()
    res['out'] = out
    return res


def run_dataset(case):
    import pandas as pd
    import torch_frame
    from torch_frame import stype
    from torch_frame.config import ImageEmbedderConfig, TextEmbedderConfig, TextTokenizerConfig
    from torch_frame.data import Dataset
    quiet_progress_bars()
    n = case['n']
    data, c2s, emb_cfg, img_cfg, tok_cfg, recs = {}, {}, {}, {}, {}, {}
    for col in case['cols']:
        ser = make_series(col, 'range', n, 0)
        data[col['name']] = ser
        rec = Recorder()
        recs[col['name']] = rec
        stub = make_stub(col, rec)
        if col['kind'] == 'text_emb':
            c2s[col['name']] = stype.text_embedded
            emb_cfg[col['name']] = TextEmbedderConfig(text_embedder=stub, batch_size=col['bs'])
        elif col['kind'] == 'image_emb':
            c2s[col['name']] = stype.image_embedded
            img_cfg[col['name']] = ImageEmbedderConfig(image_embedder=stub, batch_size=col['bs'])
        else:
            c2s[col['name']] = stype.text_tokenized
            tok_cfg[col['name']] = TextTokenizerConfig(text_tokenizer=stub, batch_size=col['bs'])
    df = pd.DataFrame(data)
    idx = make_index(case['index'], n, case['iseed'])
    if idx is not None:
        df.index = idx
    for col in case['cols']:   # the frame must really carry the dtype the case asks for
        want = {'object': 'object', 'str': 'str', 'string': 'string'}[col['dtype']]
        assert str(df[col['name']].dtype) == want, (str(df[col['name']].dtype), want)
    try:
        ds = Dataset(df, c2s, col_to_text_embedder_cfg=emb_cfg or None, col_to_text_tokenizer_cfg=tok_cfg or None,
                     col_to_image_embedder_cfg=img_cfg or None).materialize()
        tf = ds.tensor_frame
    except Exception:
        return 'raises'
    res = {}
    for col in case['cols']:
        name = col['name']
        r = recs[name].summary()
        if col['kind'] in ('text_emb', 'image_emb'):
            j = tf.col_names_dict[torch_frame.embedding].index(name)
            r['out'] = {'ok': met_column(tf.feat_dict[torch_frame.embedding], j)}
        else:
            j = tf.col_names_dict[stype.text_tokenized].index(name)
            feat = tf.feat_dict[stype.text_tokenized]
            r['out'] = {'ok': [[k, mnt_column(feat[k], j)] for k in feat.keys()]}
        res[name] = r
    return res


def model_request(col):
    req = {'dtype': col['dtype'], 'cells': col['cells'], 'bs': col['bs'],
           'kind': 'embed' if col['kind'] in ('text_emb', 'image_emb') else col['kind']}
    if req['kind'] == 'embed':
        req['D'] = col['D']
    else:
        req['keys'] = col['keys']
        req['W'] = col['W']
    return req


def model_col_outcome(reply):
    calls = reply['calls']
    if calls == 'raises':
        calls = []
    return {'calls': calls, 'argtypes': ['str'] if any(len(c) for c in calls) else [],
            'containers': ['list'] if calls else [], 'out': reply['out']}

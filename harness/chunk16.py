"""Helpers of the C16 check: abstract text columns -> pandas objects, recording stub callables, canonical
representations of the assembled containers.  The stub functions `emb_f` / `tok_g` are re-implemented in
lean/Drivers/C16.lean (`embStub` / `tokStub`); both sides are deterministic functions of the input string."""
from __future__ import annotations

import math
import os

from harness import stress

os.environ.setdefault('TQDM_DISABLE', '1')   # the mappers wrap their chunk loops in tqdm; keep the check's output clean


def quiet_progress_bars():
    """torch_frame (and with it tqdm) may already be imported when this module is loaded, so the environment
    variable can come too late: give the mapper module a disabled tqdm (it iterates exactly like the original)."""
    import functools
    import tqdm
    from torch_frame.data import mapper
    import warnings
    warnings.filterwarnings('ignore', message='The given NumPy array is not writable')
    if getattr(mapper.tqdm, 'func', None) is not tqdm.tqdm:
        mapper.tqdm = functools.partial(tqdm.tqdm, disable=True)

STR_POOL = ['a', 'bb', '', 'ccc dd', 'é', '日本語', 'None', 'nan', '<NA>', ' x ', '😀', 'A\tB', '0', '1.5', 'NaN',
            'img/0.png', '/tmp/a b.jpg', 'ß', 'xyzxyzxy', '"q"', 'a\\b', 'null']
# hardening round: sentinel look-alikes, trailing / embedded NUL, separators inside values, case pairs, prefixes
STR_POOL += [x for x in stress.SPECIAL_STR if x not in STR_POOL] + [
    '-1', '-1.0', '0.5', 'inf', 'ab\x00', 'ab', 'p.png\x00\x00', 'a\x00b', '\x00\x00', 'None\x00', 'label', 'label_prev',
    'a|b', 'a,b', 'W', 'w', 'Zeta', 'alpha', '\n', 'a\nb', 'x\r\n', '\ufeffa', 'e\u0301', 'NaT', 'True']
ALPHABET = 'abcXYZ 019_-./éß日😀' + '\x00,|\n'
MISSING = ['none', 'nan', 'na']
DTYPES = ['object', 'str', 'string']
KINDS = ['text_emb', 'image_emb', 'tok_map', 'tok_list']
KEYSETS = [['input_ids'], ['input_ids', 'attention_mask'], ['b', 'a', 'c']]
INDEX_KINDS = ['range', 'offset', 'dup', 'shuffled', 'str', 'neg', 'const', 'sliced', 'bigint', 'float']


# ----------------------------------------------------------------------------- generation

ORDS = ['fixed', 'rev', 'rot']              # per-sentence (tok_list) / per-call (tok_map) key insertion order
MTYPES = ['dict', 'ordered', 'userdict', 'proxy']   # the Mapping type the tokenizer stub returns
ODTS = ['f32', 'f64', 'i64']                # dtype of the tensor an embedder stub returns


def gen_cell(rng, p_missing=0.28):
    if rng.random() < p_missing:
        c = {'m': rng.choice(MISSING)}
        if c['m'] == 'nan' and rng.random() < 0.3:
            c['np'] = 1                      # numpy.float64('nan') instead of float('nan')
        return c
    if rng.random() < 0.6:
        return {'s': rng.choice(STR_POOL)}
    return {'s': ''.join(rng.choice(ALPHABET) for _ in range(rng.randint(0, 8)))}


def gen_bs(rng, n, allow_zero=False):
    r = rng.random()
    if allow_zero and r < 0.03:
        return 0
    if r < 0.2:
        return None
    return rng.randint(1, n + 1)


def gen_big_bs(rng, n):
    """batch sizes around the thresholds and around the column length"""
    pool = [None, 2, 16, 17, 64, 255, 256, 257, 1000, 1024, n - 1, n, n + 1, n // 2, n // 2 + 1, (n + 2) // 3]
    if n <= 1100:
        pool.append(1)
    b = rng.choice(pool)
    return b if b is None else max(1, b)


def gen_variants(rng, col, p=0.3):
    """off-default shapes of what the user callable returns (all legal for the documented interface)"""
    if col['kind'] in ('text_emb', 'image_emb'):
        if rng.random() < p:
            col['odt'] = rng.choice(ODTS[1:])
    else:
        if len(col['keys']) > 1 and rng.random() < p:
            col['ord'] = rng.choice(ORDS[1:])
        if rng.random() < p:
            col['mtype'] = rng.choice(MTYPES[1:])
    return col


def gen_col(rng, name, n, keys=None, allow_zero=False, kind=None):
    kind = kind or rng.choice(KINDS)
    col = {'name': name, 'kind': kind, 'dtype': rng.choice(DTYPES),
           'cells': [gen_cell(rng) for _ in range(n)], 'bs': gen_bs(rng, n, allow_zero)}
    if kind in ('text_emb', 'image_emb'):
        col['D'] = rng.randint(1, 4)
    else:
        col['keys'] = keys if keys is not None else rng.choice(KEYSETS)
        if kind == 'tok_map':
            col['W'] = rng.randint(0, 4)          # one 2-D tensor per key: fixed width
        else:
            col['W'] = rng.choice([None, None, rng.randint(0, 4)])
    return gen_variants(rng, col)


def gen_dataset_opts(rng, case):
    """ingredients of the Dataset path beyond the per-column configs"""
    if rng.random() < 0.35:
        case['extra'] = rng.sample(['num', 'emb', 'cat'], rng.randint(1, 2))   # other stypes next to the text columns
    if rng.random() < 0.5:
        case['order'] = rng.randrange(1 << 20)      # insertion order of col_to_stype / the config dicts / df columns
    return case


def gen_shared_case(rng):
    """one config object (one stub) for ALL columns of the stype, passed instead of a per-column dict; some columns
    carry the same raw values"""
    n = rng.randint(1, 7)
    m = rng.randint(2, 3)
    names = rng.sample(['t0', 't1', 't2', 'a_text', 'Z', 'label', 'label_prev'], m)
    proto = gen_col(rng, names[0], n, keys=rng.choice(KEYSETS))
    cols = [proto]
    for nm in names[1:]:
        c = dict(proto, name=nm, dtype=rng.choice(DTYPES))
        c['cells'] = list(proto['cells']) if rng.random() < 0.3 else [gen_cell(rng) for _ in range(n)]
        cols.append(c)
    case = {'path': 'dataset', 'n': n, 'index': rng.choice(INDEX_KINDS), 'cols': cols, 'iseed': rng.randrange(1 << 30),
            'shared': True}
    return gen_dataset_opts(rng, case)


def gen_history_case(rng, n=None):
    """ONE mapper object (one stub) applied to 2-3 series one after the other; all results are read only after the
    last call, the series are compared with identically built twins afterwards"""
    n = rng.randint(1, 6) if n is None else n
    proto = gen_col(rng, 'c0', n)
    cols = [proto]
    for k in range(1, rng.randint(2, 3)):
        c = dict(proto, name=f'c{k}', dtype=rng.choice(DTYPES))
        r = rng.random()
        if r < 0.25:
            c['cells'] = list(proto['cells'])                       # the same raw values again
        elif r < 0.5:
            c['cells'] = list(reversed(proto['cells']))
        else:
            c['cells'] = [gen_cell(rng) for _ in range(n)]
        cols.append(c)
    return {'path': 'history', 'n': n, 'index': rng.choice(INDEX_KINDS), 'cols': cols, 'iseed': rng.randrange(1 << 30)}


def gen_scale_case(rng, level):
    """one of the sizes the property quantifies over is taken from the ladder of this stress level; the other
    ingredients (missing cells, look-alikes, duplicates, index labelings, output formats) stay mixed in"""
    dim = rng.choice(['rows', 'rows', 'rows', 'calls', 'cell', 'cols', 'keys', 'width', 'rows_hist'])
    idx = rng.choice(INDEX_KINDS)
    iseed = rng.randrange(1 << 30)
    if dim in ('rows', 'calls', 'rows_hist'):
        kind = rng.choice(KINDS)
        cap = 65537 if kind in ('text_emb', 'image_emb') else 16385
        if dim == 'calls':
            cap = 1025
        n = stress.pick_size(rng, level, cap)
        if dim == 'rows_hist':
            case = gen_history_case(rng, n=min(n, 4099))
            for c in case['cols']:
                c['bs'] = gen_big_bs(rng, case['n'])
            for c in case['cols'][1:]:
                c['bs'] = case['cols'][0]['bs']
            case['scale'] = 'rows'
            return case
        col = gen_col(rng, 'c0', n, kind=kind)
        col['bs'] = 1 if dim == 'calls' else gen_big_bs(rng, n)
        if dim == 'calls' and rng.random() < 0.5:
            col['bs'] = 2
        # duplicates: a stretch of equal cells, so that a de-duplicating / caching callable path would show
        if n > 20 and rng.random() < 0.5:
            a = rng.randrange(n - 10)
            for i in range(a, a + 10):
                col['cells'][i] = col['cells'][a]
        case = {'path': 'mapper', 'n': n, 'index': idx, 'cols': [col], 'iseed': iseed, 'scale': dim}
        if col['bs'] and n * (n // col['bs']) > 5e7:
            case['oracle_only'] = True     # the list model re-slices the column per chunk: judged by the direct oracle alone
        return case
    if dim == 'cell':
        n = rng.randint(1, 6)
        col = gen_col(rng, 'c0', n)
        for _ in range(rng.randint(1, 2)):
            L = stress.pick_size(rng, level, 65537)
            unit = rng.choice(['ab', 'x', 'é ', '日', 'a\x00', '-1,', 'nan|'])
            txt = (unit * (L // len(unit) + 1))[:L]
            if rng.random() < 0.3:
                txt = txt[:-1] + '\x00'
            col['cells'][rng.randrange(n)] = {'s': txt}
        if col['kind'] in ('text_emb', 'image_emb'):
            col['odt'] = rng.choice(['f64', 'i64'])       # the stub's integers exceed 2**24
        return {'path': 'mapper', 'n': n, 'index': idx, 'cols': [col], 'iseed': iseed, 'scale': dim}
    if dim == 'cols':
        n = rng.randint(1, 4)
        m = stress.pick_size(rng, level, 1025)
        keys = rng.choice(KEYSETS)
        shared = rng.random() < 0.3
        if shared:
            proto = gen_col(rng, 't0', n, keys=keys)
            cols = [dict(proto, name=f't{i}', cells=[gen_cell(rng) for _ in range(n)]) for i in range(m)]
        else:
            cols = [gen_col(rng, f't{i}', n, keys=keys) for i in range(m)]
        case = {'path': 'dataset', 'n': n, 'index': idx, 'cols': cols, 'iseed': iseed, 'shared': shared, 'scale': dim}
        return gen_dataset_opts(rng, case)
    if dim == 'keys':
        n = rng.randint(1, 5)
        nk = stress.pick_size(rng, level, 1025)
        keys = [f'k{i}' for i in range(nk)]
        rng.shuffle(keys)
        col = gen_col(rng, 'c0', n, keys=keys, kind=rng.choice(['tok_map', 'tok_list']))
        if rng.random() < 0.5:
            col['ord'] = rng.choice(ORDS[1:])
        return {'path': 'mapper', 'n': n, 'index': idx, 'cols': [col], 'iseed': iseed, 'scale': dim}
    # width of what the callable returns per row
    n = rng.randint(1, 5)
    col = gen_col(rng, 'c0', n)
    wdt = stress.pick_size(rng, level, 16385)
    if col['kind'] in ('text_emb', 'image_emb'):
        col['D'] = wdt
    else:
        col['W'] = wdt
    return {'path': 'mapper', 'n': n, 'index': idx, 'cols': [col], 'iseed': iseed, 'scale': dim}


def volume(case):
    """rough size of a case: output cells + characters"""
    v = 0
    for col in case['cols']:
        per_row = col['D'] if 'D' in col else len(col['keys']) * (col['W'] if col['W'] is not None else 8)
        v += len(col['cells']) * max(1, per_row) + sum(len(c.get('s', '')) for c in col['cells']) * (
            1 if 'D' in col else len(col['keys']))
    return v


def gen_case(rng, level=0, scale=True):
    r = rng.random()
    if r < 0.02 and scale:
        return gen_scale_case(rng, level)
    if r < 0.02:
        r = 0.5
    if r < 0.10:
        return gen_history_case(rng)
    if r < 0.16:
        return gen_shared_case(rng)
    path = 'dataset' if rng.random() < 0.4 else 'mapper'
    if path == 'mapper':
        n = 0 if rng.random() < 0.03 else rng.randint(1, 8)
        cols = [gen_col(rng, 'c0', n, allow_zero=True)]
    else:
        n = rng.randint(1, 7)
        names = rng.sample(['t0', 't1', 't2', 'a_text', 'Z', 'label', 'label_prev', 'w', 'W'], rng.randint(1, 3))
        keys = rng.choice(KEYSETS)
        cols = [gen_col(rng, nm, n, keys=keys) for nm in names]
        if len(cols) > 1 and rng.random() < 0.25:      # two columns with the same raw values, different callables
            cols[1]['cells'] = list(cols[0]['cells'])
    case = {'path': path, 'n': n, 'index': rng.choice(INDEX_KINDS), 'cols': cols, 'iseed': rng.randrange(1 << 30)}
    if path == 'dataset':
        case['shared'] = False
        gen_dataset_opts(rng, case)
    return case


# ----------------------------------------------------------------------------- pandas rendering

def py_cell(c):
    import numpy as np
    import pandas as pd
    if 's' in c:
        return c['s']
    if c['m'] == 'nan' and c.get('np'):
        return np.float64('nan')
    return {'none': None, 'nan': float('nan'), 'na': pd.NA}[c['m']]


def make_index(kind, n, iseed):
    import random
    r = random.Random(iseed)
    if kind in ('range', 'sliced'):
        return None
    if kind == 'offset':
        return list(range(5, 5 + n))
    if kind == 'dup':
        return [i // 2 for i in range(n)]
    if kind == 'shuffled':
        xs = list(range(n))
        r.shuffle(xs)
        return xs
    if kind == 'str':
        return [f'r{(i * 7) % 5}' for i in range(n)]
    if kind == 'neg':
        return [-(i + 1) for i in range(n)]
    if kind == 'const':
        return [0] * n
    if kind == 'bigint':
        return [2 ** 40 + 3 * i for i in range(n)]
    if kind == 'float':
        return [0.5 * i - 1.0 for i in range(n)]
    raise ValueError(kind)


def _interleave(vals):
    """vals at the even positions of a twice as long list (the odd ones hold other text)"""
    out = []
    for i, v in enumerate(vals):
        out += [v, f'junk{i}']
    return out


def make_series(col, index_kind, n, iseed):
    import pandas as pd
    dt = {'object': object, 'str': 'str', 'string': 'string'}[col['dtype']]
    vals = [py_cell(c) for c in col['cells']]
    if index_kind == 'sliced':       # a strided view of a longer column
        return pd.Series(_interleave(vals), dtype=dt).iloc[::2]
    ser = pd.Series(vals, dtype=dt)
    idx = make_index(index_kind, n, iseed)
    if idx is not None:
        ser.index = idx
    return ser


def series_fingerprint(ser):
    """what must be unchanged after a call: dtype, index labels and every cell (missing cells by kind)"""
    return (str(ser.dtype), [repr(x) for x in ser.index.tolist()], [repr(v) for v in ser.tolist()])


# ----------------------------------------------------------------------------- stub callables

def ords(s):
    return [ord(ch) for ch in s]


def emb_f(d, s):
    o = ords(s)
    full = [len(s), sum(o), sum((i + 1) * x for i, x in enumerate(o)) % 1009] + [7] * d
    return full[:d]


def tok_g(keys, w, s, k):
    j = keys.index(k)
    base = [x + j for x in ords(s)]
    if w is None:
        return base
    return (base + [0] * w)[:w]


def key_order(mode, keys, s):
    """insertion order of the keys of the mapping built for sentence s (re-implemented in Drivers/C16.lean)"""
    if mode == 'rev':
        return list(reversed(keys)) if len(s) % 2 == 1 else list(keys)
    if mode == 'rot':
        r = sum(ords(s)) % max(1, len(keys))
        return list(keys[r:]) + list(keys[:r])
    return list(keys)


def as_mapping(mtype, pairs):
    import collections
    import types
    if mtype == 'ordered':
        return collections.OrderedDict(pairs)
    if mtype == 'userdict':
        return collections.UserDict(pairs)
    if mtype == 'proxy':
        return types.MappingProxyType(dict(pairs))
    return dict(pairs)


def _as_text(x):
    """the stubs must not crash on a non-string (that is exactly what the check wants to see and report)"""
    return x if isinstance(x, str) else repr(x)


class Recorder:
    def __init__(self):
        self.calls = []          # list of lists (elements as given)
        self.containers = []     # type name of each argument container

    def note(self, xs):
        self.containers.append(type(xs).__name__)
        self.calls.append(list(xs))

    def summary(self, a=0, b=None):
        sel = self.calls[a:b]
        calls = [[x if isinstance(x, str) else {'non_str': type(x).__name__, 'repr': repr(x)} for x in c]
                 for c in sel]
        types = sorted({type(x).__name__ for c in sel for x in c})
        return {'calls': calls, 'argtypes': types, 'containers': sorted(set(self.containers[a:b]))}


def make_stub(col, rec):
    import torch
    kind = col['kind']
    if kind in ('text_emb', 'image_emb'):
        d = col['D']
        odt = col.get('odt', 'f32')

        def emb(xs):
            rec.note(xs)
            rows = [emb_f(d, _as_text(x)) for x in xs]
            dt = {'f32': torch.float32, 'f64': torch.float64, 'i64': torch.int64}[odt]
            if dt == torch.float32 and any(v > 2 ** 24 for r in rows for v in r[:3]):
                dt = torch.float64       # the stub's output must be exactly the integers of emb_f
            return torch.tensor(rows, dtype=dt).reshape(len(rows), d)
        return emb
    keys, w = col['keys'], col['W']
    mode, mtype = col.get('ord', 'fixed'), col.get('mtype', 'dict')
    if kind == 'tok_map':
        def tok(xs):
            rec.note(xs)
            ks = key_order(mode, keys, _as_text(xs[0])) if len(xs) else list(keys)
            return as_mapping(mtype, [(k, torch.tensor([tok_g(keys, w, _as_text(x), k) for x in xs],
                                                       dtype=torch.long).reshape(len(xs), w)) for k in ks])
        return tok

    def tok(xs):
        rec.note(xs)
        return [as_mapping(mtype, [(k, torch.tensor(tok_g(keys, w, _as_text(x), k), dtype=torch.long))
                                   for k in key_order(mode, keys, _as_text(x))]) for x in xs]
    return tok


# ----------------------------------------------------------------------------- canonical representations

def ints(t):
    out = []
    for v in t.reshape(-1).tolist():
        if float(v) != math.floor(float(v)):
            raise ValueError(f'non-integral value {v}')
        out.append(int(v))
    return out


def met_repr(met):
    vals = met.values
    return {'R': int(met.num_rows), 'C': int(met.num_cols), 'W': int(vals.shape[1]) if vals.dim() == 2 else -1,
            'values': [ints(r) for r in vals], 'offset': [int(v) for v in met.offset.tolist()]}


def mnt_repr(mnt):
    return {'R': int(mnt.num_rows), 'C': int(mnt.num_cols), 'values': ints(mnt.values),
            'offset': [int(v) for v in mnt.offset.tolist()]}


def met_column(met, j):
    """column j of a merged MultiEmbeddingTensor as a stand-alone one-column container"""
    a, b = int(met.offset[j]), int(met.offset[j + 1])
    return {'R': int(met.num_rows), 'C': 1, 'W': b - a, 'values': [ints(r[a:b]) for r in met.values],
            'offset': [0, b - a]}


def mnt_column(mnt, j):
    R, C = int(mnt.num_rows), int(mnt.num_cols)
    off = [int(v) for v in mnt.offset.tolist()]
    vals = ints(mnt.values)
    cells = [vals[off[i * C + j]:off[i * C + j + 1]] for i in range(R)]
    o, acc = [0], 0
    for c in cells:
        acc += len(c)
        o.append(acc)
    return {'R': R, 'C': 1, 'values': [v for c in cells for v in c], 'offset': o}


def rows_of(out, col):
    """per-row python lists of an 'ok' outcome: embed -> list of rows; tok -> {key: list of rows}"""
    if col['kind'] in ('text_emb', 'image_emb'):
        return out['values']
    res = {}
    for k, m in out:
        res[k] = [m['values'][m['offset'][i]:m['offset'][i + 1]] for i in range(m['R'])]
    return res


# ----------------------------------------------------------------------------- running the real code

def _canon_out(col, raw):
    if raw is None:
        return 'raises'
    try:
        if col['kind'] in ('text_emb', 'image_emb'):
            want = {'f32': 'torch.float32', 'f64': 'torch.float64', 'i64': 'torch.int64'}[col.get('odt', 'f32')]
            got = str(raw.values.dtype)
            if got != want:      # "row i is the callable's output for row i" - batched or not - includes its dtype
                return {'dtype-changed': [want, got]}
            return {'ok': met_repr(raw)}
        return {'ok': [[k, mnt_repr(m)] for k, m in raw.items()]}
    except Exception:
        return 'raises'


def run_mapper(col, ser, bs='case'):
    from torch_frame.data.mapper import EmbeddingTensorMapper, TextTokenizationTensorMapper
    quiet_progress_bars()
    rec = Recorder()
    stub = make_stub(col, rec)
    b = col['bs'] if bs == 'case' else bs
    try:
        if col['kind'] in ('text_emb', 'image_emb'):
            raw = EmbeddingTensorMapper(stub, b).forward(ser)
        else:
            raw = TextTokenizationTensorMapper(stub, b).forward(ser)
    except Exception:
        raw = None
    res = rec.summary()
    res['out'] = _canon_out(col, raw)
    return res


def run_history(case):
    """one mapper object, one stub; forward() on each series in turn; every result is canonicalised only after the
    last call; the series are compared with identically built twins"""
    from torch_frame.data.mapper import EmbeddingTensorMapper, TextTokenizationTensorMapper
    quiet_progress_bars()
    col0 = case['cols'][0]
    rec = Recorder()
    stub = make_stub(col0, rec)
    mapper = (EmbeddingTensorMapper(stub, col0['bs']) if col0['kind'] in ('text_emb', 'image_emb')
              else TextTokenizationTensorMapper(stub, col0['bs']))
    raws, spans, sers = [], [], []
    for col in case['cols']:
        ser = make_series(col, case['index'], case['n'], case['iseed'])
        sers.append(ser)
        a = len(rec.calls)
        try:
            raws.append(mapper.forward(ser))
        except Exception:
            raws.append(None)
        spans.append((a, len(rec.calls)))
    res = {}
    for col, raw, (a, b), ser in zip(case['cols'], raws, spans, sers):
        r = rec.summary(a, b)
        r['out'] = _canon_out(col, raw)
        twin = make_series(col, case['index'], case['n'], case['iseed'])
        r['input_intact'] = series_fingerprint(ser) == series_fingerprint(twin)
        res[col['name']] = r
    return res


def expected_strings(col, index_kind, n, iseed):
    """str() of every cell as pandas hands it out (the property's "string rendering")"""
    ser = make_series(col, index_kind, n, iseed)
    return [c['s'] if 's' in c else str(v) for c, v in zip(col['cells'], ser.tolist())]


def run_dataset(case):
    import random
    import pandas as pd
    import torch_frame
    from torch_frame import stype
    from torch_frame.config import ImageEmbedderConfig, TextEmbedderConfig, TextTokenizerConfig
    from torch_frame.data import Dataset
    quiet_progress_bars()
    n = case['n']
    sliced = case['index'] == 'sliced'
    shared = bool(case.get('shared'))
    data, c2s, emb_cfg, img_cfg, tok_cfg, recs = {}, {}, {}, {}, {}, {}
    rec0 = Recorder()
    stub0 = make_stub(case['cols'][0], rec0) if shared else None
    dts = {}
    for col in case['cols']:
        data[col['name']] = [py_cell(c) for c in col['cells']]
        dts[col['name']] = {'object': object, 'str': 'str', 'string': 'string'}[col['dtype']]
        rec = rec0 if shared else Recorder()
        recs[col['name']] = rec
        stub = stub0 if shared else make_stub(col, rec)
        if col['kind'] == 'text_emb':
            c2s[col['name']] = stype.text_embedded
            emb_cfg[col['name']] = TextEmbedderConfig(text_embedder=stub, batch_size=col['bs'])
        elif col['kind'] == 'image_emb':
            c2s[col['name']] = stype.image_embedded
            img_cfg[col['name']] = ImageEmbedderConfig(image_embedder=stub, batch_size=col['bs'])
        else:
            c2s[col['name']] = stype.text_tokenized
            tok_cfg[col['name']] = TextTokenizerConfig(text_tokenizer=stub, batch_size=col['bs'])
    for x in case.get('extra', []):       # other stypes next to the text columns (the embedding parent may be present)
        if x == 'num':
            data['x_num'], dts['x_num'] = [0.5 * i - 1 for i in range(n)], 'float64'
            c2s['x_num'] = stype.numerical
        elif x == 'cat':
            data['x_cat'], dts['x_cat'] = [['u', 'v', '-1'][i % 3] for i in range(n)], object
            c2s['x_cat'] = stype.categorical
        elif x == 'emb':
            data['a_emb'], dts['a_emb'] = [[0.5, float(i)] for i in range(n)], object
            c2s['a_emb'] = stype.embedding
    if sliced:                # the frame is a strided view of a twice as long frame
        text = {c['name'] for c in case['cols']}
        df = pd.DataFrame({k: pd.Series(_interleave(v) if k in text else [x for x in v for _ in (0, 1)], dtype=dts[k])
                           for k, v in data.items()}).iloc[::2]
    else:
        df = pd.DataFrame({k: pd.Series(v, dtype=dts[k]) for k, v in data.items()})
    if 'order' in case:       # insertion orders of the frame's columns, of col_to_stype and of the config dicts
        r = random.Random(case['order'])
        cols_order = list(df.columns)
        r.shuffle(cols_order)
        df = df[cols_order]

        def shuf(d):
            ks = list(d)
            r.shuffle(ks)
            return {k: d[k] for k in ks}
        c2s, emb_cfg, img_cfg, tok_cfg = shuf(c2s), shuf(emb_cfg), shuf(img_cfg), shuf(tok_cfg)
    idx = make_index(case['index'], n, case['iseed'])
    if idx is not None:
        df.index = idx
    for col in case['cols']:   # the frame must really carry the dtype the case asks for
        want = {'object': 'object', 'str': 'str', 'string': 'string'}[col['dtype']]
        assert str(df[col['name']].dtype) == want, (str(df[col['name']].dtype), want)
    if shared:                 # one config object for every column of the stype
        emb_cfg = next(iter(emb_cfg.values()), None)
        img_cfg = next(iter(img_cfg.values()), None)
        tok_cfg = next(iter(tok_cfg.values()), None)
    try:
        ds = Dataset(df, c2s, col_to_text_embedder_cfg=emb_cfg or None, col_to_text_tokenizer_cfg=tok_cfg or None,
                     col_to_image_embedder_cfg=img_cfg or None).materialize()
        tf = ds.tensor_frame
    except Exception:
        return 'raises'
    spans = {}
    if shared:
        # the shared stub saw the calls of all columns one column after the other; every column makes the same
        # number of calls; a block is attributed to the not yet served column whose text it carries (columns with
        # equal text are interchangeable), else to the remaining columns in order
        m = len(case['cols'])
        q, rem = divmod(len(rec0.calls), m)
        left = [c['name'] for c in case['cols']]
        want = {c['name']: expected_strings(c, 'range', n, 0) for c in case['cols']}
        blocks = [(k * q, (k + 1) * q) for k in range(m)] if rem == 0 else [(0, len(rec0.calls))] + [(0, 0)] * (m - 1)
        pending = []
        for a, b in blocks:
            flat = [x for c in rec0.calls[a:b] for x in c]
            hit = next((nm for nm in left if want[nm] == flat), None)
            if hit is None:
                pending.append((a, b))
            else:
                spans[hit] = (a, b)
                left.remove(hit)
        for nm, ab in zip(left, pending):
            spans[nm] = ab
    sort_keys = any(c.get('ord', 'fixed') != 'fixed' for c in case['cols'])
    res = {}
    for col in case['cols']:
        name = col['name']
        r = recs[name].summary(*spans.get(name, (0, None)))
        try:
            if col['kind'] in ('text_emb', 'image_emb'):
                j = tf.col_names_dict[torch_frame.embedding].index(name)
                r['out'] = {'ok': met_column(tf.feat_dict[torch_frame.embedding], j)}
            else:
                j = tf.col_names_dict[stype.text_tokenized].index(name)
                feat = tf.feat_dict[stype.text_tokenized]
                kms = [[k, mnt_column(feat[k], j)] for k in feat.keys()]
                # the key order of the merged dict is that of the first converted column; with per-sentence key
                # orders it is not a per-column quantity: compared as a set of keys
                r['out'] = {'ok': sorted(kms, key=lambda km: km[0]) if sort_keys else kms}
        except Exception:
            r['out'] = 'raises'
        res[name] = r
    return res


def model_request(col):
    req = {'dtype': col['dtype'], 'cells': [{k: v for k, v in c.items() if k in ('s', 'm')} for c in col['cells']],
           'bs': col['bs'], 'kind': 'embed' if col['kind'] in ('text_emb', 'image_emb') else col['kind']}
    if req['kind'] == 'embed':
        req['D'] = col['D']
    else:
        req['keys'] = col['keys']
        req['W'] = col['W']
        if col.get('ord', 'fixed') != 'fixed':
            req['ord'] = col['ord']
    return req


def model_col_outcome(reply):
    calls = reply['calls']
    if calls == 'raises':
        calls = []
    return {'calls': calls, 'argtypes': ['str'] if any(len(c) for c in calls) else [],
            'containers': ['list'] if calls else [], 'out': reply['out']}

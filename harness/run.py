import importlib
import sys


def main():
    if len(sys.argv) < 2:
        print('usage: check <property id> [quick|thorough] [--replay path]')
        return 2
    pid = sys.argv[1].upper()
    from harness import core
    core.ensure_repo_import()
    mod = importlib.import_module(f'harness.props.{pid.lower()}')
    return mod.CHECK.main(sys.argv[2:])


if __name__ == '__main__':
    sys.exit(main())

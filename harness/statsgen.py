"""C03 helper: abstract column generators, rendering to pandas, running the real statistics code, canonicalisers
and the textbook oracle (fractions.Fraction), independent of the Lean model.

A case is a JSON object
  {'stype': ..., 'family': ..., 'cells': [...], 'mode': 'direct' | 'dataset' | 'target', 'index': ..., + per-stype keys}
The abstract cells are the ground truth; pandas objects are *rendered* from them:
  numerical          cells: float | 'inf' | '-inf' | None           dtype: float64 | float32 | int64 | Int64
  sequence_numerical cells: None | [float | 'inf' | '-inf' | 'nan']
  categorical        cells: None | str   (kind 'str', dtype object | str)   or   None | int (kind 'int')
  multicategorical   cells: None | str  (mc_mode 'sep', sep, dtype object | str)   or   None | [str] (mc_mode 'list')
  timestamp          cells: None | int epoch seconds | 'garbage'    fmt: a strftime format | None (ISO, auto) | 'datetime64'
  embedding          cells: None | [float]  (equal widths)
"""
import datetime
import json
import math
import warnings
from fractions import Fraction

from harness import core, stress
from harness import matgen as mg

# the Lean model sorts by structural insertion sort (quadratic, recursion as deep as the list): columns with more
# usable values / rows than this are judged by the textbook oracle only
MODEL_VALUES = 4200

FLOAT_POOL = [0.0, 1.0, -1.0, 2.0, 3.0, -5.0, 4.0, 0.5, 2.25, -3.5, 0.1, 0.2, 0.3, 1e6, -1e-3, 1e-8, 123456.789,
              7.0, 10.0, -2.0, 1e-300, 6.02e23]
CAT_VOCAB = ['a', 'b', 'c', 'd', '', ' a', 'A', 'é', '日本', 'long category name', '0', 'nan', 'None',
             '-1', '<NA>', 'a\x00', '\x00', ' ', 'sports', 'sportswear', 'É', 'NaN', '-1.0']
TOKENS = ['x', ' x', 'y ', 'z', 'w', 'x y', 'é', 'Z', '', 'sports', 'sportswear', 'X', '-1', 'nan', 'None', 'a\x00',
          'x/y', 'y,z', 'p|q', 'u;v']
FORMATS = ['%Y-%m-%d %H:%M:%S', '%Y-%m-%d', '%Y/%m/%d', '%d.%m.%Y %H:%M', None, 'datetime64']
# float64 payloads at the edges (sums stay finite): not float32-exact, > 2^24, sentinel look-alikes, denormal
SPECIAL_NUM = [0.1, 1.0 / 3.0, 2.0 ** 24 + 1, 1700000001.0, 1e39, -1e39, 5e-324, -0.0, 0.5, -0.5, -1.0, 2.0 ** 31 + 1,
               3.0e38, 1e-38, 2.0 ** 53, 0.0, 1.0]
EPOCH = datetime.datetime(1970, 1, 1)


# --------------------------------------------------------------------------- generation

def _idx(rng, n):
    return rng.choice([None, None, 'offset', 'perm', 'dup', 'str', 'perm', 'multiindex', 'datetime', 'bigint', 'spread']) if n > 0 else None


def gen_numerical(rng, fam=None, size=None):
    fam = fam or rng.choice(['random', 'random', 'random', 'inf_only', 'all_missing', 'constant', 'single', 'ints', 'ints', 'two',
                             'long', 'mixed_inf', 'special', 'bigint'])
    n = rng.randint(1, 12)
    dtype = 'float64'
    if fam == 'scale':
        # a size from the ladder; integers and eighths, so that every partial sum is exact in double precision
        n = size
        pool = [float(rng.randint(-1000, 1000)) for _ in range(rng.choice([3, 40, 1000]))] + [0.125, -2.5, 0.5, -1.0]
        cells = [rng.choice([None, 'inf', '-inf']) if rng.random() < .1 else rng.choice(pool) for _ in range(n)]
        if all(isinstance(c, float) and c.is_integer() and abs(c) < 120 for c in cells if c is not None) or rng.random() < .3:
            cells = [None if c is None or isinstance(c, str) else float(int(c)) for c in cells]
            dtype = rng.choice(['Int64', 'Int32', 'Float64'])
    elif fam == 'bigint':
        # an int64 column of epoch-nanosecond magnitude without a missing cell (stays int64 in pandas): the exact
        # sum leaves the int64 range from 6 rows on; every value is a multiple of 2**11, hence an exact double
        n = rng.randint(6, 14)
        base = rng.choice([1_700_000_000_000_000_000, 1_500_000_000_000_000_000, -1_650_000_000_000_000_000])
        base -= base % 2048
        cells = [float(base + 2048 * rng.randint(-10 ** 6, 10 ** 6)) for _ in range(n)]
        dtype = 'int64'
    elif fam == 'special':
        cells = [None if rng.random() < .15 else rng.choice(SPECIAL_NUM) for _ in range(n)]
        dtype = rng.choice(['float64', 'float64', 'Float64'])
    elif fam == 'random':
        cells = [rng.choice([None, 'inf', '-inf']) if rng.random() < .25 else rng.choice(FLOAT_POOL) for _ in range(n)]
    elif fam == 'mixed_inf':
        cells = [rng.choice(['inf', '-inf', None, rng.choice(FLOAT_POOL)]) for _ in range(n)]
    elif fam == 'inf_only':
        cells = [rng.choice(['inf', '-inf'] + ([None] if rng.random() < .5 else [])) for _ in range(n)]
    elif fam == 'all_missing':
        cells = [None] * n
    elif fam == 'constant':
        c = rng.choice(FLOAT_POOL)
        cells = [c] * n + ([None] if rng.random() < .3 else [])
        rng.shuffle(cells)
    elif fam == 'single':
        cells = [None] * rng.randint(0, 4) + [rng.choice(FLOAT_POOL)]
        rng.shuffle(cells)
    elif fam == 'two':
        cells = [rng.choice(FLOAT_POOL), rng.choice(FLOAT_POOL)]
    elif fam == 'long':
        n = rng.randint(13, 60)
        cells = [None if rng.random() < .1 else rng.choice(FLOAT_POOL[:14]) for _ in range(n)]
    else:  # ints
        nonneg = rng.random() < .3
        cells = [float(rng.randint(0 if nonneg else -6, 6)) for _ in range(n)]
        dtype = rng.choice(['int64', 'Int64', 'float64', 'Int32', 'int32', 'int16', 'Float64', 'Int8'] +
                           (['uint8', 'UInt8'] if nonneg else []))
        if dtype[0] in 'IUF':
            cells = [None if rng.random() < .25 else c for c in cells]
    return {'stype': 'numerical', 'family': fam, 'dtype': dtype, 'cells': cells}


def _f32(x):
    import struct
    try:
        return struct.unpack('f', struct.pack('f', x))[0]
    except OverflowError:
        return None


def gen_sequence(rng, fam=None, size=None):
    fam = fam or rng.choice(['random', 'random', 'random', 'all_empty', 'all_missing', 'nonfinite_only', 'single', 'ints',
                             'special'])
    n = rng.randint(1, 9)
    pool = FLOAT_POOL[:16] if fam != 'special' else SPECIAL_NUM
    if fam == 'scale':
        # one sequence with a ladder-sized number of entries (exact sums) among ordinary short ones
        big = [rng.choice(['nan', 'inf']) if rng.random() < .05 else float(rng.randint(-50, 50)) / 8 for _ in range(size)]
        cells = [None if rng.random() < .2 else [float(rng.randint(-4, 4)) for _ in range(rng.randint(0, 4))] for _ in range(n)]
        cells.insert(rng.randint(0, len(cells)), big)
        return {'stype': 'sequence_numerical', 'family': fam, 'cells': cells, 'int_elems': False}

    def elem():
        r = rng.random()
        if r < .12:
            return 'nan'
        if r < .2:
            return rng.choice(['inf', '-inf'])
        return rng.choice(pool)
    if fam in ('random', 'special'):
        cells = [None if rng.random() < .2 else [elem() for _ in range(rng.randint(0, 4))] for _ in range(n)]
    elif fam == 'all_empty':
        cells = [None if rng.random() < .3 else [] for _ in range(n)]
    elif fam == 'all_missing':
        cells = [None] * n
    elif fam == 'nonfinite_only':
        cells = [None if rng.random() < .2 else [rng.choice(['nan', 'inf', '-inf']) for _ in range(rng.randint(0, 3))]
                 for _ in range(n)]
    elif fam == 'single':
        cells = [rng.choice([None, []]) for _ in range(rng.randint(0, 3))] + [[rng.choice(pool)]]
        rng.shuffle(cells)
    else:
        cells = [None if rng.random() < .2 else [float(rng.randint(-4, 4)) for _ in range(rng.randint(0, 4))]
                 for _ in range(n)]
    return {'stype': 'sequence_numerical', 'family': fam, 'cells': cells, 'int_elems': fam == 'ints' and rng.random() < .5}


def gen_categorical(rng, fam=None, size=None, long=None):
    fam = fam or rng.choice(['random', 'random', 'ties', 'constant', 'single', 'all_missing', 'two_classes', 'skew'])
    kind = rng.choice(['str', 'str', 'int'])
    if kind == 'str':
        vocab = rng.sample(CAT_VOCAB, rng.randint(2, 6))
    else:
        vocab = rng.sample(range(-3, 9), rng.randint(2, 6)) if rng.random() < .8 else rng.sample(mg.INT_SPECIAL + [5, 6], rng.randint(2, 6))
    n = rng.randint(1, 14)
    miss = rng.choice([0.0, 0.2, 0.5])
    if fam == 'scale':
        # a ladder-sized number of distinct categories (mixed case, prefix relations, sentinel look-alikes), massive ties
        kind = rng.choice(['str', 'str', 'int'])
        vocab = mg.synth_values(rng, size, long) if kind == 'str' else rng.sample(range(-5, 4 * size), size)
        cells = list(vocab) + [None if rng.random() < .1 else vocab[min(int(rng.random() ** 3 * size), size - 1)]
                               for _ in range(rng.choice([0, 3, size // 2]))]
        rng.shuffle(cells)
    elif fam == 'random':
        cells = [None if rng.random() < miss else rng.choice(vocab) for _ in range(n)]
    elif fam == 'skew':
        w = [2 ** -i for i in range(len(vocab))]
        cells = [None if rng.random() < miss else rng.choices(vocab, w)[0] for _ in range(n)]
    elif fam == 'ties':
        k = rng.randint(1, 3)
        cells = [v for v in vocab for _ in range(k)] + [None] * rng.randint(0, 2)
        if rng.random() < .5:
            cells += [vocab[0]]
        rng.shuffle(cells)
    elif fam == 'constant':
        cells = [vocab[0]] * n + [None] * rng.randint(0, 2)
        rng.shuffle(cells)
    elif fam == 'single':
        cells = [None] * rng.randint(0, 3) + [vocab[0]]
        rng.shuffle(cells)
    elif fam == 'two_classes':
        a, b = vocab[0], vocab[1]
        cells = [a] * rng.randint(1, 6) + [b] * rng.randint(1, 6) + [None] * rng.randint(0, 2)
        rng.shuffle(cells)
    else:
        cells = [None] * n
    if kind == 'str':
        dtype = rng.choice(['object', 'str', 'object', 'str', 'category', 'string'])
    else:
        big = any(c is not None and abs(c) >= 2 ** 31 - 1 for c in cells)
        dtype = rng.choice(['int', 'int', 'Int64', 'category'] + ([] if big else ['Int32']))
    case = {'stype': 'categorical', 'family': fam, 'kind': kind, 'dtype': dtype, 'cells': cells}
    if dtype == 'category':
        case['cat_order'] = rng.choice(['sorted', 'reversed', 'shuffled'])
        case['ordered'] = rng.random() < .3
    return case


def gen_multicategorical(rng, fam=None, size=None, what=None):
    fam = fam or rng.choice(['random', 'random', 'random', 'all_blank', 'all_missing', 'dups', 'ties', 'single'])
    mode = rng.choice(['sep', 'sep', 'list'])
    sep = rng.choice(['|', ',', ';', '||', ', ', '/'])
    toks = [t for t in rng.sample(TOKENS, rng.randint(2, 6))]
    if mode == 'sep':
        toks = [t for t in toks if all(ch not in t for ch in sep)] or ['x', 'y']
    n = rng.randint(1, 10)
    if fam == 'scale':
        # ladder-sized token pool / one cell with a ladder-sized number of tokens / ladder-long tokens
        k = size if what == 'pool' else rng.choice([3, 17])
        toks = mg.synth_tokens(rng, k, sep if mode == 'sep' else None, size if what == 'celllen' else None)
        m = size if what == 'tokens' else None
        cells = [None if rng.random() < .15 else [rng.choice(toks) for _ in range(rng.randint(0, 4))] for _ in range(n)]
        if m:
            cells[rng.randrange(n)] = [rng.choice(toks) for _ in range(m)]
        if what == 'pool':
            for t in toks:
                i = rng.randrange(n)
                cells[i] = (cells[i] or []) + [t]
        if mode == 'sep':
            cells = [None if c is None else sep.join((' ' if rng.random() < .05 else '') + t for t in c) for c in cells]
        dtype = rng.choice(['object', 'str']) if mode == 'sep' else 'object'
        return {'stype': 'multicategorical', 'family': fam, 'mc_mode': mode, 'sep': sep if mode == 'sep' else None,
                'dtype': dtype, 'cells': cells, 'box': rng.choice(['list', 'tuple', 'ndarray']) if mode == 'list' else None}

    def cell(k=None):
        k = rng.randint(0, 4) if k is None else k
        ts = [rng.choice(toks) for _ in range(k)]
        return sep.join(ts) if mode == 'sep' else ts
    if fam == 'random':
        cells = [None if rng.random() < .2 else cell() for _ in range(n)]
    elif fam == 'all_blank':
        cells = [rng.choice([None, '', ' ', '  ']) if mode == 'sep' else rng.choice([None, []]) for _ in range(n)]
    elif fam == 'all_missing':
        cells = [None] * n
    elif fam == 'dups':
        t = rng.choice(toks)
        cells = [None if rng.random() < .15 else (sep.join([t] * rng.randint(1, 3) + [rng.choice(toks)]) if mode == 'sep'
                                                 else [t] * rng.randint(1, 3) + [rng.choice(toks)]) for _ in range(n)]
    elif fam == 'ties':
        cells = [(t if mode == 'sep' else [t]) for t in toks for _ in range(2)]
        rng.shuffle(cells)
    else:
        cells = [None] * rng.randint(0, 2) + [cell(rng.randint(1, 3))]
        rng.shuffle(cells)
    dtype = rng.choice(['object', 'str']) if mode == 'sep' else 'object'
    if mode == 'sep' and not any(c is None for c in cells) and rng.random() < .2:
        dtype = 'string'        # (pd.NA-backed: only without missing cells, see observed_outside_generated_domain)
    return {'stype': 'multicategorical', 'family': fam, 'mc_mode': mode, 'sep': sep if mode == 'sep' else None,
            'dtype': dtype, 'cells': cells, 'box': rng.choice(['list', 'list', 'tuple', 'ndarray', 'set']) if mode == 'list' else None}


def gen_timestamp(rng, fam=None, size=None):
    fam = fam or rng.choice(['random', 'random', 'random', 'even', 'odd', 'all_missing', 'all_garbage', 'single', 'same_year',
                             'duplicates'])
    fmt = rng.choice(FORMATS)
    n = rng.randint(1, 11)
    r = None
    if rng.random() < .45 or fam == 'scale':
        # the renderer of harness/matgen.py: %f / %z text, datetime64[s|ms|us|ns] with sub-second parts, tz-aware
        # datetime64, object columns of datetime / Timestamp.  The abstract cell is the wall-clock second as written.
        kind = rng.choice(['str', 'str', 'dt64', 'dt64tz', 'dt64tz', 'pyobj'])
        f = rng.choice([x for x in mg.TIME_FORMATS if x[2] == 1 and (x[3] or x[4] or fam == 'scale')])
        r = {'kind': kind, 'fmt': f[0], 'pyfmt': f[1], 'dtype': rng.choice(['object', 'str', 'string']), 'unit': rng.choice(['s', 'ms', 'us', 'ns']),
             'na': rng.choice(['None', 'nan']), 'frac': None, 'tz': None}
        if kind == 'str':
            r['frac'] = rng.randint(0, 6) if f[3] else None
            r['tz'] = rng.choice(mg.TZ_MINUTES) if f[4] else None
        else:
            r['fmt'] = r['pyfmt'] = None
            r['frac'] = rng.randint(0, 6) if (r['unit'] != 's' and rng.random() < .7) else None
            if kind == 'dt64tz':
                r['tzname'] = rng.choice(mg.TZ_NAMES)
            if kind == 'pyobj':
                r.update(unit='us', pyobj=rng.choice(['datetime', 'Timestamp']), tz=rng.choice([None, rng.choice(mg.TZ_MINUTES)]),
                         frac=rng.choice([None, rng.randint(0, 6)]))
        fmt = r['fmt'] if kind == 'str' else 'datetime64'

    def t():
        d = datetime.datetime(rng.randint(1700, 2200), rng.randint(1, 12), rng.randint(1, 28),
                              rng.randint(0, 23), rng.randint(0, 59), rng.randint(0, 59))
        if rng.random() < .15:   # month / year ends
            d = rng.choice([d.replace(month=12, day=31, hour=23, minute=59, second=59), d.replace(month=1, day=1, hour=0, minute=0, second=0),
                            d.replace(year=d.year - d.year % 4, month=2, day=28) + datetime.timedelta(days=1)])
        if fmt in ('%Y-%m-%d', '%Y/%m/%d'):
            d = d.replace(hour=0, minute=0, second=0)
        if fmt == '%d.%m.%Y %H:%M':
            d = d.replace(second=0)
        return int((d - EPOCH).total_seconds())
    bad = (lambda: rng.choice([None, 'garbage'])) if fmt != 'datetime64' else (lambda: None)
    if fam == 'scale':
        # a ladder-sized number of unsorted times with repeats and missing entries
        base = [t() for _ in range(rng.choice([5, 50, size]))]
        cells = [bad() if rng.random() < .1 else rng.choice(base) for _ in range(size)]
    elif fam == 'random':
        cells = [bad() if rng.random() < .25 else t() for _ in range(n)]
    elif fam in ('even', 'odd'):
        k = 2 * rng.randint(1, 4) + (1 if fam == 'odd' else 0)
        cells = [t() for _ in range(k)] + [bad() for _ in range(rng.randint(0, 2))]
        rng.shuffle(cells)
    elif fam == 'all_missing':
        cells = [None] * n
    elif fam == 'all_garbage':
        cells = [bad() for _ in range(n)]
    elif fam == 'single':
        cells = [bad() for _ in range(rng.randint(0, 3))] + [t()]
        rng.shuffle(cells)
    elif fam == 'same_year':
        y = rng.randint(1700, 2200)
        cells = [int((datetime.datetime(y, rng.randint(1, 12), rng.randint(1, 28)) - EPOCH).total_seconds())
                 for _ in range(n)]
    else:
        base = [t() for _ in range(rng.randint(1, 3))]
        cells = [rng.choice(base) for _ in range(n)]
    case = {'stype': 'timestamp', 'family': fam, 'fmt': fmt, 'cells': cells}
    if r is not None:
        case['r'] = r
    return case


def gen_embedding(rng, fam=None, size=None):
    fam = fam or rng.choice(['random', 'random', 'missing_first', 'all_missing', 'single', 'width0'])
    w = rng.randint(1, 5) if fam != 'width0' else 0
    n = rng.randint(1, 8)
    if fam == 'scale':
        w, fam2 = size, rng.choice(['random', 'missing_first'])
    else:
        fam2 = fam

    def vec():
        return [rng.choice(FLOAT_POOL[:12]) for _ in range(w)]
    if fam2 == 'random':
        cells = [vec() for _ in range(n)]
    elif fam2 == 'missing_first':
        cells = [None] * rng.randint(1, 2) + [None if rng.random() < .3 else vec() for _ in range(n)] + [vec()]
    elif fam == 'all_missing':
        cells = [None] * n
    elif fam == 'single':
        cells = [vec()]
    else:
        cells = [vec() for _ in range(n)]
    return {'stype': 'embedding', 'family': fam, 'cells': cells, 'box': rng.choice(['list', 'list', 'ndarray', 'tuple', 'ndarray32'])}


def gen_text_embedded(rng):
    n = rng.randint(1, 6)
    cells = [None if rng.random() < .15 else rng.choice(['some text', 'more', '', 'x y z']) for _ in range(n)]
    return {'stype': 'text_embedded', 'family': 'stub_embedder', 'dtype': rng.choice(['object', 'str']), 'cells': cells,
            'width': rng.randint(1, 6)}


GENS = {'text_embedded': gen_text_embedded, 'numerical': gen_numerical, 'sequence_numerical': gen_sequence, 'categorical': gen_categorical,
        'multicategorical': gen_multicategorical, 'timestamp': gen_timestamp, 'embedding': gen_embedding}
ORDER = ['numerical', 'categorical', 'multicategorical', 'sequence_numerical', 'timestamp', 'embedding']


SCALE_KINDS = [('numerical', None), ('categorical', None), ('timestamp', None), ('sequence_numerical', None),
               ('multicategorical', 'pool'), ('multicategorical', 'tokens'), ('multicategorical', 'celllen'),
               ('categorical', 'celllen'), ('embedding', None), ('numerical', None), ('timestamp', None)]


def gen_scaled(rng, level, which, top=False):
    """a column with ONE dimension from the size ladder of the stress level (rows / usable values, categories, token
    pool, tokens per cell, cell length, sequence length, embedding width)"""
    st, what = SCALE_KINDS[which % len(SCALE_KINDS)]
    cap = 4097 if (st == 'embedding' and level < 2) else None
    if top:
        size = max(x for x in stress.ladder(level) if cap is None or x <= cap) + rng.choice([0, 1, 2])
    else:
        size = stress.pick_size(rng, level, cap)
    if st == 'numerical':
        case = gen_numerical(rng, 'scale', size)
    elif st == 'categorical':
        if what == 'celllen':
            case = gen_categorical(rng, 'scale', rng.choice([3, 9]), long=size)
        else:
            case = gen_categorical(rng, 'scale', size)
    elif st == 'timestamp':
        case = gen_timestamp(rng, 'scale', size)
    elif st == 'sequence_numerical':
        case = gen_sequence(rng, 'scale', size)
    elif st == 'multicategorical':
        case = gen_multicategorical(rng, 'scale', size, what)
    else:
        case = gen_embedding(rng, 'scale', size)
    case['scale'] = [what or {'numerical': 'rows', 'categorical': 'categories', 'timestamp': 'rows',
                              'sequence_numerical': 'seqlen', 'embedding': 'embwidth'}[st], size]
    return _finish(rng, case)


def gen_case(rng):
    st = rng.choice(ORDER) if rng.random() > .04 else 'text_embedded'
    return _finish(rng, GENS[st](rng))


def _finish(rng, case):
    st = case['stype']
    n = len(case['cells'])
    case['index'] = _idx(rng, n)
    case['index_seed'] = rng.randint(0, 10 ** 6)
    modes = ['direct', 'dataset']
    if st == 'categorical' and any(c is not None for c in case['cells']):
        modes += ['target', 'target']
    if st == 'embedding' and any(c is None for c in case['cells']):
        modes = ['direct']          # a missing embedding cell cannot be materialized (np.stack) - outside C03
    case['mode'] = rng.choice(modes)
    if st in ('embedding', 'text_embedded') and case['mode'] == 'dataset' and n > 0:
        # a second column of the embedding group placed before 'c', so that the block offsets are not trivial
        case['extra_emb_width'] = rng.choice([None, 1, 2, 3, 7])
    if rng.random() < .25:
        case['twice'] = True        # history: the statistics are computed a second time from the same Series object
    if st == 'multicategorical' and case.get('mc_mode') == 'sep' and rng.random() < .2:
        # the same raw texts go through the statistics under ANOTHER separator first (shared raw values, other configuration)
        case['prelude_sep'] = rng.choice([x for x in ['|', ',', ';', '/', ' '] if x != case['sep']])
    if st == 'timestamp' and case.get('fmt') not in (None, 'datetime64') and rng.random() < .2:
        case['prelude_fmt'] = rng.choice([x for x in ['%d/%m/%Y %H:%M:%S', '%m/%d/%Y %H:%M:%S', '%Y-%m-%d'] if x != case['fmt']])
    return case


def model_feasible(case):
    st, cells = case['stype'], case['cells']
    if len(cells) > MODEL_VALUES:
        return False
    if st == 'sequence_numerical':
        return sum(len(c) for c in cells if c) <= MODEL_VALUES
    if st == 'multicategorical':
        return sum((len(c) if isinstance(c, list) else c.count(case['sep']) + 1) for c in cells if c) <= MODEL_VALUES
    if st == 'embedding':
        return sum(len(c) for c in cells if c) <= 40000
    return True


# --------------------------------------------------------------------------- rendering

def _flt(c):
    if c is None or c == 'nan':
        return float('nan')
    if c == 'inf':
        return float('inf')
    if c == '-inf':
        return float('-inf')
    return float(c)


def render_time(secs, fmt):
    d = EPOCH + datetime.timedelta(seconds=secs)
    if fmt is None:
        return d.strftime('%Y-%m-%d %H:%M:%S')
    # strftime pads years < 1000 inconsistently across platforms; years here are >= 1700
    return d.strftime(fmt)


def index_for(case):
    import random
    n = len(case['cells'])
    kind = case.get('index')
    r = random.Random(case.get('index_seed', 0))
    if kind is None or n == 0:
        return None
    if kind == 'offset':
        return list(range(5, 5 + n))
    if kind == 'perm':
        p = list(range(n))
        r.shuffle(p)
        return p
    if kind == 'dup':
        return [r.randint(0, max(0, n // 2)) for _ in range(n)]
    if kind == 'spread':
        return r.sample(range(-10 ** 6, 10 ** 7), n)
    if kind == 'bigint':
        p = [2 ** 40 + i for i in range(n)]
        r.shuffle(p)
        return p
    if kind == 'multiindex':
        import pandas as pd
        return pd.MultiIndex.from_tuples([(r.randint(0, 2), r.choice('abc')) for _ in range(n)])
    if kind == 'datetime':
        import pandas as pd
        return pd.DatetimeIndex(pd.to_datetime([f'20{r.randint(10, 30)}-{r.randint(1, 12):02d}-{r.randint(1, 28):02d}' for _ in range(n)]))
    return [f'r{r.randint(0, 99)}_{i}' for i in range(n)]


def render(case):
    """abstract column -> (pandas Series, stype, sep, time_format)"""
    import numpy as np
    import pandas as pd
    import torch_frame
    st = case['stype']
    cells = case['cells']
    idx = index_for(case)
    sep = fmt = None
    if st == 'numerical':
        dt = case['dtype']
        if dt in ('float64', 'float32'):
            ser = pd.Series([_flt(c) for c in cells], dtype=dt, index=idx)
        elif dt == 'Float64':
            ser = pd.Series([pd.NA if c is None else _flt(c) for c in cells], dtype=dt, index=idx)
        elif dt[0] in 'iu':
            ser = pd.Series([int(c) for c in cells], dtype=dt, index=idx)
        else:
            ser = pd.Series([None if c is None else int(c) for c in cells], dtype=dt, index=idx)
    elif st == 'sequence_numerical':
        conv = (lambda x: int(x) if case.get('int_elems') and not isinstance(x, str) else _flt(x))
        ser = pd.Series([None if c is None else [conv(x) for x in c] for c in cells], dtype=object, index=idx)
    elif st == 'categorical':
        if case['dtype'] == 'category':
            col = {'stype': 'categorical', 'cells': cells, 'r': {'dtype': 'category', 'cat_order': case.get('cat_order'),
                                                                 'cat_seed': case.get('index_seed', 0), 'ordered': case.get('ordered')}}
            ser = pd.Series(mg.render_cells(col)[0], index=idx)
        elif case['dtype'] in ('string', 'Int64', 'Int32'):
            ser = pd.Series([pd.NA if c is None else c for c in cells], dtype=case['dtype'], index=idx)
        elif case['kind'] == 'str':
            ser = pd.Series(list(cells), dtype=object, index=idx)
            if case['dtype'] == 'str':
                ser = ser.astype('str') if not any(c is None for c in cells) else pd.Series(list(cells), dtype='str', index=idx)
        else:
            if any(c is None for c in cells):
                ser = pd.Series(list(cells), dtype=object, index=idx)
            else:
                ser = pd.Series(list(cells), dtype='int64', index=idx)
    elif st == 'multicategorical':
        sep = case['sep']
        if case['mc_mode'] == 'sep':
            ser = pd.Series(list(cells), dtype=case['dtype'] if case['dtype'] in ('str', 'string') else object, index=idx)
        else:
            box = {'tuple': tuple, 'set': set, 'ndarray': lambda c: np.array(list(c), dtype=object)}.get(case.get('box'), list)
            ser = mg._series([None if c is None else box(c) for c in cells], 'object', idx)
    elif st == 'timestamp':
        fmt = case['fmt']
        if case.get('r'):
            col = {'stype': 'timestamp', 'r': case['r'], 'cells': [{'bad': c} if c == 'garbage' else c for c in cells]}
            vals, dt = mg.render_cells(col)
            ser = mg._series(vals, dt, idx)
            fmt = case['r']['fmt'] if case['r']['kind'] == 'str' else None
        elif fmt == 'datetime64':
            vals = [pd.NaT if c is None else (EPOCH + datetime.timedelta(seconds=c)) for c in cells]
            ser = pd.Series(pd.to_datetime(pd.Series(vals, dtype=object), errors='coerce').values, index=idx)
            fmt = None
        else:
            ser = pd.Series([c if (c is None or c == 'garbage') else render_time(c, fmt) for c in cells],
                            dtype=object, index=idx)
    elif st == 'embedding':
        box = {'ndarray': lambda c: np.array(c, dtype='float64'), 'ndarray32': lambda c: np.array(c, dtype='float32'),
               'tuple': tuple}.get(case.get('box'), list)
        ser = mg._series([None if c is None else box([float(x) for x in c]) for c in cells], 'object', idx)
    elif st == 'text_embedded':
        ser = pd.Series(list(cells), dtype='str' if case['dtype'] == 'str' else object, index=idx)
    else:
        raise ValueError(st)
    return ser, getattr(torch_frame.stype, st), sep, fmt


# --------------------------------------------------------------------------- canonical outcomes of the real code

def _num(x):
    x = float(x)
    return None if math.isnan(x) else x


def _plain(v):
    """category value -> JSON value (str stays str, numpy ints -> int, integral floats -> int)"""
    import numpy as np
    if isinstance(v, str):
        return v
    if isinstance(v, (bool, np.bool_)):
        return bool(v)
    if isinstance(v, (int, np.integer)):
        return int(v)
    if isinstance(v, (float, np.floating)) and float(v).is_integer():
        return int(v)
    return repr(v)


def canon_counts(pair, exact_order=False):
    cats, counts = pair
    cats = [_plain(c) for c in cats]
    counts = [int(c) for c in counts]
    if exact_order:
        return {'list': [[c, k] for c, k in zip(cats, counts)]}
    return {'pairs': sorted(([c, k] for c, k in zip(cats, counts)), key=lambda p: (str(type(p[0])), p[0])),
            'nonincr': all(a >= b for a, b in zip(counts, counts[1:])),
            'nodup': len(set(cats)) == len(cats) and len(cats) == len(counts),
            'accepted': True}


def canon_stats(stats, stype_name, exact_order=False):
    from torch_frame.data.stats import StatType
    if stype_name in ('numerical', 'sequence_numerical'):
        return {'mean': _num(stats[StatType.MEAN]), 'std': _num(stats[StatType.STD]),
                'q': [_num(x) for x in stats[StatType.QUANTILES]], 'keys': sorted(k.name for k in stats)}
    if stype_name == 'categorical':
        d = canon_counts(stats[StatType.COUNT], exact_order)
        d['keys'] = sorted(k.name for k in stats)
        return d
    if stype_name == 'multicategorical':
        d = canon_counts(stats[StatType.MULTI_COUNT])
        d['keys'] = sorted(k.name for k in stats)
        return d
    if stype_name == 'timestamp':
        tl = lambda t: [int(x) for x in (t.tolist() if hasattr(t, 'tolist') else t)]
        return {'yr': [int(x) for x in stats[StatType.YEAR_RANGE]], 'new': tl(stats[StatType.NEWEST_TIME]),
                'old': tl(stats[StatType.OLDEST_TIME]), 'med': tl(stats[StatType.MEDIAN_TIME]),
                'keys': sorted(k.name for k in stats)}
    if stype_name == 'embedding':
        return {'dim': int(stats[StatType.EMB_DIM]), 'keys': sorted(k.name for k in stats)}
    if stype_name == 'text_embedded':
        d = {'keys': sorted(k.name for k in stats)}
        if StatType.EMB_DIM in stats:
            d['dim'] = int(stats[StatType.EMB_DIM])
        return d
    raise ValueError(stype_name)


def observed_lists(stats, stype_name):
    from torch_frame.data.stats import StatType
    key = StatType.COUNT if stype_name == 'categorical' else StatType.MULTI_COUNT
    cats, counts = stats[key]
    return [_plain(c) for c in cats], [int(c) for c in counts]


def run_real(case):
    """-> canonical outcome {'direct': ..., 'dataset': ..., 'bridge': ..., 'obs': ...}"""
    import pandas as pd
    import torch_frame
    from torch_frame.data import Dataset
    from torch_frame.data.stats import compute_col_stats
    st = case['stype']
    out = {'direct': None, 'dataset': None, 'bridge': None, 'obs': None, 'obs_ds': None}
    with warnings.catch_warnings():
        warnings.simplefilter('ignore')
        ser, stype, sep, fmt = render(case)
        before = ser.copy(deep=True)
        try:
            if case.get('prelude_sep'):
                compute_col_stats(ser, stype, sep=case['prelude_sep'])
            if case.get('prelude_fmt'):
                compute_col_stats(ser, stype, time_format=case['prelude_fmt'])
        except Exception:  # noqa   (the prelude's own outcome is not judged)
            pass
        try:
            stats = compute_col_stats(ser, stype, sep=sep, time_format=fmt)
            out['direct'] = canon_stats(stats, st)
            if st in ('categorical', 'multicategorical'):
                out['obs'] = observed_lists(stats, st)
        except Exception as e:  # noqa
            out['direct'] = 'raises'
            out['direct_error'] = f'{type(e).__name__}: {e}'[:200]
        if case.get('twice') and out['direct'] != 'raises':
            try:
                again = canon_stats(compute_col_stats(ser, stype, sep=sep, time_format=fmt), st)
                out['second_call'] = 'same' if json.dumps(again, sort_keys=True, default=str) == \
                    json.dumps(out['direct'], sort_keys=True, default=str) else 'differs'
            except Exception as e:  # noqa
                out['second_call'] = f'raises {type(e).__name__}'
        try:
            same = before.equals(ser) or (before.isna() == ser.isna()).all() and before.astype(str).equals(ser.astype(str))
        except Exception:
            same = True
        out['input_unchanged'] = bool(same)
        if case['mode'] in ('dataset', 'target'):
            try:
                if st == 'text_embedded':
                    import torch
                    from torch_frame.config.text_embedder import TextEmbedderConfig
                    w = case['width']
                    cfg = TextEmbedderConfig(text_embedder=lambda xs: torch.ones(len(xs), w), batch_size=None)
                    cols, sts = {'c': ser}, {'c': stype}
                    if case.get('extra_emb_width'):
                        cols['a'] = pd.Series([[0.5] * case['extra_emb_width'] for _ in range(len(ser))], index=ser.index)
                        sts['a'] = torch_frame.embedding
                    ds = Dataset(pd.DataFrame(cols), sts, col_to_text_embedder_cfg=cfg)
                elif case['mode'] == 'dataset':
                    cols, sts = {'c': ser}, {'c': stype}
                    if case.get('extra_emb_width'):
                        cols['a'] = pd.Series([[0.5] * case['extra_emb_width'] for _ in range(len(ser))], index=ser.index)
                        sts['a'] = torch_frame.embedding
                    ds = Dataset(pd.DataFrame(cols), sts, col_to_sep=sep, col_to_time_format=fmt)
                else:
                    df = pd.DataFrame({'c': ser, 'f': pd.Series([float(i) for i in range(len(ser))], index=ser.index)})
                    ds = Dataset(df, {'c': stype, 'f': torch_frame.numerical}, target_col='c')
                ds.materialize()
                stats = ds.col_stats['c']
                two = case['mode'] == 'target' and st == 'categorical' and len(stats[list(stats)[0]][0]) == 2
                out['dataset'] = canon_stats(stats, st, exact_order=two)
                tf = ds.tensor_frame
                if st == 'categorical':
                    out['obs_ds'] = observed_lists(stats, st)
                    t = tf.y if case['mode'] == 'target' else tf.feat_dict[torch_frame.categorical][:, 0]
                    out['bridge'] = [int(x) for x in t.tolist()]
                elif st == 'multicategorical':
                    out['obs_ds'] = observed_lists(stats, st)
                    mnt = tf.feat_dict[torch_frame.multicategorical]
                    out['bridge'] = [sorted(int(x) for x in mnt[i, 0].tolist()) for i in range(mnt.num_rows)]
            except Exception as e:  # noqa
                out['dataset'] = 'raises'
                out['dataset_error'] = f'{type(e).__name__}: {e}'[:200]
    return out


# --------------------------------------------------------------------------- textbook oracle (no Lean, no numpy)

def usable_values(case):
    st = case['stype']
    if st == 'numerical':
        return [c for c in case['cells'] if c is not None and not isinstance(c, str)]
    return [x for c in case['cells'] if c is not None for x in c if not isinstance(x, str)]


def _close(a, b, scale):
    if a is None or b is None:
        return a is None and b is None
    return abs(a - b) <= 1e-9 * max(abs(a), abs(b)) + 1e-12 * scale


def textbook_num(vals, dtype=None):
    """mean, population std, five quantiles by linear interpolation at (n-1)q - exact rational arithmetic"""
    if dtype == 'float32':
        vals = [_f32(v) for v in vals]
    if not vals:
        return {'mean': None, 'std': None, 'q': [None] * 5}
    fr = [Fraction(v) for v in vals]
    n = len(fr)
    m = sum(fr) / n
    var = sum((x - m) ** 2 for x in fr) / n
    s = sorted(fr)
    qs = []
    for k in range(5):
        pos = Fraction((n - 1) * k, 4)
        lo = pos.numerator // pos.denominator
        hi = min(lo + 1, n - 1)
        qs.append(float(s[lo] + (pos - lo) * (s[hi] - s[lo])))
    return {'mean': float(m), 'std': math.sqrt(var), 'q': qs}


def textbook_counts(case):
    from collections import Counter
    cells = case['cells']
    if case['stype'] == 'categorical':
        return Counter(c for c in cells if c is not None)
    cnt = Counter()
    for c in cells:
        if c is None:
            continue
        if case['mc_mode'] == 'sep':
            if c.strip() == '':
                continue
            toks = {t.strip() for t in c.split(case['sep'])}
        else:
            toks = set(c)
        cnt.update(toks)
    return cnt


def comps(secs):
    d = EPOCH + datetime.timedelta(seconds=secs)
    return [d.year, d.month - 1, d.day - 1, d.weekday(), d.hour, d.minute, d.second]


def textbook_time(case):
    good = sorted(c for c in case['cells'] if c is not None and c != 'garbage')
    if not good:
        return {'yr': [-1, -1], 'new': [-1] * 7, 'old': [-1] * 7, 'med': [-1] * 7}
    years = [comps(t)[0] for t in good]
    return {'yr': [min(years), max(years)], 'new': comps(good[-1]), 'old': comps(good[0]),
            'med': comps(good[len(good) // 2])}


def oracle(case, real):
    """direct check of the property's text on the real outcome; returns (key, what, expected, actual) or None"""
    st = case['stype']
    fam = case['family']
    for where in ('direct', 'dataset'):
        got = real.get(where)
        if got is None:
            continue
        if got == 'raises':
            return (f'{st}/{where}/raises', f'{where} statistics of a {st} column ({fam}) raise: '
                    f'{real.get(where + "_error")}', 'statistics or the documented defaults', 'raises')
        if st in ('numerical', 'sequence_numerical'):
            vals = usable_values(case)
            exp = textbook_num(vals, case.get('dtype'))
            scale = max([1.0] + [abs(v) for v in vals])
            for k in ('mean', 'std'):
                if not _close(got[k], exp[k], scale):
                    return (f'{st}/{k}', f'{k} of a {st} column differs from its definition over the finite non-missing values',
                            exp, got)
            if len(got['q']) != 5 or any(not _close(a, b, scale) for a, b in zip(got['q'], exp['q'])):
                return (f'{st}/quantiles', 'quantiles differ from linear interpolation at (n-1)q', exp, got)
        elif st in ('categorical', 'multicategorical'):
            cnt = textbook_counts(case)
            if 'list' in got:
                exp = [[k, cnt[k]] for k in sorted(cnt)]
                if got['list'] != exp:
                    return (f'{st}/binary-target-order', 'two-class target not listed in sorted class order with exact counts',
                            exp, got['list'])
            else:
                exp = sorted(([k, v] for k, v in cnt.items()), key=lambda p: (str(type(p[0])), p[0]))
                if got['pairs'] != exp:
                    return (f'{st}/counts', 'listed values / counts differ from the exact occurrence counts', exp, got['pairs'])
                if not got['nonincr']:
                    return (f'{st}/order', 'counts are not in non-increasing order', 'non-increasing', got)
                if not got['nodup']:
                    return (f'{st}/dup', 'a value is listed twice', 'distinct values', got)
        elif st == 'timestamp':
            exp = textbook_time(case)
            for k in ('yr', 'old', 'new', 'med'):
                if got[k] != exp[k]:
                    return (f'{st}/{k}', f'{k} differs from its definition over the sorted non-missing times', exp, got)
        elif st == 'embedding':
            ws = [len(c) for c in case['cells'] if c is not None]
            exp = ws[0] if ws else -1
            if got['dim'] != exp:
                return (f'{st}/dim', 'EMB_DIM differs from the vector width', exp, got['dim'])
        elif st == 'text_embedded':
            exp = {'keys': []} if where == 'direct' else {'keys': ['EMB_DIM'], 'dim': case['width']}
            if got != exp:
                return (f'{st}/dim', 'EMB_DIM of a text_embedded column is not the width of its embeddings', exp, got)
    # bridge: the i-th listed category is the one encoded as index i
    if real.get('bridge') is not None and real.get('obs_ds') is not None:
        cats = real['obs_ds'][0]
        pos = {}
        for i, k in enumerate(cats):
            pos.setdefault(k, i)           # (== list.index: position of the first listing)
        if st == 'categorical':
            exp = [-1 if c is None else pos.get(c, -1) for c in case['cells']]
        else:
            exp = []
            for c in case['cells']:
                if c is None:
                    exp.append([-1])
                    continue
                if case['mc_mode'] == 'sep':
                    toks = set() if c.strip() == '' else {t.strip() for t in c.split(case['sep'])}
                else:
                    toks = set(c)
                exp.append(sorted(pos[t] for t in toks if t in pos))
        if real['bridge'] != exp:
            return (f'{st}/index-space', 'the i-th listed category is not the one encoded as index i in the TensorFrame',
                    exp, real['bridge'])
    if real.get('second_call') not in (None, 'same'):
        return (f'{st}/second-call', 'computing the statistics a second time from the same Series gives another result',
                'the same statistics', real['second_call'])
    if not real.get('input_unchanged', True):
        return (f'{st}/mutates', 'compute_col_stats modified its input series', 'unchanged', 'changed')
    return None


def probe_outside_domain():
    """inputs the hardening families touched but that are NOT generated, with what the live code does on them"""
    import numpy as np
    import pandas as pd
    import torch_frame
    from torch_frame.data.stats import compute_col_stats, StatType
    out = []

    def run(what, why, ser, st, show, **kw):
        try:
            with warnings.catch_warnings():
                warnings.simplefilter('ignore')
                obs = show(compute_col_stats(ser, st, **kw))
        except Exception as e:   # noqa
            obs = f'raises {type(e).__name__}: {str(e)[:140]}'
        out.append({'input': what, 'observed': str(obs)[:300], 'why_not_generated': why})
    run("numerical column [1.7e308, 1.7e308]", 'the float64 sum overflows (mean = inf, std = nan): finite arithmetic of numpy, not the '
        'definition; generated magnitudes keep every partial sum finite',
        pd.Series([1.7e308, 1.7e308]), torch_frame.numerical, lambda s: (s[StatType.MEAN], s[StatType.STD]))
    run("numerical column of dtype float32 / float16", 'numpy accumulates in the column\'s own precision; compared only in float64',
        pd.Series([0.1, 0.2, 0.3], dtype='float32'), torch_frame.numerical, lambda s: s[StatType.MEAN])
    run("categorical column pd.Categorical(['b','a',None], categories=['c','zz','b','a'])",
        'unused declared categories are listed with count 0 (see C02); generated CategoricalDtype columns declare exactly the observed values',
        pd.Series(pd.Categorical(['b', 'a', None], categories=['c', 'zz', 'b', 'a'])), torch_frame.categorical, lambda s: s[StatType.COUNT])
    run("timestamp text column with two different UTC offsets under '%Y-%m-%d %H:%M:%S %z'",
        'pandas.to_datetime refuses mixed offsets without utc=True; one offset per column is generated',
        pd.Series(['2001-12-31 23:00:00 +0530', '1999-12-31 23:59:59 -0800'], dtype=object), torch_frame.timestamp,
        lambda s: s[StatType.YEAR_RANGE], time_format='%Y-%m-%d %H:%M:%S %z')
    run("timestamp column in a zone with daylight-saving transitions (e.g. datetime64[ns, Europe/Berlin])",
        'wall-clock order and instant order differ inside the repeated hour; only fixed-offset zones are generated',
        pd.Series(pd.to_datetime(['2021-10-31 00:30:00', '2021-10-31 01:30:00'])).dt.tz_localize('UTC').dt.tz_convert('Europe/Berlin'),
        torch_frame.timestamp, lambda s: s[StatType.NEWEST_TIME].tolist())
    run("numerical column pd.Series([True, False, True])", 'np.quantile cannot subtract booleans; not a numerical column',
        pd.Series([True, False, True]), torch_frame.numerical, lambda s: s[StatType.QUANTILES])
    return out

"""Stress dimensions shared by the checks, and the source-fingerprint escalation.

The correspondence between the hand-written Lean model and /repo is behavioural and sampled.  Sampling small
random inputs cannot reach code paths that are gated by a size threshold, an unusual dtype, object reuse or a
longer history.  Every check therefore draws a few of its cases from the families below on every run, and many
more of them when

  * the tier is `thorough`, or
  * the source files the property is anchored in differ (AST-normalised: comments, docstrings and formatting
    ignored) from the fingerprint recorded in harness/fingerprints.json for the tree the model was validated
    against.  A changed source is NOT a violation and raises no alarm by itself; it only makes the quick tier
    spend its budget where a changed code path could hide (level 1 below).

stress level: 0 = quick on an unchanged source, 1 = quick on a changed source (escalated), 2 = thorough.
"""
import ast
import hashlib
import json
import os

VERIF = os.path.dirname(os.path.dirname(os.path.abspath(__file__)))
FP_FILE = os.path.join(VERIF, 'harness', 'fingerprints.json')

# sizes just above the thresholds at which libraries switch algorithms (sort stability, small-int caching,
# vectorised fast paths, uint8 / int16 wrap-around, block sizes)
LADDER_SMALL = [17, 33, 65, 101, 129, 257]          # (+ just above round decimal block sizes: 100, 1000, ...)
LADDER_MID = [513, 1001, 1025, 2001, 2049, 4097]
LADDER_BIG = [10001, 16385, 32769, 65537]

# float payloads that survive float32 exactly but sit at the edges
SPECIAL_F32 = [0.0, -0.0, 1.0, -1.0, 0.5, -0.5, 2.0 ** 24, 2.0 ** 24 + 2, -2.0 ** 31, 3.0e38, -3.0e38, 1e-38,
               float('inf'), float('-inf')]
# float64-only payloads (not representable in float32 / overflowing it)
SPECIAL_F64 = [0.1, 1.0 / 3.0, 2.0 ** 24 + 1, 1700000001.0, 1e39, -1e39, 1.7e308, 5e-324]
# strings that look like sentinels or break naive renderers
SPECIAL_STR = ['-1', 'nan', 'None', '<NA>', '0', '', ' ', 'a\x00', '\x00', 'A', 'a', 'É', 'é', 'sports', 'sportswear']


def ladder(level):
    if level <= 0:
        return LADDER_SMALL
    if level == 1:
        return LADDER_SMALL + LADDER_MID
    return LADDER_SMALL + LADDER_MID + LADDER_BIG


def pick_size(rng, level, cap=None):
    """a size from the ladder of this level (optionally capped), +0/+1/+2 jitter"""
    xs = [x for x in ladder(level) if cap is None or x <= cap] or [min(ladder(0)[0], cap or 17)]
    x = rng.choice(xs)
    if x % 100 == 1:          # decimal rungs (101, 1001, 2001, 10001) are exact: "one more than a round block size"
        return x
    return x + rng.choice([0, 0, 1, 2])


# ---------------------------------------------------------------------------------- memory layout

def fortran(t):
    """the same 2-D tensor in column-major layout (strides (1, rows)) - what torch.from_numpy(df[cols].to_numpy())
    and .t() hand to the library; reshape(-1) of such a tensor is a COPY, so code that writes through a flattened
    'view' silently loses the write"""
    if getattr(t, 'dim', None) is None or t.dim() != 2 or t.size(0) < 2 or t.size(1) < 2:
        return t
    return t.t().contiguous().t()


def wants_fortran(obj, one_in=5):
    """deterministic (replayable) choice derived from the case content: about one object in `one_in`"""
    h = hashlib.sha1(json.dumps(obj, sort_keys=True, default=str).encode()).hexdigest()
    return int(h[:8], 16) % one_in == 0


# ---------------------------------------------------------------------------------- fingerprints

class _Strip(ast.NodeTransformer):
    def _doc(self, node):
        self.generic_visit(node)
        b = getattr(node, 'body', None)
        if b and isinstance(b[0], ast.Expr) and isinstance(getattr(b[0], 'value', None), ast.Constant) \
                and isinstance(b[0].value.value, str):
            node.body = b[1:] or [ast.Pass()]
        return node
    visit_FunctionDef = visit_AsyncFunctionDef = visit_ClassDef = visit_Module = _doc


def file_fingerprint(path):
    try:
        tree = _Strip().visit(ast.parse(open(path).read()))
        return hashlib.sha1(ast.dump(tree, include_attributes=False).encode()).hexdigest()[:16]
    except Exception as e:   # noqa
        return f'unparsable:{type(e).__name__}'


def anchored_files(pid):
    for l in open(os.path.join(VERIF, 'properties.jsonl')):
        p = json.loads(l)
        if p['id'] == pid:
            return sorted(set(p['anchors'].get('files', [])))
    return []


# files every property depends on through shared machinery
COMMON = ['torch_frame/data/multi_tensor.py', 'torch_frame/data/multi_nested_tensor.py',
          'torch_frame/data/multi_embedding_tensor.py', 'torch_frame/data/tensor_frame.py']


def package_files(repo):
    out = []
    for root, _, files in os.walk(os.path.join(repo, 'torch_frame')):
        for f in files:
            if f.endswith('.py'):
                out.append(os.path.relpath(os.path.join(root, f), repo))
    return sorted(out)


def current(repo, pid):
    """fingerprints of every source file of the package (a property can be broken from a file it is not anchored
    in, e.g. a shared helper); the anchored ones are only reported first"""
    return {f: file_fingerprint(os.path.join(repo, f)) for f in package_files(repo)}


def changed_files(repo, pid):
    """anchored source files whose AST differs from the recorded fingerprint (or that are not recorded)"""
    try:
        rec = json.load(open(FP_FILE))['all']
    except Exception:   # noqa
        rec = {}
    cur = current(repo, pid)
    ch = [f for f, h in cur.items() if rec.get(f) != h] + [f for f in rec if f not in cur]
    anch = set(anchored_files(pid) + COMMON)
    return sorted(ch, key=lambda f: (f not in anch, f))


def record_all(repo):
    out = {}
    out['all'] = current(repo, None)
    json.dump(out, open(FP_FILE, 'w'), indent=1, sort_keys=True)
    return out


if __name__ == "__main__":   # run with /venv/bin/python (ast.dump differs between Python versions)
    import sys
    r = record_all(sys.argv[1] if len(sys.argv) > 1 else '/repo')
    print('recorded fingerprints of', len(r['all']), 'source files')

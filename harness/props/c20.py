"""C20 - GBDT adapters preserve the table; metrics and guards follow their definitions."""
import math

from harness import core, gbdt


class C20(core.Check):
    pid = 'C20'
    title = 'GBDT adapters, metrics, guards'
    driver = 'drv_c20'
    quick_cases = 9000
    thorough_cases = 80000
    rule = ('55% conversions: real TensorFrames (0-5 rows; any subset of categorical 1-4 cols / numerical 1-4 cols / '
            'embedding 1-3 cols of width 1-3, inserted in random dict order; 0-5 ignored stypes; missing rate '
            '0/15/40/100%; y absent, float or int) through the real _to_xgboost_input/_to_catboost_input/'
            '_to_lightgbm_input of instantiated adapters; 30% compute_metric calls (rmse/mae/accuracy x task, float64 '
            'vectors of length 0-12, binary scores at and around 0.5, 4% mismatched lengths); 15% guard histories '
            '(1-7 calls of tune/predict/save/load on a GBDT subclass with trivial hooks, and predict/save on fresh '
            'XGBoost/CatBoost/LightGBM objects). Non-trivial: a conversion that returns a matrix with >=1 cell, a '
            'metric on >=1 element, a history with >=1 guarded call; distinct = distinct case hash. Every run also '
            'enumerates all (class, task, metric|None) constructor calls. Hardening families: float64 numerical / '
            'embedding / target tensors with float64-only payloads (0.1, 2^24+1, 1700000001, 1e39, 5e-324), float32 edge '
            'payloads (-1.0 as a legal value, -0.0, 2^24+2, +-2^127, +-inf), int8/16/32 categorical tensors, category '
            'indices up to 70 000 (and > 2^24 for CatBoost / LightGBM), targets in bool / uint8 / int16 / int32; frames cut '
            'out of a longer frame by an index tensor / a slice, column-major storage; ONE adapter object converting '
            'other frames before and same-shaped frames after the observed one, the result read after the last call; '
            'metric arguments in integer / bool dtypes, as strided views of one buffer, the same call repeated; guard '
            'histories of up to 4 097 calls with a late first fit, failing loads, another object of the class fitted '
            'meanwhile, all three task types; 2% scale cases from the stress ladder (rows up to 65 537, columns per '
            'stype, embedding width, vector length)')
    partial_notes = (
        'ROC-AUC and R2 are delegated to scikit-learn (not installed): the model marks them external, no theorem '
        'and no comparison covers their value',
        'float rounding of the metrics: theorems are over an ordered field; the real float64 result is compared with '
        'the float64 model and with a textbook formula at rel 1e-9 + abs 1e-12',
        'category indices above 2^24 would be rounded by XGBoost\'s cast to float32 (outside the domain: indices are '
        'smaller than the number of categories)',
        'tune() itself (Optuna search) and the fitted models are outside the model: the guard state machine takes the '
        'outcome of the subclass hooks _tune/_load as an input',
    )

    @property
    def assumptions(self):
        base = ['xgboost/catboost/lightgbm/optuna/sklearn are not installed: the adapter classes are instantiated '
                'and only their conversion, metric, constructor and guard code is executed (none of it imports them)']
        if gbdt.STUBBED:
            base.append(f'module names stubbed in sys.modules of the harness process: {gbdt.STUBBED}')
        return tuple(base)

    # ------------------------------------------------------------------ generation
    def generate(self, rng, n, tier):
        budget = {0: 1.0e6, 1: 6.0e6, 2: 1.0e7}[self.level]      # volume (matrix cells / vector entries / calls) of the scale cases
        for _ in range(n):
            r = rng.random()
            if r < 0.55:
                lib = rng.choice(gbdt.LIBS)
                case = None
                if rng.random() < 0.02:
                    fr = gbdt.gen_scale_frame(rng, self.level, lib)
                    vol = max(fr['R'], 1) * max(gbdt.expected_width(fr), 1)
                    if vol <= budget:
                        budget -= vol
                        case = {'kind': 'convert', 'lib': lib, 'frame': fr}
                if case is None:
                    case = {'kind': 'convert', 'lib': lib, 'frame': gbdt.gen_frame(rng, self.level, None, lib)}
                fr = case['frame']
                if rng.random() < 0.3 and fr['R'] <= 300:
                    # history on ONE adapter object: other frames are converted before / after the observed one; the
                    # observed result is read only after the last conversion
                    case['before'] = [gbdt.gen_frame(rng, self.level, None, lib) for _ in range(rng.randint(0, 2))]
                    case['after'] = [gbdt.twin_frame(rng, fr) for _ in range(rng.randint(1, 2))]
                yield case
            elif r < 0.85:
                c = gbdt.gen_metric(rng, self.level)
                if len(c['pred']) > 16:
                    if len(c['pred']) * 4 > budget:
                        c = gbdt.gen_metric(rng, -1)
                    else:
                        budget -= len(c['pred']) * 4
                c['kind'] = 'metric'
                yield c
            else:
                cls = rng.choice(['stub', 'stub', 'stub', 'XGBoost', 'CatBoost', 'LightGBM'])
                ops = gbdt.gen_ops(rng, self.level)
                if len(ops) > 16:
                    if len(ops) * 20 > budget:
                        ops = ops[:7]
                    else:
                        budget -= len(ops) * 20
                if cls != 'stub':       # the hooks of the real adapters need the third-party packages
                    ops = [o for o in ops if o['op'] in ('predict', 'save', 'other_tune')] or [{'op': 'predict'}]
                yield {'kind': 'guards', 'cls': cls, 'ops': ops,
                       'task': rng.choice(['regression', 'regression', 'binary_classification', 'multiclass_classification'])}

    # ------------------------------------------------------------------ the real code
    def real(self, case):
        import torch
        g = gbdt.import_gbdt()
        from torch_frame import Metric, TaskType
        if case['kind'] == 'convert':
            tf = gbdt.build_frame(case['frame'])
            case['model_frame'] = gbdt.model_frame(case['frame'], tf)
            snap = {k: (v.clone() if isinstance(v, torch.Tensor) else v.values.clone())
                    for k, v in tf.feat_dict.items() if not isinstance(v, dict)}
            try:
                obj = gbdt.new_adapter(case['lib'])
                for f0 in case.get('before', []):
                    try:
                        gbdt.convert_raw(obj, case['lib'], gbdt.build_frame(f0))
                    except Exception:  # noqa  (a frame with none of the three stypes is rejected)
                        pass
                raw = gbdt.convert_raw(obj, case['lib'], tf)
                early = gbdt.canon_converted(case['lib'], raw) if case.get('after') else None
                for f1 in case.get('after', []):
                    gbdt.convert_raw(obj, case['lib'], gbdt.build_frame(f1))
                out = gbdt.canon_converted(case['lib'], raw)
                if early is not None and early != out:
                    out['changed_by_later_call'] = True
            except Exception as e:  # noqa
                self._last_exc = f'{type(e).__name__}: {e}'
                return 'raises'
            for k, v in snap.items():
                cur = tf.feat_dict[k]
                cur = cur if isinstance(cur, torch.Tensor) else cur.values
                if not torch.equal(torch.nan_to_num(cur.double(), nan=12345.0),
                                   torch.nan_to_num(v.double(), nan=12345.0)):
                    out['modified'] = str(k)
            return out
        if case['kind'] == 'metric':
            obj = g.GBDT(TaskType(case['task']), metric=Metric(case['metric']))
            tdt = getattr(torch, case.get('target_dt', 'float64'))
            pdt = getattr(torch, case.get('pred_dt', 'float64'))
            try:
                target, pred = torch.tensor(case['target'], dtype=tdt), torch.tensor(case['pred'], dtype=pdt)
                if case.get('view') and len(case['target']) == len(case['pred']):      # strided views of one buffer
                    both = torch.stack([target.double(), pred.double()], dim=1)
                    target = both[:, 0] if tdt == torch.float64 else target
                    pred = both[:, 1] if pdt == torch.float64 else pred
                t0, p0 = target.clone(), pred.clone()
                s = obj.compute_metric(target, pred)
                if not (torch.equal(t0, target) and torch.equal(p0, pred)):
                    return {'ok': float(s), 'modified': True}
                for _ in range(case.get('repeat', 0)):       # the same call again on the same object
                    if float(obj.compute_metric(target, pred)) != float(s):
                        return {'ok': float(s), 'unstable': True}
            except Exception as e:  # noqa
                self._last_exc = f'{type(e).__name__}: {e}'
                return 'raises'
            return {'ok': float(s)}
        return gbdt.run_ops(case['cls'], case['ops'], case.get('task', 'regression'))

    # ------------------------------------------------------------------ the model
    def model_requests(self, case):
        if case['kind'] == 'convert':
            return [{'cmd': 'convert', 'lib': case['lib'], 'frame': case['model_frame']}]
        if case['kind'] == 'metric':
            return [{'cmd': 'metric', 'task': case['task'], 'metric': case['metric'],
                     'target': [gbdt.fbits(v) for v in case['target']],
                     'pred': [gbdt.fbits(v) for v in case['pred']]}]
        return [{'cmd': 'guards', 'ops': [o for o in case['ops'] if not o['op'].startswith('other_')]}]

    def model_outcome(self, case, replies):
        r = replies[0]
        if case['kind'] == 'convert':
            if r == 'raises':
                return r

            def cell(c):
                if c == 'nan':
                    return 'nan'
                if 'c' in c:
                    return gbdt.canon(c['c'])
                return gbdt.canon(core.bits_float(c['v']))
            out = {'rows': [[cell(c) for c in row] for row in r['rows']], 'width': len(r['types']),
                   'y': None if r['y'] is None else [gbdt.canon(core.bits_float(v)) for v in r['y']]}
            if case['lib'] == 'xgboost':
                out['types'] = r['types']
                out['other_types'] = []
            else:
                out['catIdx'] = r['catIdx']
                out['cols'] = list(range(len(r['types'])))
                out['int_cols'] = r['catIdx']
            return out
        if case['kind'] == 'metric':
            if r == 'raises':
                return r
            return {'ok': core.bits_float(r['ok'])}
        return r

    def equal(self, real, model):
        if isinstance(real, dict) and 'ok' in real and isinstance(model, dict) and 'ok' in model:
            a, b = real['ok'], model['ok']
            if math.isnan(a) or math.isnan(b):
                return math.isnan(a) and math.isnan(b)
            return abs(a - b) <= 1e-9 * abs(b) + 1e-12
        return real == model

    # ------------------------------------------------------------------ the direct oracle
    def oracle(self, case, real):
        kind = case['kind']
        if kind == 'convert':
            fr, lib = case['frame'], case['lib']
            has = any(fr[k] is not None for k in ('cat', 'num', 'emb'))
            if not has:
                if real != 'raises':
                    return core.Violation(f'convert/{lib}/empty-frame-accepted',
                                          'a frame with none of categorical/numerical/embedding was not rejected',
                                          case, 'raises', real)
                return None
            if real == 'raises':
                return core.Violation(f'convert/{lib}/raises-in-domain',
                                      f'conversion of a valid frame raised: {getattr(self, "_last_exc", "")}',
                                      case, 'converted matrix', 'raises')
            exp = gbdt.expected_matrix(fr, lib)
            W = gbdt.expected_width(fr)
            nc = fr['cat_names'] if fr['cat'] is not None else 0
            if real['rows'] != exp or real['width'] != W:
                where = next(((r, k) for r in range(min(len(exp), len(real['rows'])))
                              for k in range(min(len(exp[r]), len(real['rows'][r])))
                              if exp[r][k] != real['rows'][r][k]), None)
                return core.Violation(f'convert/{lib}/layout',
                                      f'converted matrix differs from cat ++ num ++ flatten(emb) (first at {where})',
                                      case, {'rows': exp, 'width': W}, {'rows': real['rows'], 'width': real['width']})
            if lib == 'xgboost':
                if real['types'] != [True] * nc + [False] * (W - nc) or real['other_types']:
                    return core.Violation(f'convert/{lib}/flags', 'feature_types are not c for exactly the '
                                          'categorical columns', case, [True] * nc + [False] * (W - nc), real['types'])
            else:
                if real['catIdx'] != list(range(nc)) or real['cols'] != list(range(W)) or \
                        real['int_cols'] != list(range(nc)):
                    return core.Violation(f'convert/{lib}/flags', 'cat_features / column labels / integer columns are '
                                          'not exactly the categorical positions', case, list(range(nc)),
                                          {k: real[k] for k in ('catIdx', 'cols', 'int_cols')})
            ey = None if fr['y'] is None else [gbdt.canon(v) for v in fr['y']['v']]
            if real['y'] != ey:
                return core.Violation(f'convert/{lib}/target', 'target not passed through unchanged', case, ey,
                                      real['y'])
            if 'modified' in real:
                return core.Violation(f'convert/{lib}/source-modified', 'the conversion modified the frame '
                                      f'({real["modified"]})', case)
            if real.get('changed_by_later_call'):
                return core.Violation(f'convert/{lib}/result-changed-by-later-call', 'the converted table reads '
                                      'differently after a later conversion on the same adapter object', case)
            return None
        if kind == 'metric':
            exp = gbdt.textbook_metric(case)
            if exp is None:
                return None
            if real == 'raises':
                return core.Violation(f'metric/{case["metric"]}/raises-in-domain',
                                      f'compute_metric raised: {getattr(self, "_last_exc", "")}', case, exp, 'raises')
            if real.get('modified') or real.get('unstable'):
                return core.Violation(f'metric/{case["metric"]}/impure', 'compute_metric modified its arguments or '
                                      'answers differently when called again', case, exp, real)
            if not (abs(real['ok'] - exp) <= 1e-9 * abs(exp) + 1e-12):
                return core.Violation(f'metric/{case["task"]}/{case["metric"]}',
                                      f'{case["metric"]} differs from its textbook definition', case, exp, real['ok'])
            return None
        fitted = False
        for i, (op, ok) in enumerate(zip([o for o in case['ops'] if not o['op'].startswith('other_')], real['outcomes'])):
            if op['op'] in ('predict', 'save'):
                if ok != fitted:
                    return core.Violation(f'guards/{op["op"]}',
                                          f'call {i} ({op["op"]}) on a{"" if fitted else "n un"} fitted '
                                          f'{case["cls"]} ' + ('raised' if not ok else 'did not raise'),
                                          case, fitted, ok)
            elif op['op'] == 'tune':
                good = op['trainY'] and op['valY'] and op['hookOk']
                if ok != good:
                    return core.Violation('guards/tune', f'call {i} (tune) outcome', case, good, ok)
                fitted = fitted or good
            else:
                if ok != op['hookOk']:
                    return core.Violation('guards/load', f'call {i} (load) outcome', case, op['hookOk'], ok)
                fitted = fitted or op['hookOk']
        if real['fitted'] != fitted:
            return core.Violation('guards/flag', 'is_fitted does not reflect the history', case, fitted, real['fitted'])
        return None

    def nontrivial_key(self, case, real):
        k = case['kind']
        if k == 'convert':
            if real == 'raises' or not any(real['rows']):
                return None
        elif k == 'metric':
            if real == 'raises' or not case['target']:
                return None
        return core.stable_hash({a: b for a, b in case.items() if a != 'model_frame'})

    def classify(self, case, real):
        k = case['kind']
        labs = [f'kind:{k}']
        if k == 'convert':
            fr = case['frame']
            sub = '+'.join(s[:3] for s in ('categorical', 'numerical', 'embedding')
                           if fr[{'categorical': 'cat', 'numerical': 'num', 'embedding': 'emb'}[s]] is not None)
            labs += [f'lib:{case["lib"]}', f'stypes:{sub or "none"}', f'rows:{fr["R"]}',
                     f'ignored:{len(fr["ignored"])}', f'y:{fr["y"]["t"] if fr["y"] else "none"}',
                     'convert:raises' if real == 'raises' else 'convert:ok']
            if fr['cat'] is not None and any(-1 in row for row in fr['cat']):
                labs.append('has-missing-category')
            if fr['cat'] is not None and fr['R'] > 0 and not any(-1 in row for row in fr['cat']):
                labs.append('no-missing-category')
            if fr['R'] == 0 and fr['emb'] is not None:
                labs.append('zero-row-with-embedding')
            labs[3] = f'rows:{min(fr["R"], 7)}'
            W = gbdt.expected_width(fr)
            for what, v in (('rows', fr['R']), ('width', W), ('categorical-columns', fr.get('cat_names', 0) if fr['cat'] is not None else 0),
                            ('numerical-columns', fr.get('num_names', 0) if fr['num'] is not None else 0),
                            ('embedding-columns', len(fr.get('emb_dims', [])) if fr['emb'] is not None else 0),
                            ('embedding-dim', max(fr.get('emb_dims', [0])) if fr['emb'] is not None else 0)):
                for th in (65537, 16385, 4097, 1025, 257, 17):
                    if v >= th:
                        labs.append(f'scale:{what}:{th}+')
                        break
            for k in ('cat_dt', 'num_dt', 'emb_dt'):
                if fr.get(k):
                    labs.append(f'dtype:{k[:3]}:{fr[k]}')
            if fr['y'] and fr['y'].get('dt'):
                labs.append(f'dtype:y:{fr["y"]["dt"]}')
            if fr.get('via'):
                labs.append(f'container:frame-via-{fr["via"]}')
            if case.get('after'):
                labs.append('alias:result-read-after-later-conversions')
            if case.get('before'):
                labs.append('history:adapter-object-reused')
            flat = [v for row in (fr['num'] or [])[:500] for v in row] + \
                   [v for col in (fr['emb'] or []) for cell in col[:500] for v in cell[:20]]
            if any(v == -1.0 for v in flat if v is not None and not isinstance(v, str)):
                labs.append('value:-1.0-in-a-float-column')
            if any(isinstance(v, str) for v in flat):
                labs.append('value:inf')
            if any(v in gbdt.NUM_SPECIAL64 for v in flat if isinstance(v, float)):
                labs.append('value:float64-only')
            if fr['cat'] is not None and any(v > 2 ** 24 for row in fr['cat'][:500] for v in row):
                labs.append('value:category-index>2^24')
        elif k == 'metric':
            n = len(case['target'])
            labs += [f'metric:{case["task"]}/{case["metric"]}', f'n:{n if n <= 12 else "13+"}',
                     'metric:raises' if real == 'raises' else 'metric:ok']
            for th in (65537, 16385, 4097, 1025, 257, 17):
                if n >= th:
                    labs.append(f'scale:vector-length:{th}+')
                    break
            for k in ('target_dt', 'pred_dt'):
                if case.get(k):
                    labs.append(f'dtype:{k[:-3]}:{case[k]}')
            if case.get('view'):
                labs.append('alias:arguments-are-views-of-one-buffer')
            if case.get('repeat'):
                labs.append('history:metric-called-again')
            if case['task'] == 'binary_classification' and 0.5 in case['pred']:
                labs.append('score-exactly-0.5')
        else:
            labs += [f'cls:{case["cls"]}', f'calls:{min(len(case["ops"]), 8)}', f'task:{case.get("task", "regression")}',
                     'ever-fitted' if real['fitted'] else 'never-fitted']
            for th in (4097, 1025, 257, 17):
                if len(case['ops']) >= th:
                    labs.append(f'scale:calls:{th}+')
                    break
            if any(o['op'].startswith('other_') for o in case['ops']):
                labs.append('history:another-object-of-the-class-fitted-meanwhile')
            for op, ok in zip([o for o in case['ops'] if not o['op'].startswith('other_')], real['outcomes']):
                labs.append(f'{op["op"]}:{"ok" if ok else "raises"}')
        return labs

    # ------------------------------------------------------------------ exhaustive constructor table
    def extra_checks(self, rng, tier, report):
        g = gbdt.import_gbdt()
        from torch_frame import Metric, TaskType
        classes = {'GBDT': g.GBDT, 'XGBoost': g.XGBoost, 'CatBoost': g.CatBoost, 'LightGBM': g.LightGBM}
        reqs, reals, metas = [], [], []
        for cname, cls in classes.items():
            for t in TaskType:
                for m in [None] + list(Metric):
                    try:
                        obj = cls(t, metric=m)
                        r = obj.metric.value
                        if obj.is_fitted:
                            report['violations'].append(core.Violation(
                                'ctor/fitted', f'{cname}({t.value}) is fitted right after construction',
                                {'kind': 'ctor', 'cls': cname, 'task': t.value, 'metric': m and m.value}))
                    except Exception:  # noqa
                        r = 'raises'
                    mv = None if m is None else m.value
                    exp = gbdt.expected_ctor(t.value, mv)
                    if r != exp:
                        report['violations'].append(core.Violation(
                            f'ctor/{t.value}/{mv}', f'{cname}({t.value}, metric={mv}) gives {r}; the metric '
                            f'{"is not defined for" if exp == "raises" else "is defined for"} this task',
                            {'kind': 'ctor', 'cls': cname, 'task': t.value, 'metric': mv}, exp, r))
                    reqs.append({'cmd': 'ctor', 'task': t.value, 'metric': mv})
                    reals.append(r)
                    metas.append((cname, t.value, mv))
        bad = 0
        try:
            replies = core.Driver(self.driver).ask(reqs)
            for rep, r, meta in zip(replies, reals, metas):
                if rep != r:
                    bad += 1
                    if bad <= 3:
                        report['broken'].append(f'correspondence (constructor table): model {rep} vs code {r} on {meta}')
        except Exception as e:  # noqa
            report['broken'].append(f'constructor table: driver unavailable ({e})')
        report['extra']['constructor_table'] = {'cases': len(reqs), 'exhaustive': True, 'disagreements': bad,
                                                'domain': 'GBDT/XGBoost/CatBoost/LightGBM x TaskType x (None + Metric)'}

    # replay of a constructor case
    def replay(self, path):
        import json
        doc = json.load(open(path))
        case = doc.get('case') or {}
        if case.get('kind') == 'ctor':
            core.ensure_repo_import()
            g = gbdt.import_gbdt()
            from torch_frame import Metric, TaskType
            cls = getattr(g, case['cls'])
            try:
                r = cls(TaskType(case['task']), metric=None if case['metric'] is None else Metric(case['metric'])
                        ).metric.value
            except Exception as e:  # noqa
                r = f'raises ({type(e).__name__})'
            exp = gbdt.expected_ctor(case['task'], case['metric'])
            print('case     :', json.dumps(case))
            print('real code:', r)
            print('required :', exp)
            return 0 if r.split(' ')[0] == exp else 1
        return super().replay(path)


CHECK = C20()

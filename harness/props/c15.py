"""C15 - table convolutions and decoders keep their structural contracts."""
from harness import core, nngen

KINDS = ['ft', 'tabt', 'excel', 'trompt', 'exdec', 'trdec']
TOL = 1e-9


def build(case):
    torch = nngen.setup()
    from torch_frame.nn.conv import ExcelFormerConv, FTTransformerConvs, TabTransformerConv, TromptConv
    from torch_frame.nn.decoder import ExcelFormerDecoder, TromptDecoder
    k, c, n = case['kind'], case['c'], case['n']
    torch.manual_seed(case['seed'])
    if k == 'ft':
        m = FTTransformerConvs(c, feedforward_channels=case['ffn'], num_layers=case['layers'], nhead=case['heads'])
    elif k == 'tabt':
        m = TabTransformerConv(c, case['heads'])
    elif k == 'excel':
        m = ExcelFormerConv(c, n, case['heads'])
    elif k == 'trompt':
        m = TromptConv(c, n, case['P'])
    elif k == 'exdec':
        m = ExcelFormerDecoder(c, case['out'], n)
    else:
        m = TromptDecoder(c, case['out'], case['P'])
    return nngen.randomize(m.double().eval(), case['seed'] + 7)


def inputs(case):
    """(x0, xp0): base rows; the batch of the case is x0[idx]"""
    k, c, n, B0 = case['kind'], case['c'], case['n'], case['B0']
    bad = case.get('bad')
    if k == 'trdec':
        shape = [B0, case['P'], c]
        if bad == 'prompts':
            shape[1] += 1
        if bad == 'channels':
            shape[2] += 1
        return nngen.randn(shape, case['seed'] + 1), None
    shape = [B0, n, c]
    pshape = [B0, case.get('P', 1), c]
    if bad == 'cols':
        shape[1] += 1
    if bad == 'channels':
        shape[2] += 1
    if bad == 'prompts':
        pshape[1] += 1
    if bad == 'pchannels':
        pshape[2] += 1
    x0 = nngen.randn(shape, case['seed'] + 1)
    xp0 = nngen.randn(pshape, case['seed'] + 2) if k == 'trompt' else None
    return x0, xp0


def forward(case, m, x, xp=None):
    """the layer's outputs as a tuple of tensors"""
    import torch
    with torch.no_grad():
        if case['kind'] == 'ft':
            o, cls = m(x)
            return (o, cls)
        if case['kind'] == 'trompt':
            return (m(x, xp),)
        return (m(x),)


def masked_underflow(m, x):
    """independent recomputation of DiaM's masked un-normalised weights: are they all exactly 0.0?"""
    import math
    import torch
    with torch.no_grad():
        d = m.DiaM
        h = m.norm_1(x)
        B, n, c = h.shape
        dh = c // d.num_heads
        q = d.lin_q(h).reshape(B, n, d.num_heads, dh).permute(0, 2, 1, 3)
        k = d.lin_k(h).reshape(B, n, d.num_heads, dh).permute(0, 2, 1, 3)
        s = (q @ k.transpose(-1, -2) - 1e5) / math.sqrt(dh)          # the score every masked pair gets
        later = torch.triu(torch.ones(n, n, dtype=torch.bool), diagonal=1)
        return bool((torch.exp(s)[..., later] == 0).all().item())


class C15(core.Check):
    pid = 'C15'
    driver = 'drv_c15'
    quick_cases = 2400
    thorough_cases = 24000
    rule = ('one case = one layer (FTTransformerConvs / TabTransformerConv / ExcelFormerConv / TromptConv / '
            'ExcelFormerDecoder / TromptDecoder) with random hyper-parameters (channels 2-8, heads 1-2, layers 1-2, '
            'columns 1-5, prompts 2/4, out 1-3), generic random parameters in float64 (state_dict exported as bit '
            'patterns), a base batch of 0-4 rows and a batch composition (permutation, duplicates, subset, single, '
            'empty), a column permutation, a causal cut; ~20% of the Trompt cases carry a wrong input shape; '
            'non-trivial = the layer returns a non-empty tensor; distinct = distinct case hash')
    partial_notes = (
        'excel_causal is proved under the explicit hypothesis that every masked un-normalised attention weight is '
        'exactly zero (over the reals the -1e5 mask does not give exact independence; it is an IEEE underflow '
        'fact). The hypothesis is evaluated on every generated ExcelFormerConv case, both by the Lean Float model '
        'and by an independent recomputation on the real module, and the exact-zero suffix independence is '
        'checked on the real module',
        '"does depend on the columns up to i" is an existence claim about generic parameters; checked on the real '
        'module by generic perturbation of one column',
        'softmax is modelled as exp/sum-exp (documentation); the max-shift of the kernel, float round-off and '
        'overflow are outside the model (compared with rel 1e-9 + abs 1e-12)',
        'dropout is inactive (evaluation mode); only activation="relu" of FTTransformerConvs is modelled',
    )
    assumptions = (
        'PyTorch primitives (Linear, LayerNorm, GroupNorm, softmax, TransformerEncoderLayer post-norm with packed '
        'in-projection, einsum) modelled from their documentation; validated numerically on every run',
        'Lean Float and PyTorch float64 are IEEE-754 doubles whose exp/tanh/sqrt agree to 1e-9; erf is a series in '
        'the driver',
        'the fused nn.TransformerEncoder fast path is disabled in the harness process',
    )

    # ------------------------------------------------------------------ generation
    def generate(self, rng, n, tier):
        for i in range(n):
            kind = KINDS[i % len(KINDS)]
            heads = rng.choice([1, 2])
            c = heads * rng.choice([2, 3, 4]) if heads == 2 else rng.choice([3, 4, 5, 6])
            c = max(c, 2)
            if c % heads:
                c += 1
            ncols = rng.randint(1, 5)
            B0 = rng.choice([0, 1, 2, 3, 4, 3, 2, 4, 3, 2])
            ikind, idx = nngen.gen_idx(rng, B0)
            perm = list(range(ncols))
            rng.shuffle(perm)
            case = {'kind': kind, 'seed': rng.randrange(1 << 30), 'c': c, 'heads': heads, 'n': ncols, 'B0': B0,
                    'idx_kind': ikind, 'idx': idx, 'perm': perm, 'cut': rng.randrange(ncols),
                    'col': rng.randrange(ncols)}
            if kind == 'ft':
                case['layers'] = rng.choice([1, 2])
                case['ffn'] = rng.choice([None, c + 2])
            if kind in ('trompt', 'trdec'):
                case['P'] = rng.choice([2, 4])
                if idx and rng.random() < 0.2:   # (an empty list-tensor has no shape left to be wrong)
                    case['bad'] = rng.choice(['cols', 'channels', 'prompts', 'pchannels'] if kind == 'trompt'
                                             else ['prompts', 'channels'])
            if kind in ('exdec', 'trdec'):
                case['out'] = rng.randint(1, 3)
            yield case

    # ------------------------------------------------------------------ real code
    def _run(self, case):
        torch = nngen.setup()
        m = build(case)
        x0, xp0 = inputs(case)
        idx = torch.tensor(case['idx'], dtype=torch.long)
        x = x0[idx]
        xp = None if xp0 is None else xp0[idx]
        st = {'m': m, 'x0': x0, 'xp0': xp0, 'x': x, 'xp': xp, 'idx': idx}
        try:
            st['out'] = forward(case, m, x, xp)
        except Exception as e:  # noqa
            st['out'] = None
            st['exc'] = type(e).__name__
        self._stash = (core.stable_hash(case), st)
        return st

    def _state(self, case):
        st = getattr(self, '_stash', None)
        if st is None or st[0] != core.stable_hash(case):
            return self._run(case)
        return st[1]

    def real(self, case):
        st = self._run(case)
        if st['out'] is None:
            return 'raises'
        k = case['kind']
        outs = [o.tolist() for o in st['out']]
        if k == 'ft':
            return {'x': outs[0], 'cls': outs[1]}
        if k == 'excel':
            return {'y': outs[0], 'underflow': masked_underflow(st['m'], st['x'])}
        if k in ('trompt', 'trdec'):
            return {'ok': outs[0]}
        return outs[0]

    # ------------------------------------------------------------------ model
    def model_requests(self, case):
        st = self._state(case)
        m, k = st['m'], case['kind']
        x = nngen.enc(st['x'])
        if k == 'ft':
            return [{'cmd': 'ft', 'c': case['c'], 'n': case['n'], 'p': nngen.ftconvs(m), 'x': x}]
        if k == 'tabt':
            return [{'cmd': 'tabt', 'c': case['c'], 'n': case['n'], 'p': nngen.tabtconv(m), 'x': x}]
        if k == 'excel':
            return [{'cmd': 'excel', 'c': case['c'], 'n': case['n'], 'p': nngen.excelconv(m), 'x': x}]
        if k == 'trompt':
            return [{'cmd': 'trompt', 'p': nngen.tromptconv(m), 'x': x, 'xp': nngen.enc(st['xp'])}]
        if k == 'exdec':
            return [{'cmd': 'exdec', 'p': nngen.exceldec(m), 'x': x}]
        return [{'cmd': 'trdec', 'p': nngen.tromptdec(m), 'x': x}]

    def model_outcome(self, case, replies):
        r = replies[0]
        if r == 'raises':
            return r
        if isinstance(r, dict):
            return {k: (v if isinstance(v, bool) else nngen.dec(v)) for k, v in r.items()}
        return nngen.dec(r)

    def equal(self, a, b):
        return nngen.tol_equal(a, b)

    # ------------------------------------------------------------------ direct oracle on the real modules
    def oracle(self, case, real_outcome):
        import torch
        st = self._state(case)
        m, k, x0, xp0, x, xp, idx = st['m'], case['kind'], st['x0'], st['xp0'], st['x'], st['xp'], st['idx']
        B, n, c = len(case['idx']), case['n'], case['c']

        def V(what, exp=None, act=None):
            return core.Violation(f'{k}/{what}', f'{k}: {what}', case, exp, act)

        if case.get('bad'):
            if st['out'] is not None:
                return V(f'accepts-wrong-shape-{case["bad"]}', 'AssertionError',
                         f'output of shape {[tuple(o.shape) for o in st["out"]]}')
            return None
        if st['out'] is None:
            return V('raises-on-valid-input', 'a tensor', st.get('exc'))
        out = st['out']
        # shapes
        want = {'ft': [(B, n, c), (B, c)], 'tabt': [(B, n, c)], 'excel': [(B, n, c)],
                'trompt': [(B, case.get('P'), c)], 'exdec': [(B, case.get('out'))],
                'trdec': [(B, case.get('out'))]}[k]
        got = [tuple(o.shape) for o in out]
        if got != want:
            return V('shape', want, got)
        for o in out:
            if not bool(torch.isfinite(o).all()):
                return V('non-finite output')
        # determinism
        again = forward(case, m, x, xp)
        if any(not torch.equal(a, b) for a, b in zip(out, again)):
            return V('non-deterministic')
        # row-wise: layer(x0[idx]) == layer(x0)[idx]
        if case['B0'] > 0:
            full = forward(case, m, x0, xp0)
            for a, f in zip(out, full):
                dev = nngen.max_dev(a, f[idx])
                if dev > TOL:
                    return V('not-row-wise', 'layer(x[idx]) == layer(x)[idx]', f'max deviation {dev:.3e}')
        if B == 0:
            return None
        perm = torch.tensor(case['perm'], dtype=torch.long)
        if k in ('ft', 'tabt'):
            po = forward(case, m, x[:, perm])
            dev = nngen.max_dev(out[0][:, perm], po[0])
            if dev > TOL:
                return V('not-column-equivariant', 'conv(x[:, perm]) == conv(x)[:, perm]', f'max deviation {dev:.3e}')
            if k == 'ft':
                dev = nngen.max_dev(out[1], po[1])
                if dev > TOL:
                    return V('cls-not-invariant', 'x_cls(x[:, perm]) == x_cls(x)', f'max deviation {dev:.3e}')
        if k in ('ft', 'tabt', 'excel', 'trompt', 'exdec'):
            # every column can influence the output: generic perturbation of one column
            j = case['col']
            x2 = x.clone()
            x2[:, j] += nngen.randn(x2[:, j].shape, case['seed'] + 3)
            o2 = forward(case, m, x2, xp)
            target = o2[1] if k == 'ft' else o2[0]
            base = out[1] if k == 'ft' else out[0]
            if nngen.max_dev(target, base) == 0.0:
                return V('column-without-influence', f'perturbing column {j} changes the output', 'no change')
            if k == 'excel':
                # ... and it reaches exactly the columns >= j
                d = (o2[0] - out[0]).abs().amax(dim=(0, 2))
                if bool((d[:j] != 0).any()):
                    return V('not-causal', f'columns < {j} unaffected by column {j}', d.tolist())
                if bool((d[j:] == 0).any()):
                    return V('no-prefix-dependence', f'columns >= {j} depend on column {j}', d.tolist())
        if k == 'excel':
            i = case['cut']
            if i + 1 < n:
                x2 = x.clone()
                x2[:, i + 1:] += nngen.randn(x2[:, i + 1:].shape, case['seed'] + 4, scale=3.0)
                o2 = forward(case, m, x2)
                dev = nngen.max_dev(o2[0][:, :i + 1], out[0][:, :i + 1])
                if dev != 0.0:
                    return V('not-causal', f'output columns <= {i} unchanged (exactly) by columns > {i}',
                             f'max deviation {dev:.3e}')
            if not masked_underflow(m, x):
                return V('mask-does-not-underflow', 'exp of every masked score is exactly 0.0', 'non-zero weight')
        if k == 'trompt':
            # prompts are rows of the same sample: x_prompt must not be broadcast across the batch
            if B > 1:
                try:
                    with torch.no_grad():
                        m(x, xp[:1])
                    return V('accepts-wrong-shape-batch', 'AssertionError', 'broadcast')
                except AssertionError:
                    pass
                except Exception:
                    pass
        return None

    def nontrivial_key(self, case, r):
        if r == 'raises' or len(case['idx']) == 0:
            return None
        return core.stable_hash(case)

    def classify(self, case, r):
        labs = [f"kind:{case['kind']}", f"batch:{min(len(case['idx']), 5)}", f"compose:{case['idx_kind']}",
                f"heads:{case['heads']}", f"cols:{case['n']}", f"channels:{case['c']}",
                'outcome:raises' if r == 'raises' else 'outcome:ok']
        if case.get('bad'):
            labs.append(f"bad-shape:{case['kind']}/{case['bad']}")
        if case['kind'] == 'ft':
            labs.append(f"ft-layers:{case['layers']}")
        if case['kind'] == 'excel' and isinstance(r, dict):
            labs.append(f"excel-underflow:{r['underflow']}")
        return labs


CHECK = C15()

"""C15 - table convolutions and decoders keep their structural contracts."""
from harness import core, nngen

KINDS = ['ft', 'tabt', 'excel', 'trompt', 'exdec', 'trdec']
TOL = 1e-9


def build(case):
    torch = nngen.setup()
    from torch_frame.nn.conv import ExcelFormerConv, FTTransformerConvs, TabTransformerConv, TromptConv
    from torch_frame.nn.decoder import ExcelFormerDecoder, TromptDecoder
    k, c, n = case['kind'], case['c'], case['n']
    drop = case.get('drop') or {}
    torch.manual_seed(case['seed'])
    if k == 'ft':
        kw = {'dropout': drop['p']} if 'p' in drop else {}            # (the class default is 0.2)
        m = FTTransformerConvs(c, feedforward_channels=case['ffn'], num_layers=case['layers'], nhead=case['heads'], **kw)
    elif k == 'tabt':
        m = TabTransformerConv(c, case['heads'], attn_dropout=drop.get('attn', 0.), ffn_dropout=drop.get('ffn', 0.))
    elif k == 'excel':
        m = ExcelFormerConv(c, n, case['heads'], diam_dropout=drop.get('diam', 0.), aium_dropout=drop.get('aium', 0.),
                            residual_dropout=drop.get('residual', 0.))
    elif k == 'trompt':
        m = TromptConv(c, n, case['P'], **({'num_groups': case['groups']} if 'groups' in case else {}))
    elif k == 'exdec':
        m = ExcelFormerDecoder(c, case['out'], n)
    else:
        m = TromptDecoder(c, case['out'], case['P'])
    m = m.float() if case.get('dtype') == 'f32' else m.double()
    return nngen.randomize(m.eval(), case['seed'] + 7)


def tol_of(case, outs=()):
    """float64: the fixed 1e-9 of the property check; the float32 family (oracle only) scales with the output"""
    if case.get('dtype') != 'f32':
        return TOL
    mag = max([1.0] + [float(o.abs().max()) for o in outs if o.numel()])
    return 2e-4 * mag


def apply_history(case, m, x0, xp0, x, xp):
    """calls made on the SAME module object before the measured forward pass (family 5)"""
    import torch
    for h in case.get('hist', []):
        if h == 'fwd_full':            # evaluation-mode call on the whole base batch
            forward(case, m, x0, xp0)
        elif h == 'fwd_batch':         # the very batch (and batch size) that is measured afterwards
            forward(case, m, x, xp)
        elif h == 'fwd_one':           # another batch size first
            forward(case, m, x0[:1], None if xp0 is None else xp0[:1])
        elif h == 'train_fwd':         # training-mode call (dropout active), then back to evaluation mode
            m.train()
            forward(case, m, x0, xp0)
            m.eval()
        elif h == 'train_step':        # one optimizer step in training mode, then evaluation mode
            m.train()
            opt = torch.optim.SGD(m.parameters(), lr=0.05)
            opt.zero_grad()
            o = m(x0, xp0) if case['kind'] == 'trompt' else m(x0)
            o = o if isinstance(o, tuple) else (o,)
            sum((t ** 2).mean() for t in o).backward()
            torch.nn.utils.clip_grad_norm_(m.parameters(), 1.0)        # a small, bounded parameter change
            opt.step()
            m.eval()
        elif h == 'reset':             # reset_parameters(), then the same parameter draw again
            m.reset_parameters()
            nngen.randomize(m, case['seed'] + 7)
        elif h == 'train_eval':        # mode flips only
            m.train()
            m.eval()
        else:
            raise ValueError(h)


def inputs(case):
    """(x0, xp0): base rows; the batch of the case is x0[idx]"""
    k, c, n, B0 = case['kind'], case['c'], case['n'], case['B0']
    bad = case.get('bad')
    if k == 'trdec':
        shape = [B0, case['P'], c]
        if bad == 'prompts':
            shape[1] += 1
        if bad == 'channels':
            shape[2] += 1
        return _dt(case, nngen.randn(shape, case['seed'] + 1)), None
    shape = [B0, n, c]
    pshape = [B0, case.get('P', 1), c]
    if bad == 'cols':
        shape[1] += 1
    if bad == 'channels':
        shape[2] += 1
    if bad == 'prompts':
        pshape[1] += 1
    if bad == 'pchannels':
        pshape[2] += 1
    x0 = _dt(case, nngen.randn(shape, case['seed'] + 1))
    xp0 = _dt(case, nngen.randn(pshape, case['seed'] + 2)) if k == 'trompt' else None
    return x0, xp0


def _dt(case, t):
    return t.float() if case.get('dtype') == 'f32' else t


def _layout(case, t):
    """the same values behind a non-contiguous view (channels-major storage)"""
    if t is None or case.get('layout') != 'nc' or t.dim() != 3:
        return t
    return t.transpose(1, 2).contiguous().transpose(1, 2)


def forward(case, m, x, xp=None):
    """the layer's outputs as a tuple of tensors"""
    import torch
    with torch.no_grad():
        if case['kind'] == 'ft':
            o, cls = m(x)
            return (o, cls)
        if case['kind'] == 'trompt':
            return (m(x, xp),)
        return (m(x),)


def masked_underflow(m, x):
    """independent recomputation of DiaM's masked un-normalised weights: are they all exactly 0.0?"""
    import math
    import torch
    with torch.no_grad():
        d = m.DiaM
        h = m.norm_1(x)
        B, n, c = h.shape
        dh = c // d.num_heads
        q = d.lin_q(h).reshape(B, n, d.num_heads, dh).permute(0, 2, 1, 3)
        k = d.lin_k(h).reshape(B, n, d.num_heads, dh).permute(0, 2, 1, 3)
        s = (q @ k.transpose(-1, -2) - 1e5) / math.sqrt(dh)          # the score every masked pair gets
        later = torch.triu(torch.ones(n, n, dtype=torch.bool), diagonal=1)
        return bool((torch.exp(s)[..., later] == 0).all().item())


class C15(core.Check):
    pid = 'C15'
    driver = 'drv_c15'
    quick_cases = 2400
    thorough_cases = 24000
    rule = ('one case = one layer (FTTransformerConvs / TabTransformerConv / ExcelFormerConv / TromptConv / '
            'ExcelFormerDecoder / TromptDecoder) with random hyper-parameters (channels 2-8, heads 1-2, layers 1-2, '
            'columns 1-5, prompts 2/4, out 1-3), generic random parameters in float64 (state_dict exported as bit '
            'patterns), a base batch of 0-4 rows and a batch composition (permutation, duplicates, subset, single, '
            'empty), a column permutation, a causal cut; ~20% of the Trompt cases carry a wrong input shape; '
            'non-trivial = the layer returns a non-empty tensor; distinct = distinct case hash. '
            'Hardening families (labels scale:* / cfg:* / dtype:* / layout:* / hist:*): ~10% of the cases carry one size from '
            'the stress ladder of the run\'s level (columns up to 257+ / 1 025+ for the attention layers and 4 097+ for the '
            'others, batch 513+ / 2 049+ / 4 097+, channels, 4-64 heads, 3-9 layers, prompts, output width); dropout rates '
            '> 0 for FTTransformerConvs / TabTransformerConv / ExcelFormerConv (inactive in evaluation mode), non-default '
            'GroupNorm group counts; float32 modules and inputs (judged by the oracle only, tolerance 2e-4 x magnitude, '
            'causality still exact); non-contiguous input views; earlier calls on the same module (eval forward on the '
            'batch / the base batch / one row, training-mode forward, one bounded SGD step, mode flips, reset_parameters + '
            'same draw). Direct oracles added: a fresh module with the same state_dict computes exactly the same; the same '
            'layer with dropout rate 0 computes exactly the same; inputs are not modified; results handed out earlier are '
            'not overwritten; causal cuts at several positions for wide ExcelFormer layers')
    partial_notes = (
        'excel_causal is proved under the explicit hypothesis that every masked un-normalised attention weight is '
        'exactly zero (over the reals the -1e5 mask does not give exact independence; it is an IEEE underflow '
        'fact). The hypothesis is evaluated on every generated ExcelFormerConv case, both by the Lean Float model '
        'and by an independent recomputation on the real module, and the exact-zero suffix independence is '
        'checked on the real module',
        '"does depend on the columns up to i" is an existence claim about generic parameters; checked on the real '
        'module by generic perturbation of one column',
        'softmax is modelled as exp/sum-exp (documentation); the max-shift of the kernel, float round-off and '
        'overflow are outside the model (compared with rel 1e-9 + abs 1e-12)',
        'dropout is inactive (evaluation mode): the model has no dropout, layers are built with rates 0-0.9; only activation="relu" of FTTransformerConvs is modelled',
    )
    assumptions = (
        'PyTorch primitives (Linear, LayerNorm, GroupNorm, softmax, TransformerEncoderLayer post-norm with packed '
        'in-projection, einsum) modelled from their documentation; validated numerically on every run',
        'Lean Float and PyTorch float64 are IEEE-754 doubles whose exp/tanh/sqrt agree to 1e-9; erf is a series in '
        'the driver',
        'the fused nn.TransformerEncoder fast path is disabled in the harness process',
    )

    # ------------------------------------------------------------------ generation
    # share of the cases that carry one scale dimension; the sizes come from stress.pick_size(level)
    SCALE_SHARE = {0: 0.10, 1: 0.03, 2: 0.012}
    MODEL_FLOATS = 150_000          # above this many exported numbers a case is judged by the oracle only

    def generate(self, rng, n, tier):
        for i in range(n):
            kind = KINDS[i % len(KINDS)]
            heads = rng.choice([1, 2])
            c = heads * rng.choice([2, 3, 4]) if heads == 2 else rng.choice([3, 4, 5, 6])
            c = max(c, 2)
            if c % heads:
                c += 1
            ncols = rng.randint(1, 5)
            B0 = rng.choice([0, 1, 2, 3, 4, 3, 2, 4, 3, 2])
            case = {'kind': kind, 'seed': rng.randrange(1 << 30), 'c': c, 'heads': heads, 'n': ncols, 'B0': B0}
            if kind == 'ft':
                case['layers'] = rng.choice([1, 2])
                case['ffn'] = rng.choice([None, c + 2])
            if kind in ('trompt', 'trdec'):
                case['P'] = rng.choice([2, 4])
            if kind in ('exdec', 'trdec'):
                case['out'] = rng.randint(1, 3)
            if rng.random() < self.SCALE_SHARE.get(self.level, 0.03):
                self.gen_scale(rng, case)
            self.gen_config(rng, case)
            B0, ncols = case['B0'], case['n']
            ikind, idx = nngen.gen_idx(rng, B0)
            perm = list(range(ncols))
            rng.shuffle(perm)
            case.update({'idx_kind': ikind, 'idx': idx, 'perm': perm, 'cut': rng.randrange(ncols),
                         'col': rng.randrange(ncols)})
            if kind in ('trompt', 'trdec') and 'scale' not in case:
                if idx and rng.random() < 0.2:   # (an empty list-tensor has no shape left to be wrong)
                    case['bad'] = rng.choice(['cols', 'channels', 'prompts', 'pchannels'] if kind == 'trompt'
                                             else ['prompts', 'channels'])
            if not case.get('bad'):
                self.gen_history(rng, case)
            yield case

    def gen_scale(self, rng, case):
        """family 1: one size of the layer far above the small default (columns > 256, batch > 512 / > 2048,
        channels, heads, layers >= 3, prompts, output width); the other ingredients stay random"""
        from harness import stress
        kind, lvl = case['kind'], self.level
        attention = kind in ('ft', 'tabt', 'excel')
        dims = {'ft': ['cols', 'batch', 'channels', 'heads', 'layers'], 'tabt': ['cols', 'batch', 'channels', 'heads'],
                'excel': ['cols', 'cols', 'batch', 'channels', 'heads'], 'trompt': ['cols', 'batch', 'channels', 'prompts'],
                'exdec': ['cols', 'batch', 'channels', 'out'], 'trdec': ['batch', 'channels', 'prompts', 'out']}[kind]
        dim = rng.choice(dims)
        case['scale'] = dim

        def size(cap):
            """half of the draws sit on the top rung the level allows (where the gated paths are)"""
            if rng.random() < 0.5:
                return max(x for x in stress.ladder(lvl) if x <= cap) + rng.choice([0, 0, 1, 2])
            return stress.pick_size(rng, lvl, cap)
        if dim == 'cols':
            # attention is quadratic in the columns: 1 025 is the ceiling there, the linear layers go on
            cap = 260 if lvl == 0 else (1030 if attention else (4100 if lvl == 1 else 66000))
            case['n'] = size(cap)
            case['B0'] = rng.choice([1, 2, 2, 3]) if case['n'] < 600 else rng.choice([1, 2])
            # (>= 3 channels per head: LayerNorm over 2 channels is a sign function, which makes "can influence" moot)
            case['c'] = case['heads'] * rng.choice([3, 4]) if attention else rng.choice([2, 3])
            if kind == 'ft':
                case['ffn'] = None
        elif dim == 'batch':
            cap = 260 if lvl == 0 else (4100 if lvl == 1 else 66000)
            if lvl == 0 and rng.random() < 0.5:
                cap = 520                                        # one step beyond the level-0 ladder: 513(+2) rows
                case['B0'] = 513 + rng.choice([0, 1, 2])
            else:
                case['B0'] = size(cap)
            case['n'] = rng.randint(1, 3)
        elif dim == 'channels':
            cap = 70 if lvl == 0 else 260
            case['c'] = case['heads'] * size(cap)
            case['B0'] = rng.choice([1, 2])
            case['n'] = rng.randint(1, 3)
            if kind == 'ft':
                case['ffn'] = None
        elif dim == 'heads':
            case['heads'] = rng.choice([4, 8, 16] if lvl == 0 else [4, 8, 16, 32, 64])
            case['c'] = case['heads'] * rng.choice([1, 2, 3])
            if kind == 'ft':
                case['ffn'] = rng.choice([None, case['c'] + 2])
        elif dim == 'layers':
            case['layers'] = rng.choice([3, 4] if lvl == 0 else [3, 4, 6, 9])
        elif dim == 'prompts':
            case['P'] = 2 * ((size(260 if lvl == 0 else 1030) + 1) // 2)
            case['groups'] = rng.choice([1, 2, case['P'] // 2, case['P']])
        elif dim == 'out':
            case['out'] = size(260 if lvl == 0 else 4100)

    def gen_config(self, rng, case):
        """families 3 and 6: configurations off the default that evaluation mode must not notice (dropout rates
        > 0), a non-default group count, float32 parameters and inputs, a non-contiguous input view"""
        kind = case['kind']
        r = rng.random
        if kind == 'ft' and r() < 0.5:
            case['drop'] = {'p': rng.choice([0.0, 0.1, 0.5, 0.9])}
        if kind == 'tabt' and r() < 0.5:
            case['drop'] = {'attn': rng.choice([0.0, 0.3, 0.5, 0.9]), 'ffn': rng.choice([0.0, 0.3, 0.9])}
        if kind == 'excel' and r() < 0.5:
            case['drop'] = {'diam': rng.choice([0.0, 0.3, 0.9]), 'aium': rng.choice([0.0, 0.3, 0.9]),
                            'residual': rng.choice([0.0, 0.3, 0.9])}
        if kind == 'trompt' and 'groups' not in case and r() < 0.3:
            case['groups'] = rng.choice([1, case['P']])
        if r() < 0.04 and case.get('scale') not in ('cols', 'channels', 'batch'):
            case['dtype'] = 'f32'
        if r() < 0.08:
            case['layout'] = 'nc'

    def gen_history(self, rng, case):
        """family 5: earlier calls on the same module object"""
        if rng.random() >= 0.3:
            return
        steps = ['fwd_full', 'fwd_batch', 'fwd_one', 'reset', 'train_eval']
        if case['B0'] > 0:
            steps += ['train_fwd', 'train_fwd', 'train_step', 'train_step']
        if case.get('scale') in ('cols', 'channels', 'batch', 'prompts', 'out'):
            steps = [s for s in steps if s != 'train_step']          # (keeps the large cases cheap)
        case['hist'] = [rng.choice(steps) for _ in range(rng.choice([1, 1, 2, 3]))]

    # ------------------------------------------------------------------ real code
    def _run(self, case):
        torch = nngen.setup()
        m = build(case)
        x0, xp0 = inputs(case)
        idx = torch.tensor(case['idx'], dtype=torch.long)
        x = _layout(case, x0[idx])
        xp = None if xp0 is None else _layout(case, xp0[idx])
        st = {'m': m, 'x0': x0, 'xp0': xp0, 'x': x, 'xp': xp, 'idx': idx}
        try:
            apply_history(case, m, x0, xp0, x, xp)
        except Exception as e:  # noqa
            st['hist_exc'] = f'{type(e).__name__}: {str(e)[:160]}'
        snap = (x.clone(), None if xp is None else xp.clone())
        try:
            st['out'] = forward(case, m, x, xp)
            st['out_snap'] = tuple(o.clone() for o in st['out'])
        except Exception as e:  # noqa
            st['out'] = None
            st['exc'] = type(e).__name__
        st['input_modified'] = not (torch.equal(x, snap[0]) and (xp is None or torch.equal(xp, snap[1])))
        self._stash = (core.stable_hash(case), st)
        return st

    def _state(self, case):
        st = getattr(self, '_stash', None)
        if st is None or st[0] != core.stable_hash(case):
            return self._run(case)
        return st[1]

    def real(self, case):
        st = self._run(case)
        if st['out'] is None:
            return 'raises'
        k = case['kind']
        outs = [o.double().tolist() for o in st['out']]
        if k == 'ft':
            return {'x': outs[0], 'cls': outs[1]}
        if k == 'excel':
            return {'y': outs[0], 'underflow': masked_underflow(st['m'], st['x'])}
        if k in ('trompt', 'trdec'):
            return {'ok': outs[0]}
        return outs[0]

    # ------------------------------------------------------------------ model
    def oracle_only(self, case):
        """the float32 family (the model is a double-precision model) and inputs whose export exceeds MODEL_FLOATS
        numbers are judged by the metamorphic oracle on the real module only"""
        if case.get('dtype') == 'f32':
            return True
        k, c, n, B = case['kind'], case['c'], case['n'], len(case['idx'])
        P = case.get('P', 1)
        x = B * (P if k == 'trdec' else n) * c + (B * P * c if k == 'trompt' else 0)
        w = {'ft': case.get('layers', 1) * (4 * c * c + 2 * c * (case.get('ffn') or c)), 'tabt': 4 * c * c + 12 * c * c,
             'excel': 6 * c * c, 'trompt': 2 * c * c + (n + P) * c, 'exdec': n * case.get('out', 1),
             'trdec': 2 * c * c + c * case.get('out', 1)}[k]
        attn = B * case['heads'] * n * n if k in ('ft', 'tabt', 'excel') else 0
        return x + w > self.MODEL_FLOATS or attn > 2_500_000

    # core.Check.replay prints the model outcome with json.dumps, which cannot render core.SKIP_MODEL: during a replay
    # an oracle-only case reports a printable marker instead
    _replaying = False

    def replay(self, path):
        self._replaying = True
        return super().replay(path)

    def skip_model(self):
        return 'oracle-only case: not shipped to the Lean model' if self._replaying else core.SKIP_MODEL

    def model_requests(self, case):
        if self.oracle_only(case):
            return []
        st = self._state(case)
        m, k = st['m'], case['kind']
        x = nngen.enc(st['x'])
        if k == 'ft':
            return [{'cmd': 'ft', 'c': case['c'], 'n': case['n'], 'p': nngen.ftconvs(m), 'x': x}]
        if k == 'tabt':
            return [{'cmd': 'tabt', 'c': case['c'], 'n': case['n'], 'p': nngen.tabtconv(m), 'x': x}]
        if k == 'excel':
            return [{'cmd': 'excel', 'c': case['c'], 'n': case['n'], 'p': nngen.excelconv(m), 'x': x}]
        if k == 'trompt':
            return [{'cmd': 'trompt', 'p': nngen.tromptconv(m), 'x': x, 'xp': nngen.enc(st['xp'])}]
        if k == 'exdec':
            return [{'cmd': 'exdec', 'p': nngen.exceldec(m), 'x': x}]
        return [{'cmd': 'trdec', 'p': nngen.tromptdec(m), 'x': x}]

    def model_outcome(self, case, replies):
        if not replies:
            return self.skip_model()
        r = replies[0]
        if r == 'raises':
            return r
        if isinstance(r, dict):
            return {k: (v if isinstance(v, bool) else nngen.dec(v)) for k, v in r.items()}
        return nngen.dec(r)

    def equal(self, a, b):
        if isinstance(b, str) and b.startswith('oracle-only'):
            return True
        return nngen.tol_equal(a, b)

    # ------------------------------------------------------------------ direct oracle on the real modules
    def oracle(self, case, real_outcome):
        import torch
        st = self._state(case)
        m, k, x0, xp0, x, xp, idx = st['m'], case['kind'], st['x0'], st['xp0'], st['x'], st['xp'], st['idx']
        B, n, c = len(case['idx']), case['n'], case['c']

        def V(what, exp=None, act=None):
            return core.Violation(f'{k}/{what}', f'{k}: {what}', case, exp, act)

        if case.get('bad'):
            if st['out'] is not None:
                return V(f'accepts-wrong-shape-{case["bad"]}', 'AssertionError',
                         f'output of shape {[tuple(o.shape) for o in st["out"]]}')
            return None
        if st.get('hist_exc'):
            return V('raises-on-valid-input', f'the calls {case.get("hist")} before the measured one succeed', st['hist_exc'])
        if st['out'] is None:
            return V('raises-on-valid-input', 'a tensor', st.get('exc'))
        out = st['out']
        tol = tol_of(case, out)
        # shapes
        want = {'ft': [(B, n, c), (B, c)], 'tabt': [(B, n, c)], 'excel': [(B, n, c)],
                'trompt': [(B, case.get('P'), c)], 'exdec': [(B, case.get('out'))],
                'trdec': [(B, case.get('out'))]}[k]
        got = [tuple(o.shape) for o in out]
        if got != want:
            return V('shape', want, got)
        for o in out:
            if not bool(torch.isfinite(o).all()):
                return V('non-finite output')
        if st['input_modified']:
            return V('input-modified', 'the input tensors are unchanged by the call', 'changed in place')
        # determinism
        again = forward(case, m, x, xp)
        if any(not torch.equal(a, b) for a, b in zip(out, again)):
            return V('non-deterministic', 'two evaluation-mode calls on the same input agree exactly',
                     f'max deviation {max(nngen.max_dev(a, b) for a, b in zip(out, again)):.3e}')
        # the layer is a function of its parameters and its input: whatever was called on this object before,
        # an identically configured fresh module carrying the same state_dict computes the same thing
        if case.get('hist') or case.get('drop'):
            twin = build({k_: v for k_, v in case.items() if k_ != 'hist'})
            twin.load_state_dict(m.state_dict())
            tw = forward(case, twin.eval(), x, xp)
            dev = max(nngen.max_dev(a, b) for a, b in zip(out, tw))
            if dev != 0.0:
                return V('history-dependent', f'after {case.get("hist")} the module computes what a fresh module with the '
                         'same state_dict computes', f'max deviation {dev:.3e}')
            if case.get('drop'):
                # dropout is inactive in evaluation mode: the rates cannot matter
                plain = build({k_: v for k_, v in case.items() if k_ not in ('hist', 'drop')} |
                              ({'drop': {'p': 0.0}} if k == 'ft' else {}))
                plain.load_state_dict(m.state_dict())
                pl = forward(case, plain.eval(), x, xp)
                dev = max(nngen.max_dev(a, b) for a, b in zip(out, pl))
                if dev != 0.0:
                    return V('dropout-active-in-eval', f'dropout rates {case["drop"]} do not change the evaluation-mode '
                             'output', f'max deviation {dev:.3e} from the same layer with rate 0')
        # row-wise: layer(x0[idx]) == layer(x0)[idx]
        if case['B0'] > 0:
            full = forward(case, m, x0, xp0)
            for a, f in zip(out, full):
                dev = nngen.max_dev(a, f[idx])
                if dev > tol:
                    return V('not-row-wise', 'layer(x[idx]) == layer(x)[idx]', f'max deviation {dev:.3e}')
        if B == 0:
            return None
        perm = torch.tensor(case['perm'], dtype=torch.long)
        if k in ('ft', 'tabt'):
            po = forward(case, m, x[:, perm])
            dev = nngen.max_dev(out[0][:, perm], po[0])
            if dev > tol:
                return V('not-column-equivariant', 'conv(x[:, perm]) == conv(x)[:, perm]', f'max deviation {dev:.3e}')
            if k == 'ft':
                dev = nngen.max_dev(out[1], po[1])
                if dev > tol:
                    return V('cls-not-invariant', 'x_cls(x[:, perm]) == x_cls(x)', f'max deviation {dev:.3e}')
        if k in ('ft', 'tabt', 'excel', 'trompt', 'exdec'):
            # every column can influence the output: generic perturbation of one column
            j = case['col']
            x2 = x.clone()
            x2[:, j] += _dt(case, nngen.randn(x2[:, j].shape, case['seed'] + 3))
            o2 = forward(case, m, x2, xp)
            target = o2[1] if k == 'ft' else o2[0]
            base = out[1] if k == 'ft' else out[0]
            if nngen.max_dev(target, base) == 0.0:
                return V('column-without-influence', f'perturbing column {j} changes the output', 'no change')
            if k == 'excel':
                # ... and it reaches exactly the columns >= j
                d = (o2[0] - out[0]).abs().amax(dim=(0, 2))
                if bool((d[:j] != 0).any()):
                    return V('not-causal', f'columns < {j} unaffected by column {j}',
                             [i for i in range(j) if float(d[i]) != 0][:8])
                if bool((d[j:] == 0).any()):
                    return V('no-prefix-dependence', f'columns >= {j} depend on column {j}',
                             [i for i in range(j, n) if float(d[i]) == 0][:8])
        if k == 'excel':
            cuts = [case['cut']] + ([n - 2, n // 2, 0] if n > 8 else [])
            for i in cuts:
                if 0 <= i and i + 1 < n:
                    x2 = x.clone()
                    x2[:, i + 1:] += _dt(case, nngen.randn(x2[:, i + 1:].shape, case['seed'] + 4, scale=3.0))
                    o2 = forward(case, m, x2)
                    dev = nngen.max_dev(o2[0][:, :i + 1], out[0][:, :i + 1])
                    if dev != 0.0:
                        return V('not-causal', f'output columns <= {i} unchanged (exactly) by columns > {i}',
                                 f'max deviation {dev:.3e}')
            if not masked_underflow(m, x):
                return V('mask-does-not-underflow', 'exp of every masked score is exactly 0.0', 'non-zero weight')
        if k == 'trompt':
            # prompts are rows of the same sample: x_prompt must not be broadcast across the batch
            if B > 1:
                try:
                    with torch.no_grad():
                        m(x, xp[:1])
                    return V('accepts-wrong-shape-batch', 'AssertionError', 'broadcast')
                except AssertionError:
                    pass
                except Exception:
                    pass
        # results handed out earlier stay what they were (no shared output buffer)
        if any(not torch.equal(a, b) for a, b in zip(out, st['out_snap'])):
            return V('output-overwritten', 'a returned tensor is not changed by later calls', 'changed')
        return None

    def nontrivial_key(self, case, r):
        if r == 'raises' or len(case['idx']) == 0:
            return None
        return core.stable_hash(case)

    @staticmethod
    def bucket(v):
        for t in (65537, 16385, 4097, 2049, 1025, 513, 257, 129, 65, 33, 17):
            if v >= t:
                return f'{t}+'
        return 'small'

    def classify(self, case, r):
        labs = [f"kind:{case['kind']}", f"batch:{min(len(case['idx']), 5)}", f"compose:{case['idx_kind']}",
                f"heads:{case['heads']}", f"cols:{min(case['n'], 6)}", f"channels:{min(case['c'], 9)}",
                'outcome:raises' if r == 'raises' else 'outcome:ok']
        if case.get('bad'):
            labs.append(f"bad-shape:{case['kind']}/{case['bad']}")
        if case['kind'] == 'ft':
            labs.append(f"ft-layers:{min(case['layers'], 3)}")
        if case['kind'] == 'excel' and isinstance(r, dict):
            labs.append(f"excel-underflow:{r['underflow']}")
        if 'scale' in case:
            dim = case['scale']
            v = {'cols': case['n'], 'batch': len(case['idx']), 'channels': case['c'], 'heads': case['heads'],
                 'layers': case.get('layers', 0), 'prompts': case.get('P', 0), 'out': case.get('out', 0)}[dim]
            labs.append(f"scale:{dim}:{self.bucket(v) if dim not in ('heads', 'layers') else v}")
            if dim == 'batch':
                labs.append(f"scale:base-batch:{self.bucket(case['B0'])}")
            if dim == 'cols':
                labs.append(f"scale:cols:{case['kind']}:{self.bucket(v)}")
        if case.get('drop') and any(v > 0 for v in case['drop'].values()):
            labs.append(f"cfg:dropout>0:{case['kind']}")
        if 'groups' in case:
            labs.append('cfg:trompt-groups:' + ('1' if case['groups'] == 1 else 'P' if case['groups'] == case['P'] else 'other'))
        if case.get('dtype') == 'f32':
            labs.append('dtype:float32(oracle-only)')
        if case.get('layout') == 'nc':
            labs.append('layout:non-contiguous')
        for h in case.get('hist', []):
            labs.append(f'hist:{h}')
        if case.get('hist'):
            labs.append('hist:any')
        if self.oracle_only(case):
            labs.append('oracle-only')
        return labs


CHECK = C15()

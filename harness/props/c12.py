"""C12 - feature encoder contract: shape, column order, finiteness, accepts all materialized data,
lazy = eager construction, unsupported pairings rejected."""
import copy
import math

from harness import core, encgen as G

# position of the harness's short class names in the model's EncClass.all / the reflective table's classNames
CLASS_INDEX = {'embedding': 0, 'bag': 1, 'linear': 2, 'stack': 3, 'bucket': 4, 'periodic': 5, 'excel': 6, 'linemb': 7,
               'linmodel': 8, 'timestamp': 9}
CLASS_NAMES = ['EmbeddingEncoder', 'MultiCategoricalEmbeddingEncoder', 'LinearEncoder', 'StackEncoder',
               'LinearBucketEncoder', 'LinearPeriodicEncoder', 'ExcelFormerEncoder', 'LinearEmbeddingEncoder',
               'LinearModelEncoder', 'TimestampEncoder']

LAZY_CLASSES = {
    'numerical': ['linear', 'periodic', 'excel'],      # bucket only runs in float32, see partial_notes
    'categorical': ['embedding'],
    'multicategorical': ['bag'],
    'timestamp': ['timestamp'],
    'embedding': ['linemb'],
}
BAD_NA = {'numerical': 'most_frequent', 'categorical': 'mean', 'multicategorical': 'mean',
          'timestamp': 'zeros', 'embedding': 'zeros'}
ATTRS = ['out_channels', 'stats_list', 'stype']


class C12(core.Check):
    pid = 'C12'
    driver = 'drv_c12'
    quick_cases = 260
    thorough_cases = 5000
    rule = ('85% "wise" cases: a random table (1-12 rows; 1-3 columns for each of a random non-empty subset of the five '
            'stypes; missing cells in every stype, constant columns, rare categories, dates 1700-2200, embedding widths '
            '1-4, +-inf cells) is materialized by the real Dataset; one admissible encoder class / NA strategy / post '
            'module (none, ReLU, Tanh, LayerNorm) / channel count 1-4 per stype, all parameters re-drawn; four batch '
            'selections (whole, one row, one of the three empty forms, a permutation / multiset / slice). 15% "lazy" cases: '
            'a random encoder class built with a random subset of its three lazy attributes, then assignments in a random '
            'order (with None assignments, repeated assignments and unrelated attributes mixed in), 20% with an NA strategy '
            'that init_modules rejects. Non-trivial = a wise case whose whole-frame output has >= 1 entry, or a lazy case '
            'with >= 1 assignment; distinct = distinct case hash. '
            'Hardening families (labels scale:* / cfg:* / dtype:* / values:* / hist:* of the input distribution): ~22% of the '
            'wise cases carry one size from the stress ladder of the run\'s level (rows, a long batch, columns of one stype, '
            'categories / tokens of one column with one cell holding the whole vocabulary, embedding width, channels); 30% '
            'use LinearModelEncoder with stub user models whose col_to_model_cfg dict is written in an order unrelated to the '
            'frame\'s column order; 30% list keys for stypes the dataset has no column of (70% admissible - must change '
            'nothing -, 30% with an unsupported pairing or a child-stype key - construction must raise); sentinel look-alike '
            'category / token / column names (-1, nan, None, w/W, label/label_prev), edge magnitudes and float64-only '
            'numbers, float32 numerical / int32 categorical blocks; batches selected by list / int64 tensor / int32 tensor '
            '/ boolean mask; earlier calls on the same encoder object (eval forward, training-mode forward, mode flips, '
            'reset_parameters + same draw). Direct oracles for them: rolling the cells of ONE input column changes exactly '
            'the slice of the column axis reported under that name; a LinearModelEncoder slice is the named column through '
            'the model / weight / bias registered under its name; a fresh encoder with the same state_dict computes the same; '
            'all 630 (class, stype, strategy) entries under a key whose stype is absent from the data are constructed '
            '(unsupported pairings must be rejected) and compared with the model\'s key-by-key validation. '
            'Third round (labels cfg:merged-embedding:* / cfg:frame-from-transform:* / names:<stype>:sorted|unsorted / ragged:* / '
            'alias:*): ~22% of the wise cases have text_embedded / image_embedded columns (stub embedders of widths 1-5, no '
            'model, no file access) which the converter merges BEHIND the plain embedding columns, with the child names before / '
            'after / between / in random order relative to the plain names and at least two different widths in the group; '
            '~22% hand the encoder a frame produced by a transform - every stype\'s column list re-ordered (what '
            'MutualInformationSort does to numerical columns, for all five stypes), CatToNumTransform (regression / binary / '
            'multiclass target; generated columns appended behind the numerical ones, encoder built from transformed_stats), '
            'MutualInformationSort itself (scikit-learn\'s scoring function replaced by a stand-in) - so that the name list of a '
            'stype is not in the converter\'s sorted order; ~20% place EMPTY multicategorical cells (the empty list, not the '
            'missing marker) in the first / middle / last (two) rows, in all rows but one or in all rows, with extra batches in '
            'which the rows made of empty cells come last / first / in the middle / alone; ~25% let the caller edit the returned '
            'name list (reverse, append, clear, overwrite, pop, sort) and / or the returned tensor (zero_, add_, fill_(nan)) in '
            'place after every call (40% of them on a single-stype frame). Direct oracles for them: every stype group re-built '
            'eagerly, outside StypeWiseFeatureEncoder, from [col_stats[name] for name in names] has the same statistics-derived '
            'buffers, the same parameter shapes and - with the parameters copied - bit-identical output '
            '(C12/stats-of-named-columns); after an in-place edit of the returned values the same call returns what it returned '
            'before (C12/returned-value-aliases-encoder-state), and at the end the frame\'s col_names_dict / feature storage and '
            'the encoder\'s own name table are unchanged and equal to an identically built twin that was never handed to the '
            'encoder (C12/returned-value-aliases-frame).')
    partial_notes = (
        'IEEE rounding, torch kernels (einsum, EmbeddingBag, LayerNorm): modelled, compared numerically on every run '
        '(float64, rel 1e-9 + abs 1e-12)',
        'LinearBucketEncoder can only run in float32 (its mask is built with .float()); TimestampEncoder casts to float32 '
        'before the cyclic encoding: those two are compared with a widened, magnitude-scaled tolerance (4e-6 x sum|terms|)',
        'LinearModelEncoder (wrapper around user models): the user model is opaque to the library; the check plugs in stub '
        'models (tanh(Linear(cell)), one per column, widths 1-3) registered in a col_to_model_cfg dict whose insertion '
        'order is unrelated to the frame\'s column order, on numerical / categorical / timestamp / embedding columns '
        '(Model/EncoderLM.lean; multicategorical and text columns are not exercised with it). GELU post modules are not '
        'exercised (Lean Float has no erf)',
        'float64-only numerical values (0.1, 1/3, 2^24+1, ...) are generated for every encoder except LinearBucketEncoder '
        '(float32 only); magnitudes beyond float32 (1e39) are not generated: (x - mean) / std overflows inside the encoder',
        'calendar_ranges (component ranges of every epoch second) is a hypothesis here; it is proved in C01',
        'StackEncoder followed by LayerNorm is only generated with <= 2 channels (where mean(v, v) = v exactly): normalising a '
        'vector of identical entries is pure cancellation (0 / sqrt(eps) plus the rounding of the mean, which depends on the '
        'summation order), so kernel and model legitimately differ around the 9th digit (observed: 257 channels with the cell '
        '-2^31, and 3 channels with an evaluation value far outside the training range)',
        '+-inf cells are clamped by nan_to_num to the largest finite value: finite by the letter, compared as such; '
        'they are not combined with LayerNorm (overflow to NaN inside the post module is outside the encoder)',
        'encoding_never_fails / stypewise_accepts_materialized take "the block is what the mappers emit for fitted data" '
        '(Fitted) and "imputed values are fitted values" (FittedStats) as hypotheses; both are re-checked on the real frame '
        'and statistics of every generated case (oracle_fitted). FittedStats needs a non-empty fitted vocabulary for '
        'MultiCategoricalEmbeddingEncoder(na_strategy=ZEROS): the generator keeps such columns non-empty and the '
        'empty-vocabulary input (on which the real encoder raises) is recorded under observed_outside_generated_domain',
        'C12/names-sorted (the name list of a stype is sorted) is a fact about the DataFrame converter (C01), asserted only for '
        'frames that come straight from it without merged text / image children; for merged and transformed frames the lists '
        'are unsorted by construction and the property only ties names[j] to slice j',
        'CatToNumTransform is only combined with numerical + categorical tables (its transformed_stats drop every other '
        'stype) and refuses an evaluation frame one of whose categorical columns holds no fitted category at all (a ValueError '
        'of the transform, not of the encoder): such evaluation tables are not generated. MutualInformationSort needs '
        'scikit-learn, which is not installed: its two scoring functions are replaced by |covariance with the target| for the '
        'duration of the constructor call; the re-ordering code of the transform is the library\'s',
    )
    assumptions = ('PyTorch follows the IEEE NaN rules made explicit in SOps.lift (NaN propagates through arithmetic, '
                   'comparisons with NaN are false, bucketize(NaN) = last bucket, nan_to_num(NaN) = 0)',)

    def __init__(self):
        self._req = {}
        self._viol = {}
        self._lazy_ctx = None

    # ------------------------------------------------------------------ generation
    lean_targets = ('TFVerif.Proofs.EncoderLM',)
    SCALE_SHARE = {0: 0.22, 1: 0.10, 2: 0.04}

    def generate(self, rng, n, tier):
        for i in range(n):
            if rng.random() < 0.15:
                yield self.gen_lazy(rng)
            else:
                force = G.NUM_CLASSES[i % 5] if rng.random() < 0.3 else None
                case = G.gen_case(rng, force_num_cls=force, stress=self.gen_stress(rng))
                self.restrict(case, rng)
                yield case

    def gen_stress(self, rng):
        """the stress options of one wise case (harness/encgen.gen_case): families 1-6 of the hardening brief"""
        from harness import stress
        lvl, r = self.level, rng.random
        o = {'lm': 0.5 if r() < 0.3 else 0.0,                 # LinearModelEncoder with stub user models
             'extra': r() < 0.3,                               # keys for stypes the dataset has no column of
             'special': r() < 0.2, 'edge': r() < 0.25, 'f64': r() < 0.5}
        if r() < 0.3:
            o['hist'] = [rng.choice(['fwd', 'fwd_row', 'fwd_empty', 'train_fwd', 'train_eval', 'reset'])
                         for _ in range(rng.choice([1, 1, 2]))]
        if r() < 0.15:
            # (int32 calendar values are not generated: see observed_outside_generated_domain)
            o['block_dtype'] = {s: d for s, d in (('numerical', 'f32'), ('categorical', 'i32')) if r() < 0.7}
        # third hardening round: frames whose column lists are NOT in the converter's sorted order (children of the
        # embedding stype merged behind the plain columns; frames produced by transforms), empty ragged cells in chosen
        # rows, callers that edit returned values in place
        if r() < 0.22:
            o['children'] = True
        if r() < 0.22:
            o['layout'] = rng.choice(['permuted', 'permuted', 'permuted', 'cat_to_num', 'cat_to_num', 'mi_sort'])
        if r() < 0.2:
            o['empty'] = rng.choice(G.EMPTY_PATTERNS)
        if r() < 0.25:
            o['mutate'] = [rng.choice(['names:reverse', 'names:append', 'names:clear', 'names:set0', 'names:pop', 'names:sort',
                                       'x:zero', 'x:add', 'x:nan']) for _ in range(rng.choice([1, 2, 2, 3]))]
            o['single'] = r() < 0.4          # (one stype only: the concatenation of one list / one tensor)
        if r() < self.SCALE_SHARE.get(lvl, 0.05):
            def size(cap):
                xs = [x for x in stress.ladder(lvl) if x <= cap]
                return (max(xs) if r() < 0.5 else rng.choice(xs)) + rng.choice([0, 0, 1, 2])
            dim = rng.choice(['rows', 'rows', 'batch', 'ncols', 'ncat', 'width', 'ch'])
            o['scale'] = dim
            if dim == 'rows':
                o['rows'] = size(260 if lvl == 0 else 4100)      # (beyond ~4 100 rows the JSON correspondence no longer fits in memory)
            elif dim == 'batch':
                o['batch'] = size(260 if lvl == 0 else 4100)
            elif dim == 'ncols':
                o['ncols'] = size(260 if lvl == 0 else 520)
                o['rows'] = rng.choice([2, 3, 4])
            elif dim == 'ncat':
                o['ncat'] = size(260 if lvl == 0 else 1030)
                o['cell'] = rng.choice([17, 33, 65])
                o['rows'] = o['ncat'] + rng.randint(0, 9)
            elif dim == 'width':
                o['width'] = size(130 if lvl == 0 else 520)
            else:
                o['ch'] = size(70 if lvl == 0 else 260)
        return o

    @staticmethod
    def restrict(case, rng):
        """stay inside the property's domain / the comparable part (see partial_notes)"""
        e = case['enc'].get('numerical')
        if e and (e['post']['t'] == 'ln' or e['cls'] == 'linmodel'):
            # (+-inf through tanh(0 * inf + c) of a stub model / through LayerNorm is NaN inside the user's module)
            for c in case['cols']:
                if c['stype'] == 'numerical':
                    c['values'] = [0.5 if isinstance(v, str) else v for v in c['values']]
        e = case['enc'].get('numerical')
        if e and e['cls'] == 'stack' and e['post']['t'] == 'ln' and case['ch'] > 2:
            # StackEncoder repeats one number v over all channels; LayerNorm of a constant vector is 0/sqrt(eps) up to the
            # rounding of mean(v, ..., v), which is exact only for 1 or 2 channels (v+v+v is not): pure cancellation noise
            e['post'] = {'t': 'tanh'}
        e = case['enc'].get('multicategorical')
        if e and e['na'] == 'zeros':
            # ZEROS imputes category 0; a column without any category has none (reported separately)
            for c in case['cols']:
                if c['stype'] == 'multicategorical' and not any(v for v in c['values']):
                    c['values'][[i for i, v in enumerate(c['values']) if v is not None][0]] = 'p'

    def gen_lazy(self, rng):
        st = rng.choice(G.STYPES)
        cls = rng.choice(LAZY_CLASSES[st])
        e = G.gen_encoder(rng, st, cls if st == 'numerical' else None)
        e['post'] = {'t': rng.choice(['none', 'relu'])}
        bad = rng.random() < 0.2
        if bad:
            e['na'] = BAD_NA[st]
        ctor = [a for a in ATTRS if rng.random() < 0.3]
        rest = [a for a in ATTRS if a not in ctor]
        rng.shuffle(rest)
        events = []
        drop_last = rng.random() < 0.2 and rest
        for j, a in enumerate(rest):
            if rng.random() < 0.25:
                events.append({'k': a, 'v': None})                      # assigning None supplies nothing
            if rng.random() < 0.2:
                events.append({'k': 'post_module', 'v': 7})             # unrelated attribute
            if rng.random() < 0.2 and j < len(rest) - 1:
                events.append({'k': a, 'v': self.tok(rng, a)})          # overwritten before completion
            if drop_last and j == len(rest) - 1:
                continue                                                # never supplied: stays incomplete
            events.append({'k': a, 'v': self.tok(rng, a)})
        if not rest and rng.random() < 0.7:
            a = rng.choice(ATTRS)                                       # re-assigning the same value (StypeWise does)
            events.append({'k': a, 'v': 'same'})
        ctor_vals = {a: self.tok(rng, a) for a in ctor}
        for ev in events:
            if ev['v'] == 'same':
                ev['v'] = ctor_vals[ev['k']]
        return {'kind': 'lazy', 'stype': st, 'enc': e, 'ctor': ctor_vals, 'events': events, 'bad_na': bad,
                'pseed': rng.randrange(1 << 30)}

    @staticmethod
    def tok(rng, a):
        return {'out_channels': rng.choice([2, 3]), 'stats_list': rng.choice([1, 2]), 'stype': 1}[a]

    # ------------------------------------------------------------------ real side
    def real(self, case):
        key = core.stable_hash(case)
        self._viol[key] = None
        if case['kind'] == 'lazy':
            return self.real_lazy(case, key)
        if case['kind'] == 'table':
            return self.real_table(case, key)
        t = G.T()
        torch, stype = t['torch'], t['stype']
        extra = case.get('extra_keys', [])
        must_raise = any(not k['ok'] for k in extra)
        try:
            ds, tf, wise = G.build(case)
        except Exception as ex:
            self._req[key] = self.requests_from_case_only(case)
            if not (must_raise and isinstance(ex, ValueError)):
                self._viol[key] = core.Violation('C12/construct-raises', f'building the feature encoder for admissible choices '
                                                 f'raised {type(ex).__name__}: {str(ex)[:200]}', case, 'accepted', 'raises')
            return {'construct': 'raises'}
        if must_raise:
            bad = [k for k in extra if not k['ok']][0]
            self._req[key] = self.requests_from_case_only(case)
            self._viol[key] = core.Violation(
                'C12/admits-unsupported-pairing-for-absent-stype',
                f'StypeWiseFeatureEncoder accepted stype_encoder_dict[{bad["stype"]}] = {CLASS_NAMES[CLASS_INDEX[bad["cls"]]]} '
                f'(an unsupported pairing / a child-stype key); the dataset has no {bad["stype"]} column, but the pairing '
                f'must be rejected at construction all the same', case, 'ValueError at construction', 'accepted')
            return {'construct': 'ok'}
        stypes = G.canonical_stypes(tf)
        n = case['nrows']
        out = {'construct': 'ok', 'buffers': {}, 'batches': [], 'layout': G.names_layout(tf)}
        mutate = case.get('mutate')
        if mutate:
            names0 = {s.value: list(v) for s, v in tf.col_names_dict.items()}
            feats0 = {s.value: G.snapshot(f) for s, f in tf.feat_dict.items()}
        reqs = []
        groups = []
        tol_cols = []               # per column: ('none'|'cc'|'rcc', data)
        for s in stypes:
            m, e = wise.encoder_dict[s], case['enc'][s]
            out['buffers'][s] = G.buffers_real(m, e)
            r, c, f = G.feat_json(tf, s)
            names = list(tf.col_names_dict[stype(s)])
            spec = G.enc_json(ds, tf, wise, case, s)
            reqs.append({'cmd': 'enc', 'enc': spec, 'feat': f, 'rows': r, 'cols': c, 'names': len(names),
                         'colNames': names})
            groups.append((s, spec, names))
            tol_cols.append(self.group_tol(m, e, tf.feat_dict[stype(s)], c))
        whole = None
        for b in case['batches']:
            try:
                tfb = G.select(tf, b)
                x, names = wise(tfb)
                res = {'shape': list(x.shape), 'names': list(names), 'data': x.detach().double().tolist()}
                if b['t'] == 'whole':
                    whole = x.detach().clone() if mutate else x.detach()
                if mutate:
                    self._viol[key] = self._viol[key] or self.oracle_mutation(case, b, wise, tfb, x, names, res, mutate)
            except Exception as ex:
                res = 'raises'
                self._viol[key] = self._viol[key] or core.Violation(
                    f'C12/batch-raises/{b["t"]}', f'encoding batch {b} of the materialized frame raised '
                    f'{type(ex).__name__}: {str(ex)[:200]}', case, 'a tensor', 'raises')
                tfb = None
            out['batches'].append(res)
            greq = []
            if tfb is not None:
                for s, spec, names in groups:
                    r, c, f = G.feat_json(tfb, s)
                    greq.append({'enc': spec, 'feat': f, 'rows': r, 'cols': c, 'names': names})
            else:
                greq = None
            reqs.append({'cmd': 'wise', 'groups': greq} if greq is not None else None)
        # per-batch absolute tolerance [rows][cols][ch] for the float32 parts
        out['tol'] = [self.batch_tol(tol_cols, G.batch_rows(b, n), case['ch']) for b in case['batches']]
        self._req[key] = self.requests_from_case_only(case) + [r for r in reqs if r is not None]
        out['skipped'] = [i for i, r in enumerate(reqs[len(stypes):]) if r is None]
        if mutate and self._viol[key] is None:
            self._viol[key] = self.oracle_untouched(case, tf, wise, names0, feats0)
        if self._viol[key] is None:
            self._viol[key] = self.oracle_wise(case, ds, tf, wise, whole, out)
        return out

    @staticmethod
    def oracle_mutation(case, b, wise, tfb, x, names, res, ops):
        """the returned values belong to the caller: editing the returned name list / tensor in place and calling again
        gives what the first call gave"""
        torch = G.T()['torch']
        keep = x.detach().clone()
        with torch.no_grad():
            for op in ops:
                if op == 'names:reverse':
                    names.reverse()
                elif op == 'names:append':
                    names.append('__appended_by_caller__')
                elif op == 'names:clear':
                    names.clear()
                elif op == 'names:set0' and names:
                    names[0] = '__renamed_by_caller__'
                elif op == 'names:pop' and names:
                    names.pop()
                elif op == 'names:sort':
                    names.sort(reverse=True)
                elif op == 'x:zero':
                    x.zero_()
                elif op == 'x:add':
                    x.add_(1.5)
                elif op == 'x:nan':
                    x.fill_(float('nan'))
        try:
            x2, names2 = wise(tfb)
        except Exception as ex:       # noqa
            return core.Violation('C12/returned-value-aliases-encoder-state', f'batch {b}: after the caller edited the values '
                                  f'returned by the first call in place ({ops}) the second call raised {type(ex).__name__}: '
                                  f'{str(ex)[:150]}', case, 'the same result as the first call', 'raises')
        if list(names2) != res['names'] or not torch.equal(torch.nan_to_num(x2.detach()), torch.nan_to_num(keep)):
            return core.Violation('C12/returned-value-aliases-encoder-state', f'batch {b}: after the caller edited the values '
                                  f'returned by the first call in place ({ops}) the same call returns something else',
                                  case, {'names': res['names']}, {'names': list(names2)})
        return None

    @staticmethod
    def oracle_untouched(case, tf, wise, names0, feats0):
        """after all calls and all in-place edits of returned values: the TensorFrame and the encoder's own column lists
        are what they were, and the frame equals an identically built twin nobody touched"""
        now = {s.value: list(v) for s, v in tf.col_names_dict.items()}
        if now != names0:
            return core.Violation('C12/returned-value-aliases-frame', f'editing returned values in place ({case["mutate"]}) '
                                  'changed the col_names_dict of the TensorFrame', case, names0, now)
        own = {s.value: list(v) for s, v in wise.col_names_dict.items() if s.value in names0}
        if own != names0:
            return core.Violation('C12/returned-value-aliases-encoder-state', f'editing returned values in place '
                                  f'({case["mutate"]}) changed the encoder\'s col_names_dict', case, names0, own)
        if {s.value: G.snapshot(f) for s, f in tf.feat_dict.items()} != feats0:
            return core.Violation('C12/returned-value-aliases-frame', f'editing returned values in place ({case["mutate"]}) '
                                  'changed the feature tensors of the TensorFrame', case)
        twin = G.adapt_frame(case, G.make_dataset(case).tensor_frame)
        tw = {s.value: list(v) for s, v in twin.col_names_dict.items()}
        if tw != now or {s.value: G.snapshot(f) for s, f in twin.feat_dict.items()} != feats0:
            return core.Violation('C12/returned-value-aliases-frame', 'after the calls the TensorFrame differs from an '
                                  'identically built twin that was never handed to the encoder', case, tw, now)
        return None

    @staticmethod
    def group_tol(m, e, feat, ncols):
        """absolute extra tolerance of one stype group: ('none', None) | ('cc', [C][ch]) | ('rcc', [B][C][ch])"""
        torch = G.T()['torch']
        if e['cls'] == 'timestamp':
            return ncols, G.group_tolerance(m, e)
        if e['cls'] == 'bucket':
            x = feat.detach().double()
            if 'fill_values' in m.state_dict():
                x = torch.where(torch.isnan(x), m.fill_values.double(), x)
            bnd = m.boundaries.detach().double()
            mid = []
            for row in x.tolist():
                mrow = []
                for c, v in enumerate(row):
                    b = bnd[c].tolist()
                    if math.isnan(v):
                        mrow.append([0.0] * (len(b) - 1))
                        continue
                    k = sum(1 for q in b[1:-1] if q < v)
                    cell = [1.0 if v > q else 0.0 for q in b[:-1]]
                    cell[k] = (v - b[k]) / (b[k + 1] - b[k] + 1e-8)
                    mrow.append(cell)
                mid.append(mrow)
            return ncols, G.group_tolerance(m, e, mid)
        return ncols, ('none', None)

    @staticmethod
    def batch_tol(tol_cols, rows, ch):
        out = []
        for r in rows:
            row = []
            for ncols, (kind, data) in tol_cols:
                for c in range(ncols):
                    if kind == 'none':
                        row.append([0.0] * ch)
                    elif kind == 'cc':
                        row.append(data[c])
                    else:
                        row.append(data[r][c])
            out.append(row)
        return out

    def real_table(self, case, key):
        """replay of one entry of the absent-key table (extra_checks): one construction on the real code"""
        import torch_frame
        from torch_frame import NAStrategy
        from torch_frame.nn.encoder import StypeWiseFeatureEncoder
        from harness.tabs import encoder as tab
        self._req[key] = []
        if 'present' not in case:
            return {'construct': 'table-entry', 'note': 'see extra_checks (admissibility table)'}
        classes = dict(tab._classes())
        c, st = classes[case['cls']], torch_frame.stype(case['stype'])
        na = None if case['na'] is None else NAStrategy(case['na'])
        other = torch_frame.categorical if st.parent == torch_frame.numerical else torch_frame.numerical
        o_enc = classes['EmbeddingEncoder' if other == torch_frame.categorical else 'LinearEncoder']
        try:
            StypeWiseFeatureEncoder(2, {'c': tab._stats_for(other)}, {other: ['c']},
                                    {st: tab._make(c, na_strategy=na), other: o_enc()})
            acc = True
        except Exception:                   # noqa
            acc = False
        if acc and (st != st.parent or st not in c.supported_stypes):
            self._viol[key] = core.Violation(
                'C12/admits-unsupported-pairing-for-absent-stype', f'construction accepted {case["cls"]} under the key '
                f'{case["stype"]} although the pairing is unsupported (the data has no {case["stype"]} column)', case,
                'ValueError', 'accepted')
        return {'construct': 'accepted' if acc else 'raises'}

    def requests_from_case_only(self, case):
        """the constructor's key-by-key validation of the entries for absent stypes"""
        return [{'cmd': 'accept', 'cls': CLASS_INDEX[k['cls']], 'stype': k['stype'], 'na': k['na'], 'present': False}
                for k in case.get('extra_keys', [])]

    # ------------------------------------------------------------------ direct oracle on the real encoder
    def oracle_wise(self, case, ds, tf, wise, whole, out):
        t = G.T()
        torch, stype = t['torch'], t['stype']
        stypes = [s for s in tf.stypes]
        exp_names = [nm for s in stypes for nm in tf.col_names_dict[s]]
        ncols = len(exp_names)
        n = case['nrows']
        for b, res in zip(case['batches'], out['batches']):
            if res == 'raises':
                continue
            rows = G.batch_rows(b, n)
            if res['shape'] != [len(rows), ncols, case['ch']]:
                return core.Violation('C12/shape', f'batch {b}: output shape {res["shape"]}', case,
                                      [len(rows), ncols, case['ch']], res['shape'])
            if res['names'] != exp_names:
                return core.Violation('C12/names', f'batch {b}: returned column names are not the groups\' names in '
                                      f'canonical stype order', case, exp_names, res['names'])
            flat = [v for r in res['data'] for c in r for v in c]
            if any(math.isnan(v) or math.isinf(v) for v in flat):
                return core.Violation('C12/not-finite', f'batch {b}: output contains nan/inf', case, 'finite', 'nan/inf')
            # a batch is the same rows of the whole frame's encoding (eval mode)
            if whole is not None:
                want = whole[rows].double().tolist() if rows else []
                if not G.close_nested(res['data'], want, out['tol'][case['batches'].index(b)]):
                    return core.Violation('C12/batch-rows', f'batch {b}: encoding of the batch differs from the same rows of '
                                          f'the whole frame\'s encoding', case, want, res['data'])
        # column order: column j of the output is the named column's own encoding
        if whole is not None:
            off = 0
            for s in stypes:
                names = tf.col_names_dict[s]
                xg = wise.encoder_dict[s.value](tf.feat_dict[s], names).detach()
                if not torch.equal(torch.nan_to_num(whole[:, off:off + len(names)].double()), torch.nan_to_num(xg.double())):
                    return core.Violation('C12/column-order', f'columns {off}..{off + len(names)} of the output are not the '
                                          f'{s.value} group\'s encoding', case, names, None)
                if names != sorted(names) and not case.get('layout') and not any(c.get('via') for c in case['cols']):
                    # (a fact about the converter, C01: only merged children / transforms give unsorted lists)
                    return core.Violation('C12/names-sorted', 'group names not sorted', case, sorted(names), names)
                off += len(names)
        return (self.oracle_fitted(case, ds, tf) or self.oracle_embedding_rows(case, ds, tf, wise)
                or self.oracle_named_stats(case, ds, tf, wise, whole)
                or self.oracle_column_axis(case, tf, wise, whole) or self.oracle_linear_model(case, tf, wise, whole)
                or self.oracle_history(case, ds, tf, wise, whole))

    @staticmethod
    def oracle_named_stats(case, ds, tf, wise, whole):
        """"built from the dataset's statistics and column names": position j of a stype group is encoded with the
        statistics of the column called names[j].  Each group is re-built EAGERLY, outside StypeWiseFeatureEncoder, from
        [col_stats[name] for name in names]: same statistics-derived buffers, same parameter shapes and - with the
        parameters copied over - bit-identical output"""
        import json
        t = G.T()
        torch = t['torch']
        if whole is None:
            return None
        off = 0
        for s in tf.stypes:
            names = list(tf.col_names_dict[s])
            e, m = case['enc'][s.value], wise.encoder_dict[s.value]
            C = len(names)

            def bad(what, exp=None, act=None):
                return core.Violation('C12/stats-of-named-columns', f'{s.value} group (columns {names}, {e["cls"]}): {what}',
                                      case, exp, act)
            twin = G.make_stype_encoder(e, case['ch'], lazy=False, stats_list=[ds.col_stats[nm] for nm in names], stype=s,
                                        names=names, col_stats=ds.col_stats, stype_name=s.value)
            if G.is_f32(e):
                twin.float()
            twin.eval()
            ba, bb = G.buffers_real(m, e), G.buffers_real(twin, e)
            if json.dumps(ba, sort_keys=True) != json.dumps(bb, sort_keys=True):
                return bad('the buffers derived from the statistics are not those of the named columns, position by position',
                           bb, ba)
            pa, pb = dict(m.named_parameters()), dict(twin.named_parameters())
            if {k: tuple(v.shape) for k, v in pa.items()} != {k: tuple(v.shape) for k, v in pb.items()}:
                return bad('the per-column parameters do not have the shapes the named columns\' statistics give',
                           {k: list(v.shape) for k, v in pb.items()}, {k: list(v.shape) for k, v in pa.items()})
            with torch.no_grad():
                for k, v in pb.items():
                    v.copy_(pa[k])
                y = twin(tf.feat_dict[s], names)
            if not torch.equal(torch.nan_to_num(y.detach().double()), torch.nan_to_num(whole[:, off:off + C].double())):
                return bad('its slice of the output is not the encoding by an encoder built directly from the named columns\' '
                           'statistics with the same parameters')
            off += C
        return None

    @staticmethod
    def roll_column(tf, s, j):
        """the frame with the cells of column j of stype s moved down by one row (cyclically): every cell stays a value
        of its own column (inside every encoder's domain), no other column is touched"""
        t = G.T()
        torch, stype = t['torch'], t['stype']
        feat = tf.feat_dict[stype(s)]
        if isinstance(feat, torch.Tensor):
            f = feat.clone()
            f[:, j] = torch.roll(feat[:, j], 1, dims=0)
        elif s == 'multicategorical':
            from torch_frame.data import MultiNestedTensor
            cells = G.mnt_cells(feat)
            col = [row[j] for row in cells]
            col = col[-1:] + col[:-1]
            f = MultiNestedTensor.from_tensor_mat([[torch.tensor(col[r] if c == j else cell, dtype=torch.long)
                                                    for c, cell in enumerate(row)] for r, row in enumerate(cells)])
        else:
            from torch_frame.data import MultiEmbeddingTensor
            vals, off = feat.values.clone(), feat.offset.tolist()
            vals[:, off[j]:off[j + 1]] = torch.roll(feat.values[:, off[j]:off[j + 1]], 1, dims=0)
            f = MultiEmbeddingTensor(feat.num_rows, feat.num_cols, vals, feat.offset)
        fd = dict(tf.feat_dict)
        fd[stype(s)] = f
        return t['tf'].TensorFrame(fd, tf.col_names_dict, tf.y)

    def oracle_column_axis(self, case, tf, wise, whole):
        """"... together with the column names in the same order as the tensor's column axis", behaviourally: changing
        the cells of the input column called names[g] changes slice g of the column axis and no other"""
        import random
        torch = G.T()['torch']
        if whole is None or case['nrows'] < 2:
            return None
        r = random.Random(case['pseed'])
        names = [nm for s in tf.stypes for nm in tf.col_names_dict[s]]
        off = 0
        for s in tf.stypes:
            C = len(tf.col_names_dict[s])
            j = r.randrange(C)
            x2, names2 = wise(self.roll_column(tf, s.value, j))
            diff = (torch.nan_to_num(x2.detach().double()) != torch.nan_to_num(whole.double())).any(dim=2).any(dim=0)
            moved = [g for g in range(len(names)) if bool(diff[g])]
            if any(g != off + j for g in moved):
                return core.Violation(
                    'C12/names-vs-column-axis', f'changing only the cells of input column {names[off + j]!r} ({s.value} column '
                    f'{j}, reported at position {off + j} of the returned names) changed the slices '
                    f'{[(g, names[g]) for g in moved]} of the output\'s column axis', case, [off + j], moved)
            self._axis = getattr(self, '_axis', {'conclusive': 0, 'inconclusive': 0})
            self._axis['conclusive' if moved else 'inconclusive'] += 1
            off += C
        return None

    @staticmethod
    def oracle_linear_model(case, tf, wise, whole):
        """LinearModelEncoder: slice j of its block is the user model registered under names[j], applied to the cells of
        column j, times the weight (plus the bias) registered under names[j]"""
        t = G.T()
        torch, stype = t['torch'], t['stype']
        if whole is None:
            return None
        off = 0
        for s in tf.stypes:
            names = tf.col_names_dict[s]
            e = case['enc'][s.value]
            if e['cls'] == 'linmodel':
                m = wise.encoder_dict[s.value]
                feat = m.na_forward(tf.feat_dict[s])
                for j, nm in enumerate(names):
                    col = feat[:, j]
                    if isinstance(col, torch.Tensor):
                        col = col.view(-1, 1, 1) if col.ndim == 1 else col.unsqueeze(1)
                    y = m.model_dict[nm](col) @ m.weight_dict[nm] + m.bias_dict[nm]
                    y = torch.nan_to_num(y, nan=0)
                    if m.post_module is not None:
                        y = m.post_module(y)
                    if not torch.equal(torch.nan_to_num(y[:, 0].detach()), torch.nan_to_num(whole[:, off + j])):
                        return core.Violation(
                            'C12/linear-model-column', f'slice {off + j} of the output (reported as column {nm!r}) is not the '
                            f'encoding of column {nm!r} by the user model / weight / bias registered under that name '
                            f'(col_to_model_cfg was written in the order {list(m.model_dict.keys())}, the frame\'s order '
                            f'is {names})', case, y[:, 0].tolist(), whole[:, off + j].tolist())
            off += len(names)
        return None

    @staticmethod
    def oracle_history(case, ds, tf, wise, whole):
        """whatever was called on the encoder object before, it computes what a freshly constructed encoder carrying the
        same state_dict computes"""
        torch = G.T()['torch']
        if whole is None or not case.get('hist'):
            return None
        twin = G.build_wise({k: v for k, v in case.items() if k != 'hist'}, ds, tf)
        twin.load_state_dict(wise.state_dict())
        x2, _ = twin(tf)
        if not torch.equal(torch.nan_to_num(x2.detach()), torch.nan_to_num(whole)):
            return core.Violation('C12/history-dependent', f'after the calls {case["hist"]} the encoder differs from a fresh '
                                  f'encoder with the same state_dict', case, x2.tolist(), whole.tolist())
        return None

    @staticmethod
    def oracle_fitted(case, ds, tf):
        """the hypothesis `Fitted` of `encoding_never_fails`, read off the real frame and the real statistics:
        whatever the mappers emitted for the fitted columns is inside the encoders' domains"""
        t = G.T()
        stype, Stat = t['stype'], t['Stat']
        CAL = [11, 30, 6, 23, 59, 59]

        def bad(col, what, exp, act):
            return core.Violation('C12/outside-encoder-domain', f'materialized column {col}: {what}', case, exp, act)
        for s in tf.stypes:
            names, feat = tf.col_names_dict[s], tf.feat_dict[s]
            if s == stype.categorical:
                for c, nm in enumerate(names):
                    n = len(ds.col_stats[nm][Stat.COUNT][0])
                    vals = feat[:, c].tolist()
                    if any(not (-1 <= v < n) for v in vals):
                        return bad(nm, 'a category index is outside [-1, number of fitted categories)', f'[-1, {n})', vals)
            elif s == stype.multicategorical:
                cells = G.mnt_cells(feat)
                for c, nm in enumerate(names):
                    n = len(ds.col_stats[nm][Stat.MULTI_COUNT][0])
                    for row in cells:
                        if any(not (-1 <= v < n) for v in row[c]):
                            return bad(nm, 'a multicategorical entry is outside [-1, number of fitted categories)',
                                       f'[-1, {n})', row[c])
            elif s == stype.timestamp:
                x = feat.tolist()
                for c, nm in enumerate(names):
                    lo = int(ds.col_stats[nm][Stat.YEAR_RANGE][0])
                    fills = [[int(v) for v in ds.col_stats[nm][k]] for k in (Stat.NEWEST_TIME, Stat.OLDEST_TIME,
                                                                             Stat.MEDIAN_TIME)]
                    for ts in [row[c] for row in x] + fills:
                        if any(v < 0 for v in ts):
                            continue            # missing cell
                        if len(ts) != 7 or ts[0] < lo or any(not (0 <= v <= m) for v, m in zip(ts[1:], CAL)):
                            return bad(nm, 'calendar components outside the positional / cyclic encodings\' domain',
                                       f'year >= {lo}, components <= {CAL}', ts)
            elif s == stype.embedding:
                dims = [int(ds.col_stats[nm][Stat.EMB_DIM]) for nm in names]
                off = [0]
                for d in dims:
                    off.append(off[-1] + d)
                if feat.offset.tolist() != off or (feat.values.dim() == 2 and feat.values.shape[1] != off[-1]):
                    return bad(names, 'the cumulative EMB_DIM slices do not coincide with the container offsets', off,
                               feat.offset.tolist())
        return None

    @staticmethod
    def oracle_embedding_rows(case, ds, tf, wise):
        """textbook form of the shared embedding table, read off the real module: fitted category `v` of column `c`
        is embedded as row `1 + n_0 + ... + n_{c-1} + v` of a table with `1 + sum(n)` rows (so distinct
        (column, category) pairs never share a row), a missing cell as the padding row 0"""
        t = G.T()
        torch, stype, Stat = t['torch'], t['stype'], t['Stat']
        e = case['enc'].get('categorical')
        if not e or e['cls'] != 'embedding' or 'categorical' not in wise.encoder_dict:
            return None
        m = wise.encoder_dict['categorical']
        names = tf.col_names_dict[stype.categorical]
        ns = [len(ds.col_stats[nm][Stat.COUNT][0]) for nm in names]
        W = m.emb.weight.detach()
        if W.shape[0] != sum(ns) + 1:
            return core.Violation('C12/embedding-table-size', 'the shared embedding table does not have one row per fitted '
                                  '(column, category) pair plus the padding row', case, sum(ns) + 1, W.shape[0])
        C = len(names)
        dtype = tf.feat_dict[stype.categorical].dtype
        for c in range(C):
            for v in [-1] + list(range(ns[c])):
                probe = torch.full((1, C), -1, dtype=dtype)
                probe[0, c] = v
                row = 0 if v < 0 else 1 + sum(ns[:c]) + v
                try:
                    got = m.encode_forward(probe.clone())[0, c].detach()
                except Exception as ex:
                    return core.Violation('C12/embedding-index-out-of-range', f'fitted category {v} of categorical column '
                                          f'{c} ({names[c]}) is outside the embedding table: {type(ex).__name__}', case,
                                          f'row {row} of {W.shape[0]}', 'raises')
                if not torch.equal(got, W[row]):
                    return core.Violation('C12/embedding-row', f'category {v} of categorical column {c} ({names[c]}, fitted '
                                          f'category counts {ns}) is not embedded as row {row} of the shared table '
                                          f'(rows are shared between distinct (column, category) pairs or out of place)',
                                          case, W[row].tolist(), got.tolist())
        return None

    # ------------------------------------------------------------------ lazy construction
    def lazy_ctx(self):
        """one fixed tiny dataset per stype supplying real statistics / frames for the lazy cases"""
        if self._lazy_ctx is None:
            ctx = {}
            for st in G.STYPES:
                vals = {'numerical': [[1.0, None, 2.5], [0.5, 4.0, None]],
                        'categorical': [['a', 'b', None], ['x', None, 'x']],
                        'multicategorical': [['p,q', None, ''], ['q', 'p', None]],
                        'timestamp': [['2001-02-03 04:05:06', None, '1999-12-31 23:59:59'],
                                      [None, '2020-01-01 00:00:00', '2020-06-30 12:00:00']],
                        'embedding': [[[1.0, 2.0], [0.5, 0.25], [3.0, 4.0]], [[1.0], [2.0], [3.0]]]}[st]
                for ncols in (1, 2):
                    case = {'nrows': 3, 'cols': [{'name': f'c{i}', 'stype': st, 'values': vals[i]} for i in range(ncols)]}
                    ds = G.make_dataset(case)
                    ctx[(st, ncols)] = (ds, ds.tensor_frame)
            self._lazy_ctx = ctx
        return self._lazy_ctx

    def real_lazy(self, case, key):
        t = G.T()
        torch, stype = t['torch'], t['stype']
        st, e = case['stype'], case['enc']
        ctx = self.lazy_ctx()
        counter = {'n': 0}

        def value(a, tok):
            if tok is None:
                return None
            if a == 'out_channels':
                return tok
            if a == 'stype':
                return stype(st)
            if a == 'stats_list':
                ds, tf = ctx[(st, tok)]
                return [ds.col_stats[nm] for nm in tf.col_names_dict[stype(st)]]
            if a == 'post_module':
                return G.make_post(e['post'], 2)            # same kind of module: no functional change
            raise ValueError(a)

        base = G.make_stype_encoder(e, 2).__class__

        class Counting(base):
            def init_modules(self):
                counter['n'] += 1
                super().init_modules()
        Counting.__name__ = base.__name__
        kw = dict(post_module=G.make_post(e['post'], 2), na_strategy=G.na_of(e['na']))
        for a in ATTRS:
            kw[a] = value(a, case['ctor'].get(a))
        if e['cls'] == 'periodic':
            kw['n_bins'] = e['n_bins']
        if e['cls'] == 'bag':
            kw['mode'] = e['mode']
        if e['cls'] == 'timestamp':
            kw['out_size'] = e['out_size']
        current = dict(case['ctor'])

        def observe(m):
            ntok = current.get('stats_list')
            built = len(m.state_dict()) > 0 or counter['n'] > 0
            call, seen = 'raises', None
            try:
                m.validate()
                ok = True
            except ValueError:
                ok = False
            if ok:
                ds, tf = ctx[(st, ntok)]
                try:
                    m.eval()
                    o = m(tf.feat_dict[stype(st)], tf.col_names_dict[stype(st)])
                    call = 'ok'
                    seen = [o.shape[2], o.shape[1], 1]
                except Exception as ex:
                    call = f'forward-raises:{type(ex).__name__}'
            return {'fired': counter['n'], 'built': built, 'missing': len(m._missing_attrs), 'call': call, 'seen': seen}

        try:
            m = Counting(**kw)
        except ValueError:
            self._req[key] = [self.lazy_request(case)]
            return {'construct': 'raises'}
        except Exception as ex:             # noqa
            self._req[key] = [self.lazy_request(case)]
            self._viol[key] = core.Violation(
                'C12/lazy-assignment-raises', f'constructing the encoder raised {type(ex).__name__}: {str(ex)[:120]} instead of '
                f'either building it or refusing the configuration with a ValueError', case, 'accepted or ValueError',
                type(ex).__name__)
            return {'construct': 'raises'}
        trace = [observe(m)]
        dead = False
        for ev in case['events']:
            if dead:
                trace.append(None)
                continue
            try:
                setattr(m, ev['k'], value(ev['k'], ev['v']))
                if ev['k'] in ATTRS:
                    current[ev['k']] = ev['v'] if ev['v'] is not None else current.get(ev['k'])
                trace.append(observe(m))
            except ValueError:
                trace.append('raises')
                dead = True
            except Exception as ex:         # noqa  (a refusal has to be the documented ValueError)
                trace.append('raises')
                dead = True
                self._viol[key] = self._viol[key] or core.Violation(
                    'C12/lazy-assignment-raises', f'supplying the lazy attribute {ev["k"]} raised {type(ex).__name__}: '
                    f'{str(ex)[:120]} instead of either completing the encoder or refusing the configuration with a '
                    f'ValueError', case, 'accepted or ValueError', type(ex).__name__)
        self._req[key] = [self.lazy_request(case)]
        # lazy == eager on the real objects: same submodules, same function
        last = trace[-1]
        if not dead and isinstance(last, dict) and last['missing'] == 0:
            try:
                eager_kw = dict(kw)
                for a in ATTRS:
                    eager_kw[a] = value(a, current[a])
                eager = base(**eager_kw).eval()
                sd_e, sd_l = eager.state_dict(), m.state_dict()
                if [(k, tuple(v.shape)) for k, v in sd_e.items()] != [(k, tuple(v.shape)) for k, v in sd_l.items()]:
                    self._viol[key] = core.Violation('C12/lazy-structure', 'lazily completed encoder has different '
                                                     'parameters/buffers than the eagerly constructed one', case,
                                                     list(sd_e), list(sd_l))
                else:
                    m.load_state_dict(sd_e)
                    ds, tf = ctx[(st, current['stats_list'])]
                    f, nm = tf.feat_dict[stype(st)], tf.col_names_dict[stype(st)]
                    if not torch.equal(eager(f, nm), m(f, nm)):
                        self._viol[key] = core.Violation('C12/lazy-function', 'lazy and eager encoder differ on the same input',
                                                         case, None, None)
            except Exception as ex:
                self._viol[key] = core.Violation('C12/lazy-eager-raises', f'eager construction raised {type(ex).__name__} '
                                                 f'although the lazy one completed', case, None, str(ex)[:200])
        elif dead and not case['bad_na']:
            self._viol[key] = core.Violation('C12/lazy-assignment-raises', 'supplying a lazy attribute of an admissibly '
                                             'configured encoder raised (init_modules ran too early or failed)', case,
                                             'accepted', 'raises')
        elif not dead and isinstance(last, dict) and last['missing'] > 0 and last['call'] != 'raises':
            self._viol[key] = core.Violation('C12/incomplete-runs', 'an incompletely specified encoder did not refuse to run',
                                             case, 'raises', last['call'])
        return {'construct': 'ok', 'trace': trace}

    @staticmethod
    def lazy_request(case):
        def ev(k, v):
            return {'k': k, 'v': v}
        ctor = [ev(a, case['ctor'].get(a)) for a in ATTRS] + [ev('post_module', None), ev('na_strategy', None)]
        return {'cmd': 'lazy', 'ctor': ctor, 'events': case['events'], 'initFails': case['bad_na']}

    # ------------------------------------------------------------------ model side
    # core.Check.replay prints the model outcome with json.dumps, which cannot render core.SKIP_MODEL: during a replay
    # an oracle-only case reports a printable marker instead
    _replaying = False

    def replay(self, path):
        self._replaying = True
        return super().replay(path)

    def skip_model(self):
        return 'oracle-only case: not shipped to the Lean model' if self._replaying else core.SKIP_MODEL

    def model_requests(self, case):
        return self._req.get(core.stable_hash(case), [])

    def model_outcome(self, case, replies):
        if case['kind'] == 'table':
            return self.skip_model()
        if case['kind'] == 'lazy':
            rep = replies[0]
            if rep['construct'] != 'ok':
                return {'construct': 'raises'}
            return {'construct': 'ok', 'trace': rep['trace']}
        stypes = [s for s in G.STYPES if s in case['enc']]
        out = {'construct': 'ok', 'buffers': {}, 'batches': []}
        nx = len(case.get('extra_keys', []))
        if any(not rep['wiseKey'] for rep in replies[:nx]):
            return {'construct': 'raises'}
        replies = replies[nx:]
        if not replies:
            return {'construct': 'ok' if any(not k['ok'] for k in case.get('extra_keys', [])) else 'model-not-asked'}
        for s, rep in zip(stypes, replies):
            if rep['construct'] != 'ok':
                return {'construct': 'raises'}
            out['buffers'][s] = G.buffers_model(rep['buffers'], case['enc'][s], s)
        for rep in replies[len(stypes):]:
            if rep.get('construct') != 'ok':
                return {'construct': 'raises'}
            o = rep['out']
            if o == 'raises':
                out['batches'].append('raises')
            else:
                out['batches'].append({'shape': o['shape'], 'names': rep['names'], 'data': G.decode(o['data'])})
        return out

    def equal(self, real, model):
        if isinstance(model, str):
            return model.startswith('oracle-only')
        if real.get('construct') != model.get('construct'):
            return False
        if real['construct'] != 'ok':
            return True
        if 'trace' in real:
            return self.equal_trace(real['trace'], model['trace'])
        if 'buffers' not in real or 'buffers' not in model:
            return 'buffers' not in real and 'buffers' not in model
        for s, br in real['buffers'].items():
            bm = model['buffers'].get(s)
            if bm is None or set(br) != set(bm):
                return False
            for k, a in br.items():
                b = bm[k]
                if k == 'fill_values' and a and 'num' in a:
                    if not (b and 'num' in b and G.close_nested(a['num'], b['num'])):
                        return False
                elif k in ('mean', 'std', 'boundaries'):
                    if not G.close_nested(a, b):
                        return False
                elif a != b:
                    return False
        rb = [b for i, b in enumerate(real['batches']) if i not in real.get('skipped', [])]
        rt = [b for i, b in enumerate(real['tol']) if i not in real.get('skipped', [])]
        if len(rb) != len(model['batches']):
            return False
        for a, b, tol in zip(rb, model['batches'], rt):
            if a == 'raises' or b == 'raises':
                if a != b:
                    return False
                continue
            if a['shape'] != b['shape'] or a['names'] != b['names']:
                return False
            if not G.close_nested(a['data'], b['data'], tol):
                return False
        return True

    @staticmethod
    def equal_trace(ra, ma):
        if len(ra) != len(ma):
            return False
        for a, b in zip(ra, ma):
            if a is None or b is None or a == 'raises' or b == 'raises':
                if a != b:
                    return False
                continue
            if (a['fired'], a['built'], a['missing'], a['call']) != (b['fired'], b['built'], b['missing'], b['call']):
                return False
            if a['seen'] is not None and b['seen'] is not None and a['seen'] != b['seen']:
                return False
        return True

    def oracle(self, case, real_outcome):
        return self._viol.get(core.stable_hash(case))

    def nontrivial_key(self, case, r):
        if case['kind'] == 'table':
            return None
        if case['kind'] == 'lazy':
            return core.stable_hash(case) if case['events'] else None
        if r.get('construct') == 'ok' and r.get('batches') and r['batches'][0] != 'raises' and r['batches'][0]['shape'][0] > 0:
            return core.stable_hash(case)
        return None

    def classify(self, case, r):
        if case['kind'] == 'table':
            return ['kind:table-entry']
        if case['kind'] == 'lazy':
            labs = ['kind:lazy', f"lazy:cls:{case['enc']['cls']}", f"lazy:ctor-attrs:{len(case['ctor'])}",
                    f"lazy:bad-na:{case['bad_na']}"]
            if r.get('construct') == 'ok':
                last = [x for x in r['trace'] if x is not None][-1]
                labs.append('lazy:end:' + ('init-raises' if last == 'raises' else
                                           'complete' if last['missing'] == 0 else 'incomplete-refuses'))
            else:
                labs.append('lazy:end:constructor-raises')
            return labs
        def bucket(v):
            for t in (16385, 4097, 2049, 1025, 513, 257, 129, 65, 33, 17):
                if v >= t:
                    return f'{t}+'
            return str(v)
        labs = ['kind:wise', f"rows:{bucket(case['nrows'])}", f"ch:{bucket(case['ch'])}", f"groups:{len(case['enc'])}",
                f"cols:{bucket(len(case['cols']))}"]
        if case['nrows'] >= 17:
            labs.append(f"scale:rows:{bucket(case['nrows'])}")
        if case['ch'] >= 17:
            labs.append(f"scale:channels:{bucket(case['ch'])}")
        per = {}
        for c in case['cols']:
            per[c['stype']] = per.get(c['stype'], 0) + 1
            if c['stype'] in ('categorical', 'multicategorical'):
                voc = {t for v in c['values'] if v for t in (v.split(',') if c['stype'] == 'multicategorical' else [v])}
                if len(voc) >= 17:
                    labs.append(f"scale:categories:{c['stype']}:{bucket(len(voc))}")
                if voc & (set(G.SPECIAL_CATS) - {'a'}):
                    labs.append('values:sentinel-like-categories')
                if c['stype'] == 'multicategorical' and any(v and v.count(',') >= 16 for v in c['values']):
                    labs.append('scale:cell-length:17+')
            if c['stype'] == 'embedding' and not c.get('via') and len(c['values'][0]) >= 17:
                labs.append(f"scale:embedding-width:{bucket(len(c['values'][0]))}")
            if c['stype'] == 'numerical':
                if any(isinstance(v, float) and v in G.F64_VALUES for v in c['values']):
                    labs.append('dtype:float64-only-values')
                if any(isinstance(v, float) and v in G.EDGE_VALUES for v in c['values']):
                    labs.append('values:edge-magnitudes')
            if c['name'] in G.SPECIAL_NAMES:
                labs.append('values:special-column-names')
        for st, k in per.items():
            if k >= 17:
                labs.append(f'scale:columns:{st}:{bucket(k)}')
        for b in case['batches']:
            if b['t'] in ('list', 'tensor32', 'tensor64') and len(b['idx']) >= 17:
                labs.append(f"scale:batch:{bucket(len(b['idx']))}")
        for k in case.get('extra_keys', []):
            labs.append('cfg:absent-stype-key:' + ('admissible' if k['ok'] else 'inadmissible'))
        for h in case.get('hist', []):
            labs.append(f'hist:{h}')
        labs += G.family_labels(case, r)
        for st, d in (case.get('block_dtype') or {}).items():
            if st in case['enc']:
                labs.append(f'dtype:{st}:{d}')
        for s, e in case['enc'].items():
            if e['cls'] == 'linmodel':
                labs.append(f"cfg:linear-model:{s}:dict-order-{e['cfg_order']}")
        for s, e in case['enc'].items():
            labs.append(f"enc:{e['cls']}" + (f":{e['mode']}" if 'mode' in e else ''))
            labs.append(f"na:{s}:{e['na']}")
            labs.append(f"post:{e['post']['t']}")
        for c in case['cols']:
            if any(v is None for v in c['values']):
                labs.append(f"has-missing:{c['stype']}")
            if c['stype'] == 'numerical' and any(isinstance(v, str) for v in c['values']):
                labs.append('has-inf')
        for b, res in zip(case['batches'], r.get('batches', [])):
            labs.append(f"batch:{b['t']}:" + ('raises' if res == 'raises' else 'ok'))
        if r.get('construct') != 'ok':
            labs.append('construct:raises')
        return labs

    # ------------------------------------------------------------------ exhaustive tables + recorded observation
    def extra_checks(self, rng, tier, report):
        from harness.tabs import encoder as tab
        t = tab.compute()
        nst, ncl, nna = len(t['stypeNames']), len(t['classNames']), len(t['naNames']) + 1
        reqs, keys = [], []
        for ci in range(ncl):
            for si in range(nst):
                for ni in range(nna):
                    reqs.append({'cmd': 'accept', 'cls': ci, 'stype': t['stypeNames'][si],
                                 'na': None if ni == 0 else t['naNames'][ni - 1]})
                    keys.append((ci, si, ni))
        bad = 0
        try:
            reps = core.Driver(self.driver).ask(reqs)
            direct, wise = set(map(tuple, t['directAccepted'])), set(map(tuple, t['wiseAccepted']))
            for k, rep in zip(keys, reps):
                sup = k[1] in t['supported'][k[0]]
                if rep['supported'] != sup or rep['wise'] != (k in wise) or (sup and rep['direct'] != (k in direct)):
                    bad += 1
                    what = (f"{t['classNames'][k[0]]} x {t['stypeNames'][k[1]]} x "
                            f"{'None' if k[2] == 0 else t['naNames'][k[2] - 1]}: code supported={sup} "
                            f"wise-accepts={k in wise} direct-accepts={k in direct if sup else 'n/a'}; model {rep}")
                    report['broken'].append('admissibility table: ' + what)
                    # the property says nonsensical pairings are rejected: an unexpected acceptance is a violation
                    if (k in wise) and not rep['wise']:
                        report['violations'].append(core.Violation(
                            'C12/admits-' + what.split(':')[0], 'construction accepted a pairing the property requires to be '
                            'rejected: ' + what, {'kind': 'table', 'triple': list(k)}, 'raises', 'accepted'))
        except Exception as ex:
            report['broken'].append(f'admissibility table: driver unavailable ({ex})')
        report['extra']['admissibility_table'] = {'triples': len(reqs), 'exhaustive': True, 'disagreements': bad,
                                                  'accepted_by_stypewise': len(t['wiseAccepted'])}
        report['extra']['observed_outside_generated_domain'] = self.probe_empty_vocabulary() + self.probe_absent_bad_na()
        report['extra']['names_vs_column_axis'] = getattr(self, '_axis', {})
        self.absent_key_table(t, report)

    def absent_key_table(self, t, report):
        """every (class, stype, NA strategy) triple as an entry of stype_encoder_dict for a stype the data has NO column
        of (the dataset has one numerical column, or one categorical column when the key is numerical): the property
        requires unsupported pairings / child-stype keys to be rejected at construction regardless; compared with
        the model's key-by-key validation (`wiseKeyOk … false`)"""
        import torch_frame
        from torch_frame import NAStrategy
        from torch_frame.nn.encoder import StypeWiseFeatureEncoder
        from harness.tabs import encoder as tab
        stypes = list(torch_frame.stype)
        nas = [None] + list(NAStrategy)
        classes = tab._classes()
        reqs, keys, code = [], [], []
        for ci, (cn, c) in enumerate(classes):
            for si, st in enumerate(stypes):
                other = torch_frame.categorical if st.parent == torch_frame.numerical else torch_frame.numerical
                o_enc = [cl for n_, cl in classes if n_ == ('EmbeddingEncoder' if other == torch_frame.categorical
                                                            else 'LinearEncoder')][0]
                for ni, na in enumerate(nas):
                    try:
                        StypeWiseFeatureEncoder(2, {'c': tab._stats_for(other)}, {other: ['c']},
                                                {st: tab._make(c, na_strategy=na), other: o_enc()})
                        acc = True
                    except Exception:       # noqa
                        acc = False
                    code.append(acc)
                    keys.append((cn, st, na))
                    reqs.append({'cmd': 'accept', 'cls': ci, 'stype': st.value, 'na': None if na is None else na.value,
                                 'present': False})
        bad = 0
        try:
            reps = core.Driver(self.driver).ask(reqs)
        except Exception as ex:             # noqa
            report['broken'].append(f'absent-key table: driver unavailable ({ex})')
            return
        for (cn, st, na), acc, rep, (_, c) in zip(keys, code, reps, [cl for cl in classes for _ in stypes for _ in nas]):
            must_reject = st != st.parent or st not in c.supported_stypes
            what = f'{cn} under the key {st.value} (na_strategy={None if na is None else na.value}), no {st.value} column in the data'
            if acc and must_reject:
                report['violations'].append(core.Violation(
                    'C12/admits-unsupported-pairing-for-absent-stype', 'construction accepted ' + what +
                    ': an unsupported stype/encoder pairing must be rejected at construction',
                    {'kind': 'table', 'cls': cn, 'stype': st.value, 'na': None if na is None else na.value, 'present': False},
                    'ValueError', 'accepted'))
            if rep['wiseKey'] != acc:
                bad += 1
                report['broken'].append(f'absent-key table: code {"accepts" if acc else "rejects"} {what}; model says {rep["wiseKey"]}')
        report['extra']['absent_key_table'] = {'triples': len(reqs), 'exhaustive': True, 'disagreements': bad,
                                               'accepted': sum(code)}

    @staticmethod
    def probe_absent_bad_na():
        """recorded, not alarmed: an NA strategy that makes no sense for the stype is only rejected when the encoder is
        materialized (init_modules), i.e. never for a key whose stype has no column"""
        t = G.T()
        st, E, NA = t['stype'], t['E'], t['NA']
        case = {'nrows': 2, 'cols': [{'name': 'x', 'stype': 'numerical', 'values': [1.0, 2.0]}]}
        try:
            ds = G.make_dataset(case)
            E.StypeWiseFeatureEncoder(2, ds.col_stats, ds.tensor_frame.col_names_dict,
                                      {st.numerical: E.LinearEncoder(), st.timestamp: E.TimestampEncoder(na_strategy=NA.MEAN)})
            res = 'accepted'
        except Exception as ex:             # noqa
            res = f'{type(ex).__name__}: {str(ex)[:100]}'
        try:
            case = {'nrows': 2, 'cols': [{'name': 't', 'stype': 'timestamp', 'values': ['2001-02-03 04:05:06', None]}]}
            ds = G.make_dataset(case)
            tf = ds.tensor_frame
            enc = E.StypeWiseFeatureEncoder(2, ds.col_stats, tf.col_names_dict, {st.timestamp: E.TimestampEncoder()})
            tf32 = t['tf'].TensorFrame({st.timestamp: tf.feat_dict[st.timestamp].to(t['torch'].int32)}, tf.col_names_dict, tf.y)
            enc(tf32)
            res32 = 'ok'
        except Exception as ex:             # noqa
            res32 = f'{type(ex).__name__}: {str(ex)[:100]}'
        return [{'input': 'a timestamp block converted to int32 (the mapper emits int64) with an NA strategy', 'observed': res32,
                 'note': 'na_forward writes the int64 fill value into the int32 block; not what the mappers emit, hence '
                         'outside the property\'s domain - int32 category indices and float32 numbers are accepted and '
                         'are generated (dtype:* labels)'},
                {'input': 'stype_encoder_dict = {numerical: LinearEncoder(), timestamp: TimestampEncoder(na_strategy=MEAN)} '
                          'on a dataset without timestamp columns', 'observed': res,
                 'note': 'the strategy/stype validation lives in init_modules, which runs only once the lazy attributes are '
                         'supplied; the encoder of an absent stype is never materialized, never attached and never run '
                         '(the pairing checks - supported_stypes, parent stype - do apply to absent stypes and are checked)'}]

    @staticmethod
    def probe_empty_vocabulary():
        """recorded, not alarmed: see the final report of this check's builder"""
        t = G.T()
        case = {'nrows': 3, 'cols': [{'name': 'm', 'stype': 'multicategorical', 'values': ['', None, '']}]}
        try:
            ds = G.make_dataset(case)
            tf = ds.tensor_frame
            st = t['stype'].multicategorical
            enc = t['E'].StypeWiseFeatureEncoder(2, ds.col_stats, tf.col_names_dict,
                                                 {st: t['E'].MultiCategoricalEmbeddingEncoder(na_strategy=t['NA'].ZEROS)})
            enc(tf)
            res = 'ok'
        except Exception as ex:
            res = f'{type(ex).__name__}: {str(ex)[:120]}'
        return [{'input': "multicategorical column ['', None, ''] (no category at all) with "
                          "MultiCategoricalEmbeddingEncoder(na_strategy=ZEROS)", 'observed': res,
                 'note': 'ZEROS imputes category index 0, which does not exist when the fitted vocabulary is empty'}]


CHECK = C12()

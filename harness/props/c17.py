"""C17 - a fitted CatToNumTransform is pure, label-independent and as documented."""
import copy
import warnings

from harness import cattonum17 as cn
from harness import core


class C17(core.Check):
    pid = 'C17'
    driver = 'drv_c17'
    quick_cases = 2100
    thorough_cases = 18000
    rule = ('random training frames (0-10 rows; regression targets incl. NaN, binary and 3-5-class integer targets with '
            'absent classes; 0-3 categorical columns of cardinality 1-4 with ~20% missing entries, 0-2 numerical columns '
            'incl. NaN; COUNT statistics of the frame itself or of a larger dataset; column names that contain "_<digit>") '
            'x 3-6 frames to transform each (the fit frame, row subsets with repetitions, single rows, fresh rows, a '
            'category index not seen at fit time, an all-missing column, a frame without categorical columns, an empty '
            'frame) x labels of the transformed frame (kept, None, all 0, all 1, only {0,1}, larger than any class, float, '
            'NaN) x history (fit->transform*, unfitted, pickle/deepcopy state_dict round trip into a fresh object); '
            'non-trivial = fitted with >= 1 categorical column and >= 1 successful transform of >= 1 row; distinct = case hash. '
            'Hardening families: every returned frame is read right after its call AND after the last call of the history; '
            'frames of the same shape as an earlier one (twin mini-batches), the same rows again, the training frame object '
            'itself, frames obtained by indexing the training frame; histories refit (an earlier fit on another frame / task '
            'type / class count), transform-before-fit then fit, in-memory state_dict sharing between two objects used '
            'alternately; int32 categorical indices, label dtypes bool / uint8 / int16 / int32 / float16 / float64; '
            'numerical payloads -1, 0.5, -0.0, 2^24(+2), +-3e38, 1e-38, +-inf; counts > 2^24 and = 0; names label / '
            'label_prev / w / W / "-1" / "nan"; 2% scale cases from the stress ladder (fit rows, transform rows, categorical '
            'columns, numerical columns, categories per column, classes, number of transform calls)')
    partial_notes = (
        '"the input frame is never modified" is checked on the real objects (values, names, dtypes and y of the input '
        'frame re-read after every call); the functional Lean model cannot express mutation',
        'the real code computes in float32 (`target.float()`), the model in float64: values are compared with relative '
        '1e-6 + absolute 2e-6; label-independence, row-wise and round-trip relations are checked bit-exactly on the real code',
        'the statistics *values* stored under the generated names (MEAN/STD/QUANTILES of the transformed training '
        'columns) are not modelled; only the key set and order are (presence of the three statistics is checked directly)',
        'the one-to-one correspondence of names and statistics is proved under the hypothesis that the generated names '
        'are distinct from each other and from the numerical column names')

    def generate(self, rng, n, tier):
        budget = {0: 1.0e6, 1: 6.0e6, 2: 1.0e7}[self.level]      # volume (cells) the scale cases of one run may take
        for _ in range(n):
            if rng.random() < 0.02:
                case = cn.gen_scale_case(rng, self.level)
                if case['volume'] <= budget:
                    budget -= case['volume']
                    yield case
                    continue
            yield cn.gen_case(rng, self.level)

    def real(self, case):
        return cn.run_real(case)

    def model_requests(self, case):
        if case.get('oracle_only'):
            return []
        return [cn.model_request(case)]

    def model_outcome(self, case, replies):
        if case.get('oracle_only'):
            return core.SKIP_MODEL
        return cn.model_outcome(case, replies[0])

    def equal(self, a, b):
        return cn.close(a, b)

    # ------------------------------------------------------------------ direct oracle (no Lean involved)
    def oracle(self, case, real):
        from torch_frame.data.stats import StatType
        from torch_frame.transforms import CatToNumTransform

        def viol(key, what, exp=None, got=None):
            return core.Violation(key, what, case, exp, got)
        frames = case['transforms']
        # purity of every call that was made
        if real.get('fit_pure') is False:
            return viol('fit/mutates-input', 'fit() modified the training frame')
        for fr, out in zip(frames, real['transforms']):
            if out == 'raises-and-mutated' or (isinstance(out, dict) and not out['pure']):
                return viol('transform/mutates-input', f"transform modified its input frame ({fr['tag']})")
            if isinstance(out, dict) and out.get('stable') is False:
                return viol('transform/result-changed-by-later-call', f"the frame returned for ({fr['tag']}) reads "
                            'differently after later calls on the same transform: the result is not a new frame')
        if real.get('pre_call', 'raises') != 'raises':
            return viol('unfitted/no-raise', 'transform before fit did not raise', 'raises', real['pre_call'])
        if case['scenario'] == 'unfitted':
            for fr, out in zip(frames, real['transforms']):
                if out != 'raises':
                    return viol('unfitted/no-raise', 'transform before fit did not raise', 'raises', out)
            return None
        fit = real['fit']
        y = case['fit']['y']
        cat_names, num_names = case['cat_names'], case['num_names']
        n = len(case['fit']['num'])
        # is the training frame in the property's domain?
        dom = (y is not None and n > 0 and all(k in case['stat_keys'] for k in num_names)
               and all(any(row[j] >= 0 for row in case['fit']['cat']) for j in range(len(cat_names))))
        if dom and 'f' in y and all(v is None for v in y['f']):
            dom = False
        if dom and 'i' in y and min(y['i']) < 0:
            dom = False
        if not dom:
            return None
        if fit == 'raises':
            return viol('fit/raises', 'fit raised on a training frame of the stated domain', 'fitted', fit)
        if not cat_names:
            for fr, out in zip(frames, real['transforms']):
                if out == 'raises':
                    return viol('nocat/raises', 'frame without categorical columns was not passed through')
            return None
        prior = cn.textbook_prior(case)
        K = len(prior) + 1
        exp_new = [f'{c}_{k}' for c in cat_names for k in range(K - 1)]
        exp_names = num_names + exp_new
        if len(set(exp_names)) != len(exp_names):
            return None       # colliding generated names: outside the hypothesis (never generated)
        st = real['state']
        if st.get('state') != 'fitted':
            return viol('state/not-fitted', 'state after fit / state_dict round trip is not a fitted one', 'fitted', st)
        if st['newColumns'] != exp_new:
            return viol('names/generated', 'generated column names', exp_new, st['newColumns'])
        if st['statsKeys'] != exp_names:
            return viol('names/stats-keys', 'transformed statistics keys are not [numerical..., generated...]', exp_names,
                        st['statsKeys'])
        # an independent object for the metamorphic relations
        cat_dt = case.get('cat_dt', 'int64')
        t = CatToNumTransform()
        t.fit(cn.make_tf(case['fit'], num_names, cat_names, cat_dt=cat_dt), cn.make_col_stats(case))
        for name in exp_new:
            s = t.transformed_stats[name]
            if not {StatType.MEAN, StatType.STD, StatType.QUANTILES} <= set(s.keys()):
                return viol('names/stats-content', f'statistics of generated column {name} lack MEAN/STD/QUANTILES')
        for fr, out in zip(frames, real['transforms']):
            tag = fr['tag']
            if fr.get('drop_cat'):
                if out == 'raises':
                    return viol('nocat/raises', 'frame without categorical columns was not passed through')
                continue
            if cn.has_unseen(case, fr):
                if out != 'raises':
                    return viol('unseen/no-raise', 'a category index not seen at fit time did not raise', 'raises', out)
                continue
            if not cn.in_domain(case, fr):
                continue
            if out == 'raises':
                return viol(f'transform/raises/{"y-none" if fr["y"] is None else "y"}',
                            f'transform raised on a frame of the fitted schema ({tag}, labels {fr["y"]})', 'a frame', out)
            if out['numNames'] != exp_names or out['catNames'] != []:
                return viol('names/output', 'output column names', exp_names, [out['numNames'], out['catNames']])
            exp_rows = [cn.textbook_row(case, nr, cr, prior) for nr, cr in zip(fr['num'], fr['cat'])]
            if not cn.close(out['rows'], [[cn.fl(cn.unnull(v)) for v in r] for r in exp_rows], rel=2e-6, abs_=4e-6):
                return viol('values/formula', f'values differ from (count + prior) / (N + 1) ({tag})', exp_rows, out['rows'])
            # label independence: same features whatever the labels of the transformed frame (bit-exact)
            for y2 in (None, {'i': [0] * len(fr['num'])}, {'i': [K + 1] * len(fr['num'])},
                       {'f': [0.5] * len(fr['num'])}, {'i': list(range(len(fr['num'])))}):
                try:
                    o2 = cn.out_repr(t(cn.make_tf(dict(fr, y=y2), num_names, cat_names, cat_dt=cat_dt)))
                except Exception as e:
                    return viol('labels/raises', f'transform raised for labels {y2}: {type(e).__name__}', out['rows'], 'raises')
                if o2['rows'] != out['rows'] or o2['numNames'] != out['numNames']:
                    return viol('labels/differs', f'result depends on the labels of the transformed frame ({y2})',
                                out['rows'], o2['rows'])
            # row-wise: every single row that is itself in the domain gives the same row (bit-exact)
            m = len(fr['num'])
            probe = set(range(m)) if m <= 12 else {0, 1, m // 3, m // 2, m - 2, m - 1} | {(7 * k * k + 3) % m for k in range(6)}
            for i, (nr, cr) in enumerate(zip(fr['num'], fr['cat'])):
                if i not in probe:
                    continue
                single = {'num': [nr], 'cat': [cr], 'y': None}
                if not cn.in_domain(case, single):
                    continue
                try:
                    o1 = cn.out_repr(t(cn.make_tf(single, num_names, cat_names, cat_dt=cat_dt)))
                except Exception as e:
                    return viol('rowwise/raises', f'single row raised: {type(e).__name__}', out['rows'][i], 'raises')
                if o1['rows'] != [out['rows'][i]]:
                    return viol('rowwise/differs', 'a row transformed alone differs from the same row inside the frame',
                                out['rows'][i], o1['rows'])
        return None

    # ------------------------------------------------------------------ evidence
    def nontrivial_key(self, case, real):
        if real.get('state', {}).get('state') != 'fitted':
            return None
        if any(isinstance(o, dict) and o['rows'] and not fr.get('drop_cat') for fr, o in zip(case['transforms'], real['transforms'])):
            return core.stable_hash(case)
        return None

    def classify(self, case, real):
        labs = [f"task:{case['task']}", f"scenario:{case['scenario']}", f"ncat:{min(len(case['cat_names']), 4)}",
                f"nnum:{min(len(case['num_names']), 3)}", f"fitrows:{min(len(case['fit']['num']), 10)}"]
        if 'scale' in case:
            labs.append(f"scale:{case['scale']}")

        def size(what, v):
            for th in (65537, 16385, 4097, 1025, 257, 17):
                if v >= th:
                    labs.append(f'scale:{what}:{th}+')
                    return
        size('fit-rows', len(case['fit']['num']))
        size('categorical-columns', len(case['cat_names']))
        size('numerical-columns', len(case['num_names']))
        size('classes', case['K'] if case['task'] == 'multi' else 2)
        size('categories', max([len(v) for v in case['counts'].values()], default=0))
        size('calls', len(case['transforms']))
        size('transform-rows', max([len(fr['num']) for fr in case['transforms']], default=0))
        if case.get('oracle_only'):
            labs.append('oracle-only')
        if case.get('cat_dt'):
            labs.append(f"dtype:categorical:{case['cat_dt']}")
        yfit = case['fit']['y']
        if yfit and yfit.get('dt'):
            labs.append(f"dtype:fit-labels:{yfit['dt']}")
        if any(c > 2 ** 24 for v in case['counts'].values() for c in v):
            labs.append('value:count>2^24')
        if any(c == 0 for v in case['counts'].values() for c in v):
            labs.append('value:count=0')
        if any(isinstance(x, str) for fr in [case['fit']] + case['transforms'] for row in fr['num'] for x in row):
            labs.append('value:numerical-inf')
        if any(isinstance(x, float) and abs(x) >= 2 ** 24 for fr in [case['fit']] + case['transforms'] for row in fr['num'] for x in row):
            labs.append('value:numerical-edge-magnitude')
        if not case['num_names'] and case['cat_names']:
            labs.append('schema:categorical-only')
        rows_seen = {}
        for k, fr in enumerate(case['transforms']):
            if fr.get('alias'):
                labs.append(f"alias:{fr['alias']}")
            if fr['y'] and fr['y'].get('dt'):
                labs.append(f"dtype:labels:{fr['y']['dt']}")
            m = len(fr['num'])
            if m and m in rows_seen and not fr.get('drop_cat'):
                labs.append('history:same-shape-as-earlier-call')
            rows_seen[m] = k
        if len(case['transforms']) > 1:
            labs.append('alias:results-read-after-later-calls')
        if case.get('prefit') is not None:
            labs.append('history:fitted-before-on-another-frame')
        fit = real['fit']
        labs.append('fit:' + ('none' if fit is None else fit if fit == 'raises' else fit['state']))
        if isinstance(fit, dict) and 'K' in fit:
            labs.append(f"K:{fit['K']}")
        for fr, out in zip(case['transforms'], real['transforms']):
            y = fr['y']
            ylab = 'none' if y is None else 'float' if 'f' in y else ('int<=1' if max(y['i'] or [0]) <= 1 else 'int>1')
            res = 'raises' if out == 'raises' else 'ok'
            labs += [f"frame:{fr['tag']}:{res}", f"y:{ylab}:{res}"]
            if res == 'ok' and any(v < 0 for row in fr['cat'] for v in row):
                labs.append('missing-category-imputed')
        return labs

    def extra_checks(self, rng, tier, report):
        """the branch of the code before b25a0f3 is kept in the model: the driver must say it raises where the design
        round observed RuntimeError / TypeError (a fixed witness; the Lean side also proves it by `decide`)"""
        case = {'task': 'multi', 'K': 3, 'num_names': [], 'cat_names': ['c'], 'scenario': 'normal',
                'fit': {'num': [[], [], []], 'cat': [[0], [0], [1]], 'y': {'i': [0, 1, 2]}},
                'counts': {'c': [2, 1]}, 'stat_keys': ['c', 'target'],
                'transforms': [{'tag': 'subset', 'num': [[], []], 'cat': [[0], [0]], 'y': {'i': [0, 1]}},
                               {'tag': 'subset', 'num': [[], []], 'cat': [[0], [0]], 'y': None},
                               {'tag': 'full', 'num': [[], [], []], 'cat': [[0], [0], [1]], 'y': {'i': [0, 1, 2]}}]}
        try:
            new = core.Driver(self.driver).ask([cn.model_request(case, old=False)])[0]
            old = core.Driver(self.driver).ask([cn.model_request(case, old=True)])[0]
        except Exception as e:
            report['broken'].append(f'old-branch witness: driver unavailable ({e})')
            return
        ok = (old['transforms'][0] == 'raises' and old['transforms'][1] == 'raises' and old['transforms'][2] != 'raises'
              and all(o != 'raises' for o in new['transforms']))
        real = self.real(case)
        ok_real = all(o != 'raises' for o in real['transforms'])
        if not ok:
            report['broken'].append('old-branch witness: the model of the pre-fix branch does not raise where expected')
        if not ok_real:
            report['violations'].append(core.Violation('transform/raises/witness', 'the F9 witness (multiclass fit, rows with '
                                                       'labels <= 1 / y=None) raises again', case, 'frames', real['transforms']))
        report['extra']['old_branch_witness'] = {'model_old_raises': ok, 'real_code_ok': ok_real}
        report['extra']['observed_outside_generated_domain'] = self.outside_domain()
        self.dataset_end_to_end(rng, 150 if tier == 'thorough' else 40, report)

    def outside_domain(self):
        """inputs the hardening round tried and judged outside the property's stated domain; what the live code does
        with them is recorded (not judged)"""
        import torch
        from torch_frame import TensorFrame, stype
        from torch_frame.data.stats import StatType
        from torch_frame.transforms import CatToNumTransform
        cs = {'a': {StatType.COUNT: (['x', 'y'], [3, 1])}, 'n': {StatType.MEAN: 0.0}}

        def frame(cat_dt=torch.int64, num_dt=torch.float32, y=None):
            return TensorFrame({stype.categorical: torch.tensor([[0], [1], [-1], [0]], dtype=cat_dt),
                                stype.numerical: torch.tensor([[0.1], [16777217.0], [1e39], [2.0]], dtype=num_dt)},
                               {stype.categorical: ['a'], stype.numerical: ['n']}, y)

        def attempt(f):
            try:
                return f()
            except Exception as e:  # noqa
                return f'raises:{type(e).__name__}'

        def f64():
            t = CatToNumTransform()
            t.fit(frame(num_dt=torch.float64, y=torch.tensor([0., 1., 1., 0.])), cs)
            out = t(frame(num_dt=torch.float64)).feat_dict[stype.numerical]
            return {'dtype': str(out.dtype), 'column n': [repr(v) for v in out[:, 0].tolist()]}

        def fit_with(cat_dt=torch.int64, y=None):
            t = CatToNumTransform()
            t.fit(frame(cat_dt=cat_dt, y=y), cs)
            return 'fitted'
        return {
            'float64 numerical tensor [0.1, 2^24+1, 1e39, 2.0] (a materialized frame is float32; the result is cast to '
            'float32, so such payloads are rounded / overflow)': attempt(f64),
            'multiclass labels in an int32 tensor at fit time (F.one_hot needs int64)':
                attempt(lambda: fit_with(y=torch.tensor([0, 1, 2, 1], dtype=torch.int32))),
            'categorical indices in an int16 tensor (torch index dtype)':
                attempt(lambda: fit_with(cat_dt=torch.int16, y=torch.tensor([0., 1., 1., 0.]))),
        }

    def dataset_end_to_end(self, rng, n_cases, report):
        """the usual pipeline (DataFrame -> Dataset.materialize() -> fit on the materialized frame with the dataset's
        col_stats -> transform row subsets with / without labels) against the textbook value computed from the
        DataFrame alone: (occurrences of the row's category + prior) / (N + 1), missing -> the most frequent category"""
        import pandas as pd
        import torch
        from torch_frame import TensorFrame, stype
        from torch_frame.data import Dataset
        from torch_frame.transforms import CatToNumTransform
        done = 0
        for it in range(n_cases):
            n = rng.randint(3, 12)
            task = rng.choice(['reg', 'bin', 'multi'])
            K = rng.randint(3, 4) if task == 'multi' else 2
            ncat, nnum = rng.randint(1, 3), rng.randint(0, 2)
            cols = {}
            for j in range(ncat):
                vals = [None if rng.random() < 0.2 else rng.choice(['a', 'b', 'c', 'dd']) for _ in range(n)]
                if all(v is None for v in vals):
                    vals[0] = 'a'
                cols[f'c{j}'] = pd.Series(vals, dtype=object)
            for j in range(nnum):
                cols[f'n{j}'] = pd.Series([rng.randint(-8, 8) / 2.0 for _ in range(n)])
            if task == 'reg':
                y = [rng.randint(-16, 16) / 4.0 for _ in range(n)]
            else:
                y = [rng.randrange(K) for _ in range(n)]
                for k in range(K):
                    y[k % n] = k
            cols['y'] = pd.Series(y)
            df = pd.DataFrame(cols)
            df.index = rng.choice([list(range(n)), list(range(7, 7 + n)), [i // 2 for i in range(n)]])
            c2s = {c: (stype.categorical if c[0] == 'c' else stype.numerical) for c in cols}
            c2s['y'] = stype.numerical if task == 'reg' else stype.categorical
            case = {'pipeline': 'dataset', 'task': task, 'frame': {c: list(map(lambda v: None if v is None else v, cols[c].tolist()))
                                                                  for c in cols}}
            try:
                with warnings.catch_warnings():
                    warnings.simplefilter('ignore')      # numpy-not-writable notice of the categorical mapper
                    ds = Dataset(df, c2s, target_col='y').materialize()
                tf = ds.tensor_frame
                t = CatToNumTransform()
                t.fit(tf, ds.col_stats)
                labels = tf.y.tolist()
                classes = len(set(y))          # a categorical target is mapped to 0..classes-1
                if task == 'multi' and classes > 2:
                    prior = [sum(1 for v in labels if v == k) / n for k in range(classes - 1)]
                else:
                    prior = [sum(labels) / n]
                cat_names = tf.col_names_dict[stype.categorical]
                num_names = tf.col_names_dict.get(stype.numerical, [])
                exp_names = list(num_names) + [f'{c}_{k}' for c in cat_names for k in range(len(prior))]

                def expected(i):
                    row = [float(df[c].iloc[i]) for c in num_names]
                    for c in cat_names:
                        v = df[c].iloc[i]
                        cnts = df[c].value_counts()
                        cnt = int(cnts.max()) if v is None else int(cnts[v])
                        row += [(cnt + p) / (n + 1) for p in prior]
                    return row
                idx = [rng.randrange(n) for _ in range(rng.randint(1, n))]
                for sel, with_y in ((list(range(n)), True), (idx, True), (idx, False)):
                    sub = tf[sel]
                    if (sub.feat_dict[stype.categorical] < 0).all(0).any():
                        continue
                    if not with_y:
                        sub = TensorFrame(sub.feat_dict, sub.col_names_dict, None)
                    out = t(sub)
                    got = out.feat_dict[stype.numerical].tolist()
                    exp = [expected(i) for i in sel]
                    if out.col_names_dict[stype.numerical] != exp_names or list(t.transformed_stats.keys()) != exp_names \
                            or stype.categorical in out.feat_dict or not cn.close(got, exp, rel=2e-6, abs_=4e-6):
                        report['violations'].append(core.Violation(
                            'dataset-pipeline/values-or-names', 'fit on a materialized dataset, transform of rows '
                            f'{sel} (labels {"kept" if with_y else "absent"}): names or values differ from the textbook',
                            case, {'names': exp_names, 'rows': exp}, {'names': out.col_names_dict[stype.numerical], 'rows': got}))
                        return
                done += 1
            except Exception as e:
                report['violations'].append(core.Violation(
                    'dataset-pipeline/raises', f'the materialize -> fit -> transform pipeline raised {type(e).__name__}: {e}',
                    case, 'a transformed frame', 'raises'))
                return
        report['extra']['dataset_pipeline'] = {'frames': done, 'exhaustive': False,
                                               'what': 'DataFrame -> materialize -> fit -> transform vs textbook values'}


CHECK = C17()

"""C03 - column statistics equal their definitions and define the category index space."""
import itertools
import math

from harness import core, statsgen as G


def _bits(c):
    return core.float_bits(G._flt(c))


def _unbits(b):
    if b is None:
        return None
    x = core.bits_float(b)
    return None if math.isnan(x) else x


def _sort_pairs(ps):
    return sorted(([p[0], p[1]] for p in ps), key=lambda p: (str(type(p[0])), p[0]))


class C03(core.Check):
    pid = 'C03'
    driver = 'drv_c03'
    quick_cases = 3000
    thorough_cases = 60000
    rule = ('abstract columns of every stype with statistics (numerical, categorical, multicategorical, '
            'sequence_numerical, timestamp, embedding) drawn from targeted families (random, +/-inf only, all missing, '
            'constant, single value, two values, 13-60 values, frequency ties, two classes, skewed, all blank, repeated '
            'tokens, all-empty sequences, NaN/inf inside sequences, even/odd counts of unsorted timestamps with missing and '
            'unparseable entries in five formats and datetime64, embeddings with a missing first row; float64 edge payloads '
            '(not float32-exact, > 2^24, denormal, -0.0, 1e39), sentinel look-alike categories, integer categories > 2^53, tokens '
            'containing other separators; CategoricalDtype / `string` / nullable and narrow integer dtypes; %f and %z text, '
            'datetime64[s|ms|us|ns] with sub-second parts, tz-aware datetime64 with fixed offsets, object columns of datetime / '
            'Timestamp; list / tuple / set / ndarray cells; every 100th case - 600th in the thorough tier - scales one dimension '
            '(rows, categories, token pool, tokens per cell, cell length, sequence length, embedding width) to a rung of the size '
            'ladder of the stress level; a quarter of the cases compute the statistics twice from one Series) x index labelling '
            '(default, offset, permuted, duplicated, strings, MultiIndex, DatetimeIndex, > 2^40) x observation point (compute_col_stats | Dataset.materialize().col_stats '
            '| as target column); rendered to pandas from the abstract cells (object and str dtype, int64/Int64/float64). '
            'Columns with more than 4 200 usable values are judged by the textbook oracle only (the model sorts by insertion). '
            'A case is non-trivial when the column has at least one usable value (statistics computed, not defaulted); '
            'distinct = distinct hash of the abstract case')
    partial_notes = (
        'sqrt, IEEE rounding and numpy summation order: the theorems are over an ordered field with sqrt as a parameter; '
        'the double-precision instance is compared with the real code to rel 1e-9 + abs 1e-12*max|x| (float32 columns are '
        'computed by numpy in single precision and are not generated)',
        'pandas parsing of time strings and dtype handling are outside the model: the abstract epoch seconds are ground truth, '
        'rendered to strings / datetime64 by the harness; calendar components of the model are validated against Python datetime '
        'by the oracle, not proved',
        'the order of categories with equal counts is pandas\' choice: the observed listing is checked by the proved acceptance '
        'test countsOk (exact counts, completeness, no duplicates, non-increasing) and compared with the model as a set with counts',
        '"compute_col_stats does not modify its input" is checked on the real series (snapshot before/after)',
    )

    def __init__(self):
        self._cache = {}

    _replaying = False

    def replay(self, path):
        self._replaying = True
        return super().replay(path)

    def skip_model(self):
        """SKIP_MODEL for the engine; a printable marker while replaying (core.replay json-dumps the model outcome)"""
        return 'oracle-only case: not shipped to the Lean model' if self._replaying else core.SKIP_MODEL

    # ------------------------------------------------------------------ generation
    def generate(self, rng, n, tier):
        lvl = self.level
        period = 100 if lvl == 0 else 120 if lvl == 1 else 600
        for k in range(n):
            if k % period == 3:
                # one dimension from the size ladder of the stress level, round robin over the stypes / dimensions
                yield G.gen_scaled(rng, lvl, k // period, top=k // period < len(G.SCALE_KINDS))
            else:
                yield G.gen_case(rng)

    # ------------------------------------------------------------------ real side
    def real(self, case):
        r = G.run_real(case)
        vals = []
        if case['stype'] in ('numerical', 'sequence_numerical'):
            vals = G.usable_values(case)
        r['scale'] = max([1.0] + [abs(v) for v in vals])
        self._cache[core.stable_hash(case)] = r
        return r

    # ------------------------------------------------------------------ model side
    def model_requests(self, case):
        st = case['stype']
        cells = case['cells']
        if not G.model_feasible(case):
            return []
        r = self._cache.get(core.stable_hash(case)) or self.real(case)
        reqs = [{'cmd': 'tables'}]
        if st == 'numerical':
            reqs.append({'cmd': 'num', 'cells': [_bits(c) for c in cells]})
        elif st == 'sequence_numerical':
            reqs.append({'cmd': 'seq', 'cells': [None if c is None else [_bits(x) for x in c] for c in cells]})
        elif st in ('categorical', 'multicategorical'):
            for key in ('obs', 'obs_ds'):
                obs = r.get(key) or [[], []]
                cats, counts = obs
                if st == 'categorical':
                    kind = case['kind']
                    ok = all(isinstance(c, str) if kind == 'str' else (isinstance(c, int) and not isinstance(c, bool))
                             for c in cats)
                    reqs.append({'cmd': 'cat', 'kind': kind, 'cells': cells,
                                 'obs_cats': cats if ok else [], 'obs_counts': counts if ok else []})
                else:
                    ok = all(isinstance(c, str) for c in cats)
                    reqs.append({'cmd': 'multi', 'mode': case['mc_mode'], 'sep': case['sep'] or '', 'cells': cells,
                                 'obs_cats': cats if ok else [], 'obs_counts': counts if ok else []})
        elif st == 'timestamp':
            reqs.append({'cmd': 'time', 'cells': [None if (c is None or c == 'garbage') else c for c in cells]})
        elif st == 'embedding':
            reqs.append({'cmd': 'emb', 'cells': [None if c is None else [core.float_bits(x) for x in c] for c in cells]})
        elif st == 'text_embedded':     # the (stub) embedder maps every row, missing or not, to a vector of the given width
            reqs.append({'cmd': 'emb', 'cells': [[core.float_bits(1.0)] * case['width'] for _ in cells]})
        return reqs

    def model_outcome(self, case, replies):
        st = case['stype']
        if not G.model_feasible(case):
            return self.skip_model()
        tables = replies[0]
        keys = sorted(dict((a, b) for a, b in tables['statsFor'])[st])
        keys_after = sorted(dict((a, b) for a, b in tables['statsAfter'])[st])
        has_ds = case['mode'] in ('dataset', 'target')
        out = {'direct': None, 'dataset': None, 'bridge': None}
        if st in ('numerical', 'sequence_numerical'):
            rep = replies[1]
            d = {'mean': _unbits(rep['mean']), 'std': _unbits(rep['std']), 'q': [_unbits(x) for x in rep['q']],
                 'keys': keys}
            out['direct'] = d
            out['dataset'] = d if has_ds else None
        elif st in ('categorical', 'multicategorical'):
            def counts(rep):
                return {'pairs': _sort_pairs(rep['pairs']), 'nonincr': rep['sorted'], 'nodup': True,
                        'accepted': rep['accepted'], 'keys': keys}
            out['direct'] = counts(replies[1])
            if has_ds:
                rep = replies[2]
                if case['mode'] == 'target' and len(rep['pairs']) == 2:
                    out['dataset'] = {'list': [[p[0], p[1]] for p in rep['target']], 'keys': keys}
                else:
                    out['dataset'] = counts(rep)
                out['bridge'] = rep['enc'] if st == 'categorical' else [sorted(x) for x in rep['enc']]
        elif st == 'timestamp':
            rep = replies[1]
            d = {'yr': rep['yr'], 'new': rep['new'], 'old': rep['old'], 'med': rep['med'], 'keys': keys}
            out['direct'] = d
            out['dataset'] = d if has_ds else None
        elif st == 'embedding':
            d = {'dim': replies[1]['dim'], 'keys': keys}
            out['direct'] = d
            out['dataset'] = d if has_ds else None
        elif st == 'text_embedded':
            out['direct'] = {'keys': keys}
            out['dataset'] = {'keys': keys_after, 'dim': replies[1]['dim']} if has_ds else None
        if isinstance(out['dataset'], dict):
            out['dataset'] = dict(out['dataset'], keys=keys_after)
        return out

    # ------------------------------------------------------------------ comparison
    def equal(self, real, model):
        if not isinstance(model, dict):
            return False
        scale = real.get('scale', 1.0)

        def eq(a, b):
            if isinstance(a, float) or isinstance(b, float):
                if a is None or b is None or isinstance(a, (str, list, dict)) or isinstance(b, (str, list, dict)):
                    return False
                return abs(a - b) <= 1e-9 * max(abs(a), abs(b)) + 1e-12 * scale
            if isinstance(a, dict) and isinstance(b, dict):
                return a.keys() == b.keys() and all(eq(a[k], b[k]) for k in a)
            if isinstance(a, list) and isinstance(b, list):
                return len(a) == len(b) and all(eq(x, y) for x, y in zip(a, b))
            return type(a) == type(b) and a == b
        return all(eq(real.get(k), model.get(k)) for k in ('direct', 'dataset', 'bridge'))

    # ------------------------------------------------------------------ oracle
    def oracle(self, case, real_outcome):
        v = G.oracle(case, real_outcome)
        if v is None:
            return None
        key, what, exp, got = v
        return core.Violation(key, what, case, exp, got)

    def nontrivial_key(self, case, r):
        st = case['stype']
        if st in ('numerical', 'sequence_numerical'):
            ok = bool(G.usable_values(case))
        elif st == 'multicategorical':
            ok = isinstance(r.get('direct'), dict) and bool(r['direct'].get('pairs'))
        elif st == 'timestamp':
            ok = any(isinstance(c, int) for c in case['cells'])
        elif st == 'text_embedded':
            ok = case['mode'] == 'dataset'
        else:
            ok = any(c is not None for c in case['cells'])
        return core.stable_hash(case) if ok else None

    def classify(self, case, r):
        st = case['stype']
        labs = [f'stype:{st}', f'family:{st}/{case["family"]}', f'mode:{case["mode"]}', f'index:{case.get("index")}',
                f'rows:{min(len(case["cells"]), 13)}{"+" if len(case["cells"]) > 13 else ""}']
        if len(case['cells']) >= 17:
            from harness import matgen as mg
            labs.append(mg.size_label('rows', len(case['cells'])))
        labs.append('path:computed' if self.nontrivial_key(case, r) else 'path:defaults')
        if case.get('scale'):
            from harness import matgen as mg
            labs.append(mg.size_label(case['scale'][0], case['scale'][1]) or f"scale:{case['scale'][0]}:small")
        if not G.model_feasible(case):
            labs.append('judged:oracle-only(too large for the Lean model)')
        if case.get('twice'):
            labs.append('history:statistics-computed-twice-from-one-series')
        if case.get('prelude_sep') or case.get('prelude_fmt'):
            labs.append('shared-raw:same-series-under-another-configuration-first')
        if case.get('box'):
            labs.append(f'container:{st}/{case["box"]}')
        if st == 'timestamp' and case.get('r'):
            rr = case['r']
            labs.append(f'dtype:time/{rr["kind"]}' + (f'[{rr["unit"]}]' if rr['kind'] != 'str' else f'/{rr["dtype"]}'))
            if rr.get('tz') is not None or rr['kind'] == 'dt64tz':
                labs.append('dtype:tz-aware' + (':nonzero-offset' if (rr.get('tz') or rr.get('tzname') not in (None, 'UTC', '+00:00')) else ''))
            if rr.get('frac') is not None:
                labs.append('dtype:sub-second')
        if st in ('numerical', 'sequence_numerical') and case['family'] == 'special':
            labs.append('value:float64-edge-payloads')
        if st == 'categorical' and any(c in ('-1', 'nan', 'None', '<NA>', '', -1) for c in case['cells'][:300]):
            labs.append('value:sentinel-like-category')
        if st == 'categorical' and any(isinstance(c, int) and abs(c) > 2 ** 24 for c in case['cells'][:300]):
            labs.append('value:integer-category>2^24')
        if case.get('extra_emb_width'):
            labs.append('two-embedding-blocks')
        for w in ('direct', 'dataset'):
            if r.get(w) == 'raises':
                labs.append(f'raises:{st}/{w}')
        if st == 'categorical':
            labs.append(f'dtype:cat/{case["dtype"]}')
            d = r.get('dataset')
            if isinstance(d, dict) and 'list' in d:
                labs.append('binary-target-resorted')
            dd = r.get('direct')
            if isinstance(dd, dict):
                cs = [p[1] for p in dd['pairs']]
                if len(cs) != len(set(cs)):
                    labs.append('count-ties')
        if st == 'multicategorical':
            labs.append(f'dtype:multi/{case["mc_mode"]}/{case["dtype"]}')
        if st == 'timestamp':
            labs.append(f'fmt:{case["fmt"]}')
            k = sum(isinstance(c, int) for c in case['cells'])
            if k:
                labs.append('times:even' if k % 2 == 0 else 'times:odd')
            if any(c == 'garbage' for c in case['cells']):
                labs.append('has-unparseable')
        if st == 'numerical':
            labs.append(f'dtype:num/{case["dtype"]}')
        return labs

    # ------------------------------------------------------------------ exhaustive small boxes
    def extra_checks(self, rng, tier, report):
        try:
            report['extra']['observed_outside_generated_domain'] = G.probe_outside_domain()
        except Exception as e:   # noqa
            report['extra']['observed_outside_generated_domain'] = [f'probe failed: {type(e).__name__}: {e}']
        L = 5 if tier == 'thorough' else 4
        cases = []
        for n in range(1, L + 1):
            for cells in itertools.product([1.0, 2.5, -4.0, 'inf', None][: (5 if n <= 4 else 4)], repeat=n):
                cases.append({'stype': 'numerical', 'family': 'box', 'dtype': 'float64', 'cells': list(cells),
                              'index': None, 'index_seed': 0, 'mode': 'direct'})
        for n in range(1, L + 2):
            for cells in itertools.product(['a', 'b', None], repeat=n):
                cases.append({'stype': 'categorical', 'family': 'box', 'kind': 'str', 'dtype': 'object',
                              'cells': list(cells), 'index': None, 'index_seed': 0,
                              'mode': 'target' if any(c is not None for c in cells) and n >= 2 else 'direct'})
        for n in range(1, L + 3):       # median index: every count 1..L+2, every rotation
            base = [86400 * 400 * (i + 1) for i in range(n)]
            for rot in range(n):
                cells = base[rot:] + base[:rot]
                cases.append({'stype': 'timestamp', 'family': 'box', 'fmt': '%Y-%m-%d', 'cells': cells + [None],
                              'index': None, 'index_seed': 0, 'mode': 'direct'})
        bad = 0
        reals = [self.real(c) for c in cases]
        for c, r in zip(cases, reals):
            v = self.oracle(c, r)
            if v is not None:
                report['violations'].append(v)
        try:
            reqs, spans = [], []
            for c in cases:
                rq = self.model_requests(c)
                spans.append((len(reqs), len(reqs) + len(rq)))
                reqs += rq
            replies = core.Driver(self.driver).ask(reqs)
            for c, r, (a, b) in zip(cases, reals, spans):
                m = self.model_outcome(c, replies[a:b])
                if not self.equal(r, m):
                    bad += 1
                    if bad <= 3:
                        report['broken'].append(f'correspondence (small box): model and code differ on {c}')
                        report.setdefault('disagree_samples', []).append({'case': c, 'real': r, 'model': m})
        except Exception as e:
            report['broken'].append(f'small box: driver unavailable ({e})')
        report['extra']['small_boxes'] = {
            'cases': len(cases), 'disagreements': bad, 'exhaustive': True,
            'what': f'all numerical columns of length 1..{L} over {{1.0, 2.5, -4.0, inf, missing}}; all categorical columns of '
                    f'length 1..{L + 1} over {{a, b, missing}} (as target when possible); every rotation of 1..{L + 2} '
                    f'distinct dates plus a missing cell (median index)'}


CHECK = C03()

"""C16 - user text/image embedders and tokenizers get lists of strings, once per row, in row order, in
consecutive chunks of at most batch_size; outputs are assembled row-wise."""
import math

from harness import chunk16 as ck
from harness import core


class C16(core.Check):
    pid = 'C16'
    driver = 'drv_c16'
    quick_cases = 4500
    thorough_cases = 40000
    rule = ('random text / image-path columns (0-8 rows; strings from a pool incl. "", unicode, "nan"/"None" look-alikes; '
            '~28% missing cells as None / float nan / pandas.NA) in object, str and string dtype, seven index labelings '
            '(range, offset, duplicated, shuffled, strings, negative, constant), batch_size in {None, 1..n+1} (3% 0), '
            'recording stubs for text embedder, image embedder and tokenizer in both output formats (1-3 keys, fixed or '
            'ragged token widths); 60% through the mapper classes directly, 40% through Dataset(...).materialize() with '
            '1-3 text columns; a case is non-trivial when it has >= 2 rows and (a missing cell or >= 2 calls); distinct = '
            'distinct case hash. Hardening families: string pool with trailing / embedded NUL, sentinel look-alikes ("-1", '
            '"nan", "None", "<NA>", "NaT"), separators / newlines inside values, case pairs and prefixes; numpy.float64 nan '
            'as a missing cell; series that are strided views of longer series, big-int / float index labels; tokenizer stubs '
            'whose per-sentence (per-call) mappings enumerate their keys in a different order per sentence (rev / rot), '
            'returned as dict / OrderedDict / UserDict / MappingProxyType; embedder outputs in float32 / float64 / int64; '
            '8% histories of ONE mapper object over 2-3 series (same or other text) with every result read only after the '
            'last call and the series compared with identically built twins; 6% Datasets with ONE config object (one stub) '
            'for all columns of the stype, columns sharing raw values, other stypes (numerical / categorical / precomputed '
            'embedding) next to the text columns, shuffled insertion orders of the frame / col_to_stype / config dicts; 2% '
            'scale cases with one size from the stress ladder (rows up to 65 537 embed / 16 385 tokenize, number of calls, '
            'cell length, number of text columns, number of keys, embedding / token width) combined with missing cells, '
            'duplicates and off-default batch sizes (2, 16, 17, 64, 255-257, 1000, 1024, n-1, n, n+1, n/2, n/3)')
    partial_notes = (
        '"never a float or None" is a statement about Python objects: in the Lean model the callable\'s argument type is '
        'String by construction; the Python type of every element of every recorded call is checked on the real code',
        'how pandas prints a missing cell (str of what Series.tolist() returns, per dtype) is a parameter of the theorems; '
        'the concrete table (None/nan/<NA>) is checked by the correspondence only',
        'determinism of the user callable is a hypothesis (the stubs are pure functions of the string)')

    # ------------------------------------------------------------------ cases
    def generate(self, rng, n, tier):
        # scale cases are limited by a volume budget per run (cells + characters), so that the thorough tier does not
        # multiply the long inputs with its case count
        budget = {0: 1.0e6, 1: 6.0e6, 2: 1.0e7}[self.level]
        for _ in range(n):
            case = ck.gen_case(rng, self.level)
            if 'scale' in case:
                vol = ck.volume(case)
                if vol > budget:
                    case = ck.gen_case(rng, self.level, scale=False)
                else:
                    budget -= vol
            yield case

    def real(self, case):
        if case['path'] == 'history':
            return ck.run_history(case)
        if case['path'] == 'mapper':
            col = case['cols'][0]
            ser = ck.make_series(col, case['index'], case['n'], case['iseed'])
            return {col['name']: ck.run_mapper(col, ser)}
        return ck.run_dataset(case)

    def model_requests(self, case):
        if case.get('oracle_only'):
            return []
        return [ck.model_request(col) for col in case['cols']]

    def model_outcome(self, case, replies):
        if case.get('oracle_only'):
            return core.SKIP_MODEL
        res = {col['name']: ck.model_col_outcome(rep) for col, rep in zip(case['cols'], replies)}
        if case['path'] == 'dataset' and any(r['out'] == 'raises' for r in res.values()):
            return 'raises'
        if case['path'] == 'dataset' and any(c.get('ord', 'fixed') != 'fixed' for c in case['cols']):
            for r in res.values():      # see chunk16.run_dataset: the merged dict's key order is not per column
                if r['out'] != 'raises' and isinstance(r['out']['ok'], list):
                    r['out'] = {'ok': sorted(r['out']['ok'], key=lambda km: km[0])}
        if case['path'] == 'history':
            for r in res.values():
                r['input_intact'] = True
        return res

    # ------------------------------------------------------------------ direct oracle (no Lean involved)
    def oracle(self, case, real):
        n = case['n']
        if real == 'raises':
            return core.Violation('dataset/raises', 'Dataset.materialize raised on a column of strings / missing cells',
                                  case, 'a materialized frame', 'raises')
        for col in case['cols']:
            r = real[col['name']]
            tag = col['kind']
            bs = col['bs']

            def viol(what, exp=None, got=None):
                return core.Violation(f'{tag}/{what}', f'column {col["name"]} ({tag}, dtype {col["dtype"]}, '
                                      f'batch_size {bs}, {n} rows): {what}', case, exp, got)
            if bs == 0 or n == 0:
                continue        # outside the property's domain (batch_size >= 1, a column has rows)
            if r['containers'] not in (['list'],):
                return viol('argument is not a list', 'list', r['containers'])
            if r['argtypes'] not in (['str'], []):
                return viol('callable received a non-string element', ['str'], r['argtypes'])
            calls = r['calls']
            flat = [x for c in calls for x in c]
            if len(flat) != n:
                return viol('rows not covered exactly once', n, len(flat))
            # expected strings: the cell's text; a missing cell as the str() of the pandas scalar at that position
            if r.get('input_intact') is False:
                return viol('the input series was modified by the call', 'unchanged series', 'changed')
            ser = ck.make_series(col, case['index'], n, case['iseed'])
            for i, c in enumerate(col['cells']):
                exp = c['s'] if 's' in c else str(ser.iloc[i])
                if 'm' in c and exp not in ('None', 'nan', '<NA>'):
                    return viol('unexpected rendering of a missing cell', 'None/nan/<NA>', exp)
                if flat[i] != exp:
                    return viol('row order / rendering: element i of the concatenated calls is not row i', exp, flat[i])
            if bs is None:
                if len(calls) != 1:
                    return viol('batch_size=None must make exactly one call', 1, len(calls))
            else:
                sizes = [len(c) for c in calls]
                if any(s != bs for s in sizes[:-1]) or not (1 <= sizes[-1] <= bs) or len(sizes) != math.ceil(n / bs):
                    return viol('chunk sizes', f'{math.ceil(n / bs)} chunks of {bs} (last 1..{bs})', sizes)
            if r['out'] == 'raises':
                return viol('assembly raised', 'a container', 'raises')
            if isinstance(r['out'], dict) and 'dtype-changed' in r['out']:
                return viol('the assembled embedding does not keep the dtype of the callable\'s output',
                            r['out']['dtype-changed'][0], r['out']['dtype-changed'][1])
            rows = ck.rows_of(r['out']['ok'], col)
            if col['kind'] in ('text_emb', 'image_emb'):
                exp_rows = [ck.emb_f(col['D'], s) for s in flat]
                if rows != exp_rows or r['out']['ok']['R'] != n or r['out']['ok']['C'] != 1:
                    return viol('row i of the embedding is not the callable\'s output for row i', exp_rows, rows)
            else:
                exp_rows = {k: [ck.tok_g(col['keys'], col['W'], s, k) for s in flat] for k in col['keys']}
                if rows != exp_rows:
                    return viol('row i of the token tensors is not the callable\'s output for row i', exp_rows, rows)
            # metamorphic: unbatched, other batch sizes and (fixed width) the other tokenizer format agree
            others = {None, 1, n, n + 1, max(1, n - 1)} if n <= 300 else {None, n + 1, max(1, n - 1), 257}
            key_sorted = case['path'] == 'dataset' and any(c.get('ord', 'fixed') != 'fixed' for c in case['cols'])

            def norm(out):      # chunk16.run_dataset reports the keys of such a frame sorted
                if key_sorted and isinstance(out, dict) and isinstance(out.get('ok'), list):
                    return {'ok': sorted(out['ok'], key=lambda km: km[0])}
                return out
            for b2 in others - {bs}:
                r2 = ck.run_mapper(col, ser, bs=b2)
                r2['out'] = norm(r2['out'])
                if r2['out'] != r['out']:
                    return viol('batched and unbatched results differ', r['out'], {'batch_size': b2, 'out': r2['out']})
            if col['kind'] in ('tok_map', 'tok_list') and col['W'] is not None:
                other = dict(col, kind='tok_list' if col['kind'] == 'tok_map' else 'tok_map')
                r3 = ck.run_mapper(other, ser)
                r3['out'] = norm(r3['out'])
                if r3['out'] != r['out']:
                    return viol('the two tokenizer output formats assemble differently', r['out'], r3['out'])
        return None

    # ------------------------------------------------------------------ evidence
    def nontrivial_key(self, case, real):
        if case['n'] < 2 or real == 'raises':
            return None
        for col in case['cols']:
            r = real[col['name']]
            if r['out'] != 'raises' and (any('m' in c for c in col['cells']) or len(r['calls']) >= 2):
                return core.stable_hash(case)
        return None

    def classify(self, case, real):
        n = case['n']
        labs = [f"path:{case['path']}", f"rows:{n if n <= 8 else '9+'}", f"index:{case['index']}",
                f"cols:{min(len(case['cols']), 4)}"]
        if 'scale' in case:
            labs.append(f"scale:{case['scale']}")
        if case.get('oracle_only'):
            labs.append('oracle-only')

        def size(what, v):
            for t in (65537, 16385, 4097, 1025, 257, 17):
                if v >= t:
                    labs.append(f'scale:{what}:{t}+')
                    return
        size('rows', n)
        size('columns', len(case['cols']))
        if case.get('shared'):
            labs.append('alias:one-config-for-all-columns')
        if case['path'] == 'history':
            labs.append('history:one-mapper-many-series')
            labs.append('alias:results-read-after-later-call')
        for x in case.get('extra', []):
            labs.append(f'config:extra-stype:{x}')
        if 'order' in case:
            labs.append('config:dict-orders-shuffled')
        if len(case['cols']) > 1 and any(a['cells'] == b['cells'] and a is not b
                                         for a in case['cols'][:3] for b in case['cols'][:3]):
            labs.append('alias:columns-share-raw-values')
        for col in case['cols']:
            bs = col['bs']
            rel = ('none' if bs is None else 'zero' if bs == 0 else 'one' if bs == 1 and n > 1 else
                   'gt_n' if bs > n else 'eq_n' if bs == n else 'divides' if n % bs == 0 else
                   'rem1' if n % bs == 1 else 'rem')
            labs += [f"kind:{col['kind']}", f"dtype:{col['dtype']}", f"bs:{rel}"]
            if col is not case['cols'][0] and len(case['cols']) > 4:
                continue        # many-column frames: per-column labels of the first column only
            if col.get('ord', 'fixed') != 'fixed':
                labs.append(f"tokout:key-order:{col['ord']}")
            if col.get('mtype', 'dict') != 'dict':
                labs.append(f"tokout:mapping-type:{col['mtype']}")
            if col.get('odt', 'f32') != 'f32':
                labs.append(f"embout:dtype:{col['odt']}")
            if any(c.get('np') for c in col['cells']):
                labs.append('missing:numpy-nan')
            txt = [c['s'] for c in col['cells'] if 's' in c]
            if any(t.endswith('\x00') for t in txt):
                labs.append('value:trailing-NUL')
            if any(t in ('-1', 'nan', 'None', '<NA>', 'NaT', '-1.0') for t in txt):
                labs.append('value:sentinel-look-alike')
            if len(set(txt)) < len(txt):
                labs.append('value:duplicate-texts')
            size('cell-length', max([len(t) for t in txt], default=0))
            if 'bs' in col and col['bs']:
                size('batch-size', col['bs'])
            if col['kind'].startswith('tok'):
                size('keys', len(col['keys']))
                size('width', col['W'] or 0)
            else:
                size('width', col['D'])
            for m in sorted({c['m'] for c in col['cells'] if 'm' in c}):
                labs.append(f"missing:{col['dtype']}/{m}")
            if col['kind'].startswith('tok'):
                labs.append('tokwidth:' + ('ragged' if col['W'] is None else 'fixed'))
            r = real if real == 'raises' else real[col['name']]
            labs.append('outcome:' + ('raises' if r == 'raises' or r['out'] == 'raises' else 'ok'))
            if r != 'raises':
                labs.append(f"calls:{min(len(r['calls']), 5)}")
                size('calls', len(r['calls']))
        return labs

    def extra_checks(self, rng, tier, report):
        """exhaustive box: every (n, batch_size) with n in 0..N, batch_size in {None, 0..n+1}, x callable kind x dtype,
        fixed cell pattern with every missing kind; code vs model and the direct oracle"""
        N = 9 if tier == 'thorough' else 6
        cases = []
        for n in range(0, N + 1):
            for bs in [None] + list(range(0, n + 2)):
                for kind in ck.KINDS:
                    for dt in ck.DTYPES:
                        cells = [({'m': ck.MISSING[i % 3]} if i % 2 == 1 else {'s': ck.STR_POOL[(i * 5 + n) % len(ck.STR_POOL)]})
                                 for i in range(n)]
                        col = {'name': 'c0', 'kind': kind, 'dtype': dt, 'cells': cells, 'bs': bs}
                        if kind in ('text_emb', 'image_emb'):
                            col['D'] = 2
                        else:
                            col['keys'] = ['input_ids', 'attention_mask']
                            col['W'] = 3 if kind == 'tok_map' else None
                        cases.append({'path': 'mapper', 'n': n, 'index': 'range', 'cols': [col], 'iseed': 0})
        bad = 0
        try:
            replies = core.Driver(self.driver).ask([self.model_requests(c)[0] for c in cases])
        except Exception as e:
            report['broken'].append(f'batch box: driver unavailable ({e})')
            return
        for case, rep in zip(cases, replies):
            r = self.real(case)
            m = self.model_outcome(case, [rep])
            if r != m:
                bad += 1
                if bad <= 3:
                    report['broken'].append(f"correspondence (batch box): n={case['n']} bs={case['cols'][0]['bs']} "
                                            f"{case['cols'][0]['kind']}/{case['cols'][0]['dtype']}")
                    report.setdefault('disagree_samples', []).append({'case': case, 'real': r, 'model': m})
            v = self.oracle(case, r)
            if v is not None:
                report['violations'].append(v)
        report['extra']['batch_box'] = {'cases': len(cases), 'n': f'0..{N}', 'batch_size': 'None, 0..n+1',
                                        'kinds': ck.KINDS, 'dtypes': ck.DTYPES, 'exhaustive': True,
                                        'disagreements': bad}


CHECK = C16()

"""C02 - materialization is positional and produces a canonical schema."""
from harness import core
from harness import matgen as mg
from harness.props import c01


def nan_target(frame):
    """a numerical target with a missing cell: TensorFrame.__eq__ compares y with allclose WITHOUT equal_nan,
    so such a frame is not even equal to itself; the library-level `==` is then not consulted (logged)"""
    t = next((c for c in frame['cols'] if c['name'] == frame['target']), None)
    return bool(t and t['stype'] == 'numerical' and any(c is None for c in t['cells']))


def gen_variant(rng, frame, force=None):
    n, k = frame['n'], len(frame['cols'])
    what = force or rng.choice(['relabel', 'relabel', 'colperm', 'both'])
    labels = mg.gen_labels(rng, n, 'range')
    dfperm, dictperm = list(range(k)), list(range(k))
    if what in ('relabel', 'both'):
        labels = mg.gen_labels(rng, n, rng.choice(['offset', 'perm', 'perm', 'str', 'dup', 'dupall', 'concat', 'iloc',
                                                   'setindex', 'negative', 'float', 'multiindex', 'datetime', 'bool',
                                                   'nanfloat', 'bigint', 'catindex', 'spread', 'spread']))
    if what in ('colperm', 'both'):
        rng.shuffle(dfperm)
        rng.shuffle(dictperm)
        if k > 1 and dictperm == list(range(k)):
            dictperm = dictperm[1:] + dictperm[:1]
    return {'what': what, 'labels': labels, 'dfperm': dfperm, 'dictperm': dictperm}


class C02(core.Check):
    pid = 'C02'
    driver = 'drv_c01'
    quick_cases = 400
    thorough_cases = 5000
    rule = ("C01's abstract frames (all its dtype / value / container / shared-raw-text / configuration families; every 30th case - "
            '150th in the thorough tier - scales one dimension to a rung of the size ladder of the stress level: long frames under '
            'shuffled, duplicated or huge integer labels, > 256 columns under a column permutation, many categories, ...), '
            'each materialized once under the default RangeIndex / given column order and then '
            'under 3 variants drawn from: relabelled index (offset, negative, permuted, string, float, duplicate labels '
            'by assignment / set_index, all-equal labels, MultiIndex, DatetimeIndex, CategoricalIndex, bool, NaN and > 2^40 labels, '
            'pd.concat of RangeIndex pieces, iloc out of a larger frame), '
            'permuted DataFrame columns AND independently permuted col_to_stype dict, or both; with / without target '
            '(numerical, 1/2/3+-class categorical, timestamp). Compared: every cell of every variant with the Lean '
            'model, tf == tf_variant through TensorFrame.__eq__ in both directions and cell-wise through the '
            'canonicaliser, col_names_dict, the complete col_stats, task_type, num_classes. Non-trivial = base and all '
            'variants materialized; distinct = hash of (frame, variants).')
    partial_notes = (
        'theorems are stated inside the typed domain ConvFrameOK (distinct column names, no text_tokenized column, >= 1 '
        'row and >= 1 feature column, one cell per row, uniform embedding widths); relabel_invariant needs no such '
        'hypothesis',
        'colperm_invariant permutes the DataFrame columns and col_to_stype TOGETHER (the model\'s Dataset reads '
        'col_to_stype in column order) and states dict equality (Python ==) of col_names_dict / feat_dict / col_stats; '
        'independent orders are proved at converter level (colperm_invariant_converter) and exercised by the '
        'correspondence (dfperm and dictperm are drawn independently)',
        'TensorFrame.__eq__ itself is not modelled here (C08): tf == tf_variant through the library is checked on the '
        'real objects only',
        'num_classes_matches_target assumes the fitted category list is an admissible value_counts index of the target '
        '(validCats: duplicate-free, exactly the observed values); that is checked against the real list on every '
        'run (catsValid); the generated task_type table covers class counts 0..6, task_type_table all counts',
        'pandas index machinery (set_index / concat / iloc producing the labels) is outside the model: the model '
        'receives the resulting label list',
        'statistics other than category list, EMB_DIM and YEAR_RANGE (mean, quantiles, time statistics) are compared '
        'real-vs-real under relabelling / permutation only; their definitions belong to C03',
        'a numerical target with a missing cell makes TensorFrame.__eq__ false even reflexively (allclose without '
        'equal_nan on y): the library-level == is skipped for those frames and they are counted in the histogram; '
        'the cell-wise comparison still applies',
        'a one-class categorical target makes num_classes assert (documented guard): logged, compared as "raises"',
    )

    def __init__(self):
        self._side = {}

    _replaying = False

    def replay(self, path):
        self._replaying = True
        return super().replay(path)

    def skip_model(self):
        """SKIP_MODEL for the engine; a printable marker while replaying (core.replay json-dumps the model outcome)"""
        return 'oracle-only case: not shipped to the Lean model' if self._replaying else core.SKIP_MODEL

    def extra_checks(self, rng, tier, report):
        try:
            report['extra']['observed_outside_generated_domain'] = [
                x for x in mg.probe_outside_domain() if 'Categorical' in x['input']]
        except Exception as e:   # noqa
            report['extra']['observed_outside_generated_domain'] = [f'probe failed: {type(e).__name__}: {e}']

    def generate(self, rng, n, tier):
        lvl = self.level
        period = 30 if lvl < 2 else 150
        for k in range(n):
            focus = [None, 'multicategorical', 'embedding', 'text_embedded', 'categorical', 'timestamp'][k % 6]
            if k % period == 5:
                # one dimension from the size ladder (long frames under shuffled / duplicated labels, > 256 columns under
                # a column permutation, many categories ...)
                dims = ['rows', 'cols', 'cats', 'rows', 'cols', 'multicats', 'tokens', 'celllen', 'embwidth', 'seqlen']
                frame = mg.gen_scaled_frame(rng, lvl, dims[(k // period) % len(dims)], top=k // period < len(dims))
                forces = ['both'] if mg.frame_items(frame) > 20000 else ['relabel', 'colperm']
            else:
                frame = mg.gen_frame(rng, focus=focus, level=lvl)
                forces = ['relabel', 'colperm', None]
            yield {'frame': frame, 'variants': [gen_variant(rng, frame, f) for f in forces]}

    # ------------------------------------------------------------------ real
    def real(self, case):
        frame = case['frame']
        st, ds, _ = c01.materialize_real(frame)
        side = {'cats': {}, 'errors': []}
        self._side[id(case)] = side
        if st == 'raises':
            side['errors'].append(ds)
            return 'raises'
        base = c01.outcome_of(ds, frame)
        side['cats'] = {c: s['cats'] for c, s in base['ok']['stats'].items()}
        full = mg.canon_stats_full(ds.col_stats)
        skip_eq = nan_target(frame)
        out = {'base': base, 'variants': []}
        for v in case['variants']:
            st2, ds2, _ = c01.materialize_real(frame, v['labels'], v['dfperm'], v['dictperm'])
            if st2 == 'raises':
                side['errors'].append(ds2)
                out['variants'].append('raises')
                continue
            o = c01.outcome_of(ds2, frame)
            if skip_eq:
                eq = eq_rev = 'skipped-nan-y'
            else:
                eq = bool(ds.tensor_frame == ds2.tensor_frame)
                eq_rev = bool(ds2.tensor_frame == ds.tensor_frame)
            out['variants'].append({'out': o, 'eq': eq, 'eq_rev': eq_rev,
                                    'stats_equal': mg.canon_stats_full(ds2.col_stats) == full})
        if not mg.model_feasible(frame):
            # too large for the list-based Lean model: judged by the oracle right away, only a digest is kept
            side['verdict'] = self.judge(case, out)
            side['judged'] = True
            return {'oracle-only': core.stable_hash(out), 'variants': ['raises' if v == 'raises' else 'ok' for v in out['variants']],
                    'base': {'ok': {'taskType': base['ok']['taskType'], 'tf': {'names': base['ok']['tf']['names']}}}}
        return out

    # ------------------------------------------------------------------ model
    def model_requests(self, case):
        frame = case['frame']
        if not mg.model_feasible(frame):
            return []
        side = self._side.get(id(case), {'cats': {}})
        req = {'cmd': 'mat'}
        req.update(mg.model_frame(frame, side['cats']))
        req['variants'] = [{'labels': [mg.model_label(x) for x in v['labels']['values']], 'perm': v['dictperm']}
                           for v in case['variants']]
        return [req]

    def model_outcome(self, case, replies):
        frame = case['frame']
        if not mg.model_feasible(frame):
            return self.skip_model()
        reps = replies[0]
        base = c01.model_view(reps[0], frame)
        if base == 'raises':
            return 'raises'
        skip_eq = nan_target(frame)
        out = {'base': base, 'variants': []}
        for rep in reps[1:]:
            o = c01.model_view(rep, frame)
            if o == 'raises':
                out['variants'].append('raises')
                continue
            same = o['ok']['tf'] == base['ok']['tf']
            e = 'skipped-nan-y' if skip_eq else same
            out['variants'].append({'out': o, 'eq': e, 'eq_rev': e,
                                    'stats_equal': o['ok']['stats'] == base['ok']['stats']})
        return out

    # ------------------------------------------------------------------ oracle
    def oracle(self, case, real_outcome):
        side = self._side.get(id(case), {})
        if side.get('judged'):
            return side['verdict']
        return self.judge(case, real_outcome)

    def judge(self, case, real_outcome):
        frame = case['frame']
        errs = self._side.get(id(case), {}).get('errors', [])
        if real_outcome == 'raises':
            return core.Violation('materialize-raises', f'materialize() raised on an in-domain frame: {errs[:1]}', case,
                                  'a TensorFrame', errs[:1])
        base = real_outcome['base']['ok']
        v = c01.check_cells(frame, base['tf'], base['stats'], 'base frame')
        if v:
            return core.Violation(v[0], v[1], case, v[2], v[3])
        # task type / class count match the target column
        if frame['target'] is not None:
            tcol = next(c for c in frame['cols'] if c['name'] == frame['target'])
            ncls = len(mg.observed_values(tcol)) if tcol['stype'] == 'categorical' else 0
            want_t = mg.expected_task(frame, ncls)
            want_n = ncls if (tcol['stype'] == 'categorical' and ncls > 1) else 'raises'
            if base['taskType'] != want_t:
                return core.Violation('task-type', f'task_type {base["taskType"]} for a {tcol["stype"]} target with {ncls} classes',
                                      case, want_t, base['taskType'])
            if base['numClasses'] != want_n:
                return core.Violation('num-classes', f'num_classes {base["numClasses"]} but the target has {ncls} classes',
                                      case, want_n, base['numClasses'])
        for var, o in zip(case['variants'], real_outcome['variants']):
            tag = var['what'] + '/' + var['labels']['kind']
            if o == 'raises':
                return core.Violation(f'variant-raises/{tag}', f'materialize() raised after {tag}: {errs[:1]}', case,
                                      'the same TensorFrame', errs[:1])
            vo = o['out']['ok']
            v = c01.check_cells(frame, vo['tf'], vo['stats'], f'variant {tag}', var['dictperm'])
            if v:
                return core.Violation(f'{v[0]}/{tag}', v[1], case, v[2], v[3])
            if vo['tf'] != base['tf']:
                return core.Violation(f'not-equal-cellwise/{tag}', f'TensorFrame changed under {tag}', case, base['tf'], vo['tf'])
            if o['eq'] is False or o['eq_rev'] is False:
                return core.Violation(f'not-equal-lib-eq/{tag}', f'tf == tf_variant is False under {tag}', case, True,
                                      [o['eq'], o['eq_rev']])
            if not o['stats_equal']:
                return core.Violation(f'stats-differ/{tag}', f'col_stats changed under {tag}', case, base['stats'], vo['stats'])
            if (vo['taskType'], vo['numClasses']) != (base['taskType'], base['numClasses']):
                return core.Violation(f'task-differs/{tag}', f'task_type / num_classes changed under {tag}', case,
                                      [base['taskType'], base['numClasses']], [vo['taskType'], vo['numClasses']])
        return None

    def nontrivial_key(self, case, real_outcome):
        if real_outcome == 'raises' or any(v == 'raises' for v in real_outcome['variants']):
            return None
        return core.stable_hash(case)

    def classify(self, case, real_outcome):
        frame = case['frame']
        labs = [f"rows:{frame['n']}" if frame['n'] <= 12 else 'rows:13+',
                f"cols:{len(frame['cols'])}" if len(frame['cols']) <= 9 else 'cols:10+',
                'outcome:' + ('raises' if real_outcome == 'raises' else 'ok')]
        labs += c01.frame_labels(frame)
        tcol = next((c for c in frame['cols'] if c['name'] == frame['target']), None)
        if real_outcome != 'raises' and tcol is not None:
            labs.append(f"task:{real_outcome['base']['ok']['taskType']}")
        if real_outcome != 'raises' and 'oracle-only' in real_outcome:
            labs.append('judged:oracle-only(too large for the Lean model)')
        if nan_target(frame):
            labs.append('lib-eq-skipped:nan-in-y')
        for v in case['variants']:
            labs.append(f"variant:{v['what']}")
            if v['what'] != 'colperm':
                labs.append(f"labels:{v['labels']['kind']}/{v['labels']['how']}")
                if frame['n'] >= 257 and v['labels']['kind'] in ('perm', 'dup', 'bigint', 'setindex', 'spread'):
                    labs.append('scale:rows-with-shuffled-integer-labels')
            elif len(frame['cols']) >= 257:
                labs.append('scale:cols-permuted:257+')
        if real_outcome != 'raises':
            names = real_outcome['base']['ok']['tf']['names']
            kinds = {c['name']: c['stype'] for c in frame['cols']}
            emb = [kinds[c] for c in names.get('embedding', [])]
            if len(set(emb)) > 1:
                labs.append('embedding-group:merged-children')
            if emb and 'embedding' not in emb:
                labs.append('embedding-group:children-only')
        return sorted(set(labs))


CHECK = C02()

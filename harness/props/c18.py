"""C18 - stype inference follows its decision table and ignores row order and labels."""
import itertools

from harness import core, infergen as G


class C18(core.Check):
    pid = 'C18'
    driver = 'drv_c18'
    quick_cases = 2500
    thorough_cases = 40000
    rule = ('homogeneous columns from every family of the decision table (float; integral floats with/without a missing cell; '
            'int64/int32/Int64; bool/boolean; repeated strings; delimiter-joined tokens with "|" and "," in spelling variants; '
            'free text; date strings in the three candidate formats; datetime64; lists: equal-length finite floats, ragged, '
            'NaN/inf, ints, mixed, bools, strings, string+number, all empty, empty+strings, empty+floats, None element; all '
            'missing; tuples) with the rarest value / token on both sides of the 4-vs-5 boundary, in object and pandas-str '
            'dtype; each column is inferred as is, row-permuted, with an offset/permuted/duplicated/string index, and with 1-3 '
            'added missing cells; 12% of the cases are frames of 1-5 such columns through infer_df_stype. A minority family '
            '(list first, string later) exercises the early return. Non-trivial = the column yields a type; distinct = distinct hash. '
            'Hardening families: dtypes float32 / Float64 / int8 / int16 / uint8 / UInt8 / Int16 / Int32 / "string"; datetime64 '
            'in s / ms / us units, tz-aware, sub-second; date strings with T separator, fraction, UTC offset; list elements '
            'that are numpy.float64 objects or float64-only / float32-overflowing finite doubles (1e39, 1.7e308, 5e-324, 0.1); '
            'sentinel look-alike categories ("-1", "nan", "None", "<NA>", "NaT" next to a word no date parser accepts), '
            'trailing NUL, case pairs, prefixes; integers beyond 2^24; every series is inferred twice on the same object and '
            'compared with its state before; 2.5% scale cases from the stress ladder: columns of up to 65 537 rows of every '
            'family whose type is decided by ONE deviant cell at a chosen position (first, middle, 999-1001, 1023/1024, 2047/2048, '
            '4096, 16 384, 32 768, last), many categories each at the 4/5 boundary, list width, cell length, tokens per cell, '
            'frames of up to 1 025 columns; columns whose value counting is too long for the model are oracle-only')
    partial_notes = (
        'pandas supplies the dtype family and the bit "pd.to_datetime accepts the values for one of the candidate formats"; '
        'both are inputs of the model (the bit is fixed by construction of the generated column: date-formatted strings vs. a '
        'vocabulary no date parser accepts), not modelled: perm_invariant assumes the bit itself is order-independent',
        'families whose date-parsing bit is pandas-specific are not generated, only logged in the evidence '
        '(object columns of small integers parse as epoch nanoseconds -> timestamp; an all-blank string column parses to NaT '
        '-> timestamp; an object column of Python bools -> embedding)',
        'string splitting (str.split / str.strip) is a parameter of the theorems; the driver instantiates it with the Lean '
        'String functions and the correspondence compares it with Python on the generated rows',
    )

    # ------------------------------------------------------------------ generation
    def generate(self, rng, n, tier):
        budget = {0: 1.0e6, 1: 6.0e6, 2: 1.0e7}[self.level]      # volume (cells x variants) the scale cases of one run may take
        for _ in range(n):
            case = G.gen_case(rng, self.level)
            if 'scale' in case:
                vol = G.volume(case)
                if vol > budget:
                    case = G.gen_case(rng, self.level, scale=False)
                else:
                    budget -= vol
            yield case

    # ------------------------------------------------------------------ variants of a series case
    def variants(self, case):
        col = case['col']
        n = len(col['cells'])
        out = {'base': (col, None)}
        out['perm'] = (G.permuted(col, case['perm_seed']), None)
        out['labels'] = (col, G.labels_for(n, case['labels'], case['perm_seed']))
        out['missing'] = (G.with_missing(col, case['missing_seed'], case['n_missing']), None)
        return out

    # ------------------------------------------------------------------ real side
    def real(self, case):
        purity = []
        if case['kind'] == 'frame':
            res = {'frame': G.infer_frame_real(case['cols'], case['labels'], purity),
                   'cols': [[c['name'], G.infer_real(c['col'], None, purity)] for c in case['cols']]}
        else:
            res = {k: G.infer_real(col, labels, purity) for k, (col, labels) in self.variants(case).items()}
        res['pure'] = sorted(set(purity)) or True
        return res

    # ------------------------------------------------------------------ model side
    def model_requests(self, case):
        if case.get('oracle_only'):
            return []
        if case['kind'] == 'frame':
            return ([{'cmd': 'frame', 'cols': [{'name': c['name'], 'col': G.encode(c['col'])} for c in case['cols']]}] +
                    [{'cmd': 'series', 'col': G.encode(c['col'])} for c in case['cols']])
        return [{'cmd': 'series', 'col': G.encode(col)} for k, (col, _) in self.variants(case).items()]

    def model_outcome(self, case, replies):
        if case.get('oracle_only'):
            return core.SKIP_MODEL
        if case['kind'] == 'frame':
            return {'frame': replies[0], 'cols': [[c['name'], r] for c, r in zip(case['cols'], replies[1:])], 'pure': True}
        return dict(zip(self.variants(case).keys(), replies), pure=True)

    # ------------------------------------------------------------------ oracle: metamorphic + expected family
    def oracle(self, case, real):
        if real.get('pure') is not True:
            return core.Violation(f'purity/{"-".join(real["pure"])}', 'inference modified its input or answers differently '
                                  'when asked again on the same object: not a function of the column\'s values', case,
                                  True, real['pure'])
        if case['kind'] == 'frame':
            per = [[n, s] for n, s in real['cols'] if s is not None]
            if real['frame'] != per:
                return core.Violation('frame/columnwise', 'infer_df_stype differs from the per-column inference over the '
                                      'columns that yield a type', case, per, real['frame'])
            for c, (n, s) in zip(case['cols'], real['cols']):
                exp = G.expected(c['col'])
                if s != exp:
                    return core.Violation(f'table/{c["col"]["t"]}', f'column {n}: inferred {s}, decision table says {exp}',
                                          case, exp, s)
            return None
        col = case['col']
        fam = case['family']
        base = real['base']
        if isinstance(base, str) and base.startswith('raises'):
            return core.Violation(f'raises/{fam}', f'inference raises on a {fam} column: {base}', case, 'a type or None', base)
        exp = G.expected(col)
        if base != exp:
            return core.Violation(f'table/{fam}', f'a {fam} column is inferred as {base}; the decision table says {exp}',
                                  case, exp, base)
        if G.is_homogeneous(col) and real['perm'] != base:
            return core.Violation(f'perm/{fam}', f'row permutation changes the inferred type of a {fam} column', case, base,
                                  real['perm'])
        if real['labels'] != base:
            return core.Violation(f'labels/{fam}', f'relabelling the index changes the inferred type of a {fam} column', case,
                                  base, real['labels'])
        if col['t'] in ('object', 'datetime') and real['missing'] != base:
            return core.Violation(f'missing/{fam}', f'adding missing cells changes the inferred type of a {fam} column', case,
                                  base, real['missing'])
        return None

    def nontrivial_key(self, case, real):
        if case['kind'] == 'frame':
            return core.stable_hash(case) if isinstance(real['frame'], list) and real['frame'] else None
        return core.stable_hash(case) if real['base'] is not None and not str(real['base']).startswith('raises') else None

    def classify(self, case, real):
        def size(what, v, labs):
            for th in (65537, 16385, 4097, 1025, 257, 17):
                if v >= th:
                    labs.append(f'scale:{what}:{th}+')
                    return
        if case['kind'] == 'frame':
            labs = ['kind:frame', f'frame-cols:{min(len(case["cols"]), 6)}',
                    f'frame-typed:{min(len(real["frame"]), 6) if isinstance(real["frame"], list) else "raises"}']
            size('frame-columns', len(case['cols']), labs)
            return labs
        col = case['col']
        labs = ['kind:series', f'family:{case["family"]}', f'result:{real["base"]}', f'labels:{case["labels"]}',
                f'dtype:{col.get("dtype")}']
        if 'scale' in case:
            labs.append(f'scale:{case["scale"]}')
        if case.get('oracle_only'):
            labs.append('oracle-only')
        size('rows', len(col['cells']), labs)
        if len(col['cells']) >= 17:
            size('distinct-values', G.distinct_values(col), labs)
        for k in ('tz', 'unit', 'frac', 'npf'):
            if col.get(k):
                labs.append(f'container:{k}:{col[k]}')
        if col['t'] == 'object':
            strs = [c['s'] for c in col['cells'] if isinstance(c, dict) and 's' in c]
            if strs:
                size('cell-length', max(len(x) for x in strs), labs)
            if any(x in G.LOOKALIKES for x in strs):
                labs.append('value:sentinel-look-alike')
            if any(x.endswith('\x00') for x in strs):
                labs.append('value:trailing-NUL')
            if col.get('fmt') in G.TIME_FORMATS_EXTRA:
                labs.append(f'timefmt:{col["fmt"]}')
            lists = [c['l'] for c in col['cells'] if isinstance(c, dict) and 'l' in c]
            if lists:
                size('list-width', max(len(x) for x in lists), labs)
                if any(isinstance(e, float) and (abs(e) > 3.5e38 or e in G.F64_ONLY) for x in lists[:2000] for e in x[:50]):
                    labs.append('value:float64-only-element')
        elif col['t'] == 'float':
            if any(isinstance(c, float) and c in G.F64_ONLY for c in col['cells'][:2000]):
                labs.append('value:float64-only')
        elif col['t'] == 'int':
            if any(isinstance(c, int) and abs(c) > 2 ** 24 for c in col['cells'][:2000]):
                labs.append('value:int>2^24')
        vals = [repr(c) for c in col['cells'] if c is not None]
        if vals and col['t'] in ('int', 'float', 'object'):
            from collections import Counter
            m = min(Counter(vals).values())
            labs.append(f'min-count:{m if m <= 6 else "7+"}')
        if real['missing'] != real['base']:
            labs.append(f'missing-changes-result:{col["t"]}')
        labs.append('alias:same-series-inferred-twice')
        return labs

    def outside_domain(self):
        """columns the hardening round tried and judged outside the decision table of the property (their outcome is a
        pandas-specific parse / dtype question); what the live code answers is recorded, not judged"""
        import logging
        import warnings
        import numpy as np
        import pandas as pd
        from torch_frame.utils.infer_stype import infer_series_stype

        def run(ser):
            with warnings.catch_warnings():
                warnings.simplefilter('ignore')
                logging.disable(logging.CRITICAL)
                try:
                    r = infer_series_stype(ser)
                    return None if r is None else r.value
                except Exception as e:  # noqa
                    return f'raises:{type(e).__name__}'
                finally:
                    logging.disable(logging.NOTSET)
        out = {}
        for w in ['nan', 'NaT', 'now', 'today', '2020', '']:
            out[f'str column of only {w!r} (pandas date parser accepts it)'] = run(pd.Series([w] * 6, dtype=object))
        out['CategoricalDtype of strings, every category 5 times'] = run(pd.Series(['red', 'blue'] * 5, dtype='category'))
        out['CategoricalDtype of strings, every category twice (token split raises inside)'] = \
            run(pd.Series(['red', 'blue'] * 2, dtype='category'))
        out['CategoricalDtype with an unused category (value_counts reports 0)'] = \
            run(pd.Series(pd.Categorical(['red', 'blue'] * 5, categories=['red', 'blue', 'green'])))
        out['CategoricalDtype of integers'] = run(pd.Series([1, 2] * 5, dtype='category'))
        out['timedelta64 column'] = run(pd.Series(pd.to_timedelta([1, 2], unit='s')))
        out['lists of numpy.float32 elements (not a float subclass)'] = \
            run(pd.Series([[np.float32(0.5)], [np.float32(1.0)]], dtype=object))
        out['numpy.ndarray cells'] = run(pd.Series([np.array([1.0, 2.0]), np.array([1.0, 2.0])], dtype=object))
        return out

    # ------------------------------------------------------------------ exhaustive small box + logged pandas-specific families
    def extra_checks(self, rng, tier, report):
        # every column over {x, y, missing}^n for ints and strings, n <= N: all multiplicity patterns around the threshold
        cases = []
        N = 11 if tier == 'thorough' else 10
        for a in range(0, N + 1):
            for b in range(0, N + 1 - a):
                for m in (0, 1):
                    if a + b == 0:
                        continue
                    for t in ('int', 'str', 'float'):
                        if t == 'int':
                            col = {'t': 'int', 'dtype': 'Int64' if m else 'int64', 'cells': [1] * a + [2] * b + [None] * m}
                        elif t == 'float':
                            col = {'t': 'float', 'dtype': 'float64', 'cells': [1.0] * a + [2.0] * b + [None] * m}
                        else:
                            col = {'t': 'object', 'dtype': 'str', 'parses': False,
                                   'cells': [{'s': 'red'}] * a + [{'s': 'blue'}] * b + [None] * m}
                        cases.append({'kind': 'series', 'family': f'box_{t}', 'col': col, 'perm_seed': a * 31 + b,
                                      'labels': 'dup', 'missing_seed': 7, 'n_missing': 1})
        bad = 0
        reals = [self.real(c) for c in cases]
        for c, r in zip(cases, reals):
            v = self.oracle(c, r)
            if v is not None:
                report['violations'].append(v)
        try:
            reqs, spans = [], []
            for c in cases:
                rq = self.model_requests(c)
                spans.append((len(reqs), len(reqs) + len(rq)))
                reqs += rq
            replies = core.Driver(self.driver).ask(reqs)
            for c, r, (a, b) in zip(cases, reals, spans):
                m = self.model_outcome(c, replies[a:b])
                if not self.equal(r, m):
                    bad += 1
                    if bad <= 3:
                        report['broken'].append(f'correspondence (threshold box): model and code differ on {c["col"]}')
                        report.setdefault('disagree_samples', []).append({'case': c, 'real': r, 'model': m})
        except Exception as e:
            report['broken'].append(f'threshold box: driver unavailable ({e})')
        report['extra']['threshold_box'] = {
            'cases': len(cases), 'disagreements': bad, 'exhaustive': True,
            'what': f'all columns with a copies of one value, b of another (a+b <= {N}) and 0/1 missing cell, as int64/Int64, '
                    f'float64 and str dtype, each also permuted, relabelled and with an added missing cell'}
        # logged only: pandas-specific parse bits (outside the decision table of the property)
        logged = {}
        for name, col in [
            ('object column of small ints', {'t': 'object', 'dtype': 'object', 'parses': False, 'cells': [{'o': 1}, {'o': 2}]}),
            ('all-blank str column', {'t': 'object', 'dtype': 'str', 'parses': False, 'cells': [{'s': ''}] * 5}),
        ]:
            import pandas as pd
            if name.startswith('object column'):
                ser = pd.Series([1, 2, 3], dtype=object)
            else:
                ser = pd.Series([''] * 5)
            try:
                import warnings
                from torch_frame.utils.infer_stype import infer_series_stype
                with warnings.catch_warnings():
                    warnings.simplefilter('ignore')
                    r = infer_series_stype(ser)
                logged[name] = None if r is None else r.value
            except Exception as e:  # noqa
                logged[name] = f'raises:{type(e).__name__}'
        report['extra']['logged_pandas_specific'] = logged
        # the construction bit `parses = False` rests on: no word of the vocabulary is accepted by a candidate format
        import pandas as pd
        import warnings
        from torch_frame.utils.infer_stype import _is_timestamp
        with warnings.catch_warnings():
            warnings.simplefilter('ignore')
            accepted = [w for w in G.WORDS if any(_is_timestamp(pd.Series([w] * 3, dtype=dt)) for dt in (object, 'str'))]
        if accepted:
            report['broken'].append(f'generator invariant: words {accepted} are accepted by the live date parser')
        report['extra']['vocabulary_not_dates'] = {'words': len(G.WORDS), 'accepted_by_date_parser': accepted}
        report['extra']['observed_outside_generated_domain'] = self.outside_domain()


CHECK = C18()

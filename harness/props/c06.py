"""C06 - ragged containers: construction, concatenation, clone, padding and fill laws."""
import torch
import torch_frame
from torch_frame.data import MultiEmbeddingTensor as MET
from torch_frame.data import MultiNestedTensor as MNT

from harness import core, ragged, stress


def part_cells(spec, ops):
    """nested-list reference of a part produced by a selection program (None if it raises)"""
    ref, ncols = [list(map(list, r)) for r in spec['cells']], spec['C']
    for op in ops:
        try:
            ref, ncols = ragged.ref_apply(ref, ncols, op)
        except (IndexError, ValueError):
            return None
    return ref, ncols


def model_ops(ops):
    out = []
    for op in ops:
        if op['op'] == 'sel':
            out.append({'op': 'sel', 'ix': ragged.model_index(op['ix']), 'dim': op['dim']})
        else:
            out.append({'op': 'sel2', 'ix0': ragged.model_index(op['ix0']), 'ix1': ragged.model_index(op['ix1'])})
    return out


def sel_only(ops):
    return [o for o in ops if o['op'] != 'val']


DICT_KEYS = ['input_ids', 'attention_mask', 'token_type_ids']


class C06(core.Check):
    pid = 'C06'
    driver = 'drv_ragged'
    quick_cases = 12000
    thorough_cases = 120000
    rule = ('families: from(cells) round trip incl. rejected inputs; cat of a partition of the rows/columns of a container '
            '(1..5 consecutive parts, empty parts allowed, each part cut by slicing = a view); cat of parts produced by '
            'arbitrary selection programs; cat of mismatching parts / empty list; clone; to_dense; fillna_col on a cloned '
            'container or IN PLACE on a view (then every entry of the underlying root container is either untouched or '
            'was missing and now holds the fill value), every column, several fill values incl. +-inf; payloads int64 / '
            'int32 / float32 / float64 with sentinel look-alikes and edge magnitudes (-1.0, -0.0, +-inf, 2^24+2, '
            'float64-only values) in 30% of the containers; via the class method and via torch_frame.cat; '
            'dict[str, MultiNestedTensor] tensor data through torch_frame.cat with 2-3 keys whose insertion ORDER differs '
            'from part to part; re-use family: the same part object several times in one list, the same cat issued twice '
            'on the same part objects with the first result read again afterwards; scale family (80 / 150 / 500 cases + 6 / 16 / 30 heavy ones at '
            'stress level 0 / 1 / 2): rows, columns, cell length, column width and NUMBER OF PARTS from the stress ladder '
            '(<= 259 / 4 099), and heavy containers where one cat / to_dense / fillna_col / clone moves >= 16 385 / '
            '32 769 (thorough 65 537) values, with empty cells, all-empty rows and zero-width columns. Non-trivial = the '
            'result (or an operand) has at least one non-empty cell; distinct by case hash')
    partial_notes = ('"clone shares no storage" and the in-place nature of fillna_col are properties of the real objects: '
                     'checked with data_ptr / snapshot comparisons, not by a theorem',
                     'the per-key dispatch of torch_frame.cat on dict tensor data is compared key by key with the model of '
                     'MultiNestedTensor.cat (the dict layer itself is modelled in Model/Frame.lean, property C08)')
    N_SCALE = {0: 80, 1: 150, 2: 500}
    N_HEAVY = {0: 6, 1: 16, 2: 30}
    N_HUGE = {0: 0, 1: 0, 2: 4}      # 16 385 .. 65 539 rows: judged by the direct oracle only

    # ---------------------------------------------------------------- generation
    def generate(self, rng, n, tier):
        lv = self.level
        n_heavy, n_scale = min(self.N_HEAVY[lv], n // 4), min(self.N_SCALE[lv], n // 2)
        for i in range(n):
            kind = rng.choice(['mnt', 'met'])
            payload = rng.choice(['int', 'float', 'int', 'float', 'int32', 'float64'])
            if i < self.N_HUGE[lv]:
                spec = ragged.gen_cells_scaled(rng, kind, lv, payload, 'tall',
                                               R=rng.choice(stress.LADDER_BIG) + rng.choice([0, 1, 2]))
                case = self.gen_family(rng, rng.choice(['partition', 'fillna', 'clone']), spec, payload, big=True)
                case.update(scaled='huge', oracle_only=True)
                if case['fam'] == 'partition':
                    case['dim'], case['pre'] = 0, []
                    k = rng.choice([2, 5, 1025])
                    case['bounds'] = [0] + sorted(rng.randint(0, spec['R']) for _ in range(k - 1)) + [spec['R']]
                    case['how'] = 'slice'
                yield case
                continue
            if i < n_heavy:
                yield self.gen_heavy(rng, payload)
                continue
            if i < n_heavy + n_scale:
                yield self.gen_scaled(rng, kind, payload)
                continue
            fam = rng.choice(['from', 'partition', 'partition', 'partition', 'selparts', 'selparts', 'mismatch',
                              'clone', 'dense', 'fillna', 'fillna', 'dictcat'])
            if fam == 'from':
                spec = ragged.gen_cells(rng, kind, rng.choice([0, 1, 2, 3, 4]), rng.choice([0, 1, 2, 3]), payload)
                spec.pop('storage', None)
                bad = rng.random() < .15
                if bad and kind == 'mnt' and spec['R'] >= 2 and spec['C'] >= 1:
                    spec['cells'][rng.randrange(1, spec['R'])].pop()          # ragged row length
                    spec['bad'] = 'row-length'
                yield {'fam': 'from', 'spec': spec, 'payload': payload}
                continue
            if fam == 'dictcat':
                yield self.gen_dictcat(rng, payload)
                continue
            spec = ragged.gen_cells(rng, 'mnt' if fam == 'dense' else kind, payload=payload)
            yield self.gen_family(rng, fam, spec, payload)

    def gen_family(self, rng, fam, spec, payload, big=False):
        lv = self.level
        draw = lambda nmax: ragged.gen_ops(rng, spec['R'], spec['C'], nmax, allow_bad=False, level=lv, big=big)
        if big:     # large containers: no step may multiply the values beyond what the model driver can take
            ops_ = lambda nmax: sel_only(ragged.fit_program(lambda: draw(nmax), spec['cells'], spec['C'], ragged.BUDGET[lv]))
        else:
            ops_ = lambda nmax: sel_only(draw(nmax))
        if fam == 'partition':
            dim = rng.choice([0, 1])
            many = big and rng.random() < .5        # number of parts from the ladder (then no common pre-selection)
            pre = ops_(2) if rng.random() < .3 and not many else []
            pc = part_cells(spec, pre)
            if pc is None:
                pre, pc = [], (spec['cells'], spec['C'])
            size = len(pc[0]) if dim == 0 else pc[1]
            k = rng.randint(1, 5)
            if big:
                # many parts along the LARGE axis (a part of the other axis spans the whole large axis)
                k = stress.pick_size(rng, lv, 4099) if many else rng.randint(2, 9)
                k = min(k, size + 3)
            cuts = sorted(rng.randint(0, size) for _ in range(k - 1))
            bounds = [0] + cuts + [size]
            return {'fam': 'partition', 'spec': spec, 'payload': payload, 'dim': dim, 'bounds': bounds, 'pre': pre,
                    'via': rng.choice(['class', 'tf']), 'how': rng.choice(['slice', 'list']) if k <= 64 else 'slice',
                    'again': rng.random() < .4}
        if fam == 'selparts':
            dim = rng.choice([0, 1])
            k = rng.randint(1, 4)
            parts = []
            for _ in range(k):
                # restrict to selections along `dim` so the other axis usually matches
                parts.append([o for o in ops_(3) if o['op'] == 'sel' and o['dim'] == dim])
            case = {'fam': 'selparts', 'spec': spec, 'payload': payload, 'dim': dim, 'parts': parts,
                    'via': rng.choice(['class', 'tf']), 'again': rng.random() < .4}
            if rng.random() < .3:
                # the same part OBJECT occurs several times in the list
                case['dup'] = [rng.randrange(k) for _ in range(rng.randint(1, 3))]
            return case
        if fam == 'mismatch':
            dim = rng.choice([0, 1])
            k = rng.choice([0, 2, 3])
            parts = [ops_(2) for _ in range(k)]
            return {'fam': 'selparts', 'spec': spec, 'payload': payload, 'dim': dim, 'parts': parts,
                    'via': rng.choice(['class', 'tf'])}
        if fam == 'clone':
            return {'fam': 'clone', 'spec': spec, 'payload': payload, 'pre': ops_(3)}
        if fam == 'dense':
            fills = [-1, 0, 7, -5] + ([c for c in ragged.special_codes(payload) if c >= ragged.SPECIAL_BASE][:4]
                                       if not ragged.is_int(payload) else [2 ** 24 + 1])
            return {'fam': 'dense', 'spec': spec, 'payload': payload, 'fill': rng.choice(fills),
                    'pre': ops_(2) if rng.random() < .5 else []}
        pre = ops_(2) if rng.random() < .5 else []
        pc = part_cells(spec, pre)
        if pc is None:
            pre, pc = [], (spec['cells'], spec['C'])
        col = rng.randrange(pc[1]) if pc[1] > 0 else None
        fills = [0, 3, 8, 11, 11] + [c for c in ragged.special_codes(payload) if c != -2][:6]
        return {'fam': 'fillna', 'spec': spec, 'payload': payload, 'pre': pre, 'col': col,
                'fill': rng.choice(fills), 'inplace': rng.random() < .5}

    def gen_scaled(self, rng, kind, payload):
        fam = rng.choice(['from', 'partition', 'partition', 'partition', 'selparts', 'clone', 'dense', 'fillna', 'fillna'])
        if fam == 'dense':
            kind = 'mnt'
        shape = rng.choice([s for s in ragged.SHAPES[kind] if s != 'heavy'])
        spec = ragged.gen_cells_scaled(rng, kind, self.level, payload, shape)
        if fam == 'from':
            spec.pop('storage', None)
            if spec['R'] * spec['C'] > 6000:
                fam = 'clone'
            else:
                return {'fam': 'from', 'spec': spec, 'payload': payload, 'scaled': shape}
        case = self.gen_family(rng, fam, spec, payload, big=True)
        case['scaled'] = shape
        return case

    def gen_heavy(self, rng, payload):
        """one operation moves >= 16 385 values: cat(dim=1) of the column partition of a heavy MultiNestedTensor (the
        scatter of every part runs over the part's values), cat(dim=0), to_dense, fillna_col of the heavy column, clone;
        for the embedding container cat along either axis and fillna_col of a wide column"""
        fam = rng.choice(['partition', 'partition', 'dense', 'fillna', 'fillna', 'clone'])
        kind = 'mnt' if fam == 'dense' or rng.random() < .7 else 'met'
        spec = ragged.gen_cells_scaled(rng, kind, self.level, payload, 'heavy')
        case = self.gen_family(rng, fam, spec, payload, big=True)
        case['scaled'] = 'heavy'
        if fam == 'partition':
            case['pre'] = []
            size = spec['R'] if case['dim'] == 0 else spec['C']
            k = rng.randint(2, 5)
            case['bounds'] = [0] + sorted(rng.randint(0, size) for _ in range(k - 1)) + [size]
            case['how'] = 'slice'
        elif fam == 'fillna':
            case['pre'] = []
            widest = max(range(spec['C']), key=lambda c: sum(len(row[c]) for row in spec['cells']) if kind == 'mnt'
                         else spec['widths'][c])
            case['col'] = widest if rng.random() < .8 else rng.randrange(spec['C'])
        elif fam in ('clone', 'dense'):
            case['pre'] = []
        return case

    def gen_dictcat(self, rng, payload):
        """dict[str, MultiNestedTensor] tensor data: every part is a dict with the same keys, built in its own
        insertion order; the parts are the row / column partition of one base dict or selection results of it"""
        payload = payload if ragged.is_int(payload) or rng.random() < .3 else 'int'
        keys = DICT_KEYS[:rng.choice([2, 2, 3])]
        R, C = rng.choice([0, 1, 2, 3, 4, 5]), rng.choice([1, 1, 2, 3])
        specs = {k: ragged.gen_cells(rng, 'mnt', R, C, payload) for k in keys}
        dim = rng.choice([0, 0, 1])
        size = R if dim == 0 else C
        parts = []
        if rng.random() < .7:
            mode = 'partition'
            k = rng.randint(1, 4)
            bounds = [0] + sorted(rng.randint(0, size) for _ in range(k - 1)) + [size]
            for a, b in zip(bounds, bounds[1:]):
                parts.append({'ops': [{'op': 'sel', 'ix': {'t': 'slice', 'a': a, 'b': b, 's': None}, 'dim': dim,
                                       'via': 'select'}]})
        else:
            mode = 'selections'
            for _ in range(rng.randint(1, 3)):
                ops = sel_only(ragged.gen_ops(rng, R, C, 2, allow_bad=False))
                parts.append({'ops': [o for o in ops if o['op'] == 'sel' and o['dim'] == dim]})
        for p in parts:
            order = list(keys)
            if rng.random() < .6:
                rng.shuffle(order)
            p['order'] = order
        return {'fam': 'dictcat', 'spec': specs[keys[0]], 'specs': specs, 'keys': keys, 'payload': payload, 'dim': dim,
                'parts': parts, 'mode': mode}

    # ---------------------------------------------------------------- real side
    def _part(self, spec, payload, ops, root_out=None):
        outs, cur, findings = ragged.run_real_program(spec, payload, ops, root_out)
        return cur

    def _cat(self, parts, dim, via, kind):
        if via == 'tf':
            return torch_frame.cat(parts, dim=dim)
        return (MNT if kind == 'mnt' else MET).cat(parts, dim=dim)

    def _key(self, case):
        if getattr(self, '_last', (None, None))[0] is not case:
            self._last = (case, core.stable_hash(case))
        return self._last[1]

    def real(self, case):
        """the direct oracle's finding is produced while the real code runs; it is remembered per case so that
        `oracle(case, outcome)` is a function of the case (the engine calls it again when it builds the verdict)"""
        self._v = None
        try:
            out = self._real(case)
        except Exception as e:     # a library that hands back unreadable objects must yield a finding, not a crash
            out = f'unreadable:{type(e).__name__}'
            self._v = (case['fam'], 'the operation or reading its result raises unexpectedly', None, out)
        self.__dict__.setdefault('_vcache', {})[self._key(case)] = self._v
        return out

    def _real(self, case):
        spec, payload, kind = case['spec'], case['payload'], case['spec']['kind']
        dt = ragged.dtype_of(payload)
        fam = case['fam']
        if fam == 'from':
            try:
                if kind == 'mnt':
                    m = MNT.from_tensor_mat([[torch.tensor([ragged.enc(v, payload) for v in c], dtype=dt) for c in row]
                                             for row in spec['cells']])
                else:
                    cols = [torch.tensor([[ragged.enc(v, payload) for v in spec['cells'][r][c]] for r in range(spec['R'])],
                                         dtype=dt).reshape(spec['R'], spec['widths'][c]) for c in range(spec['C'])]
                    m = MET.from_tensor_list(cols)
                rep = ragged.real_repr(m, payload)
                if not ragged.well_formed(rep, kind) or ragged.cells_of_repr(rep, kind) != spec['cells'] \
                        or ragged.cells_via_api(m, payload) != spec['cells']:
                    self._v = ('from', 'cells read back differ from the cells the container was built from',
                               spec['cells'], rep)
                return {'ok': rep}
            except Exception:
                legit = spec.get('bad') or spec['R'] == 0 or spec['C'] == 0
                if not legit:
                    self._v = ('from', 'construction from a proper cell matrix raises', spec['cells'], 'raises')
                return 'raises'
        if fam in ('partition', 'selparts'):
            dim = case['dim']
            if fam == 'partition':
                base = self._part(spec, payload, case['pre'])
                if base is None:
                    return 'part-raises'
                parts = []
                for a, b in zip(case['bounds'], case['bounds'][1:]):
                    ix = slice(a, b) if case['how'] == 'slice' else list(range(a, b))
                    parts.append(base.select(ix, dim))
            else:
                parts = [self._part(spec, payload, ops) for ops in case['parts']]
                if any(p is None for p in parts):
                    return 'part-raises'
                parts += [parts[j] for j in case.get('dup', [])]      # the same objects again
            before = [ragged.real_repr(p, payload) for p in parts]
            try:
                res = self._cat(parts, dim, case['via'], kind)
                rep = ragged.real_repr(res, payload)
                out = {'ok': rep}
            except Exception:
                res, out = None, 'raises'
            if case.get('again') and res is not None:
                # the same cat on the same part objects once more: same result, and the first result is still intact
                try:
                    rep2 = ragged.real_repr(self._cat(parts, dim, case['via'], kind), payload)
                except Exception:
                    rep2 = 'raises'
                if rep2 != rep:
                    self._v = ('cat', 'a second concatenation of the same parts gives another result', rep, rep2)
                elif ragged.real_repr(res, payload) != rep:
                    self._v = ('cat', 'a later concatenation changed an earlier result', rep, None)
            # ---- direct oracle: nested lists
            pcs = [ragged.cells_of_repr(b, kind) for b in before]
            other = [(b['C'] if dim == 0 else b['R']) for b in before]
            should_raise = len(parts) == 0 or len(set(other)) > 1
            if kind == 'met' and dim == 0 and len(parts) > 1 and len({tuple(b['offset']) for b in before}) > 1:
                should_raise = None          # parts with different column widths: outside the property's domain
            if should_raise is True and res is not None and len(parts) != 1:
                self._v = ('cat', 'mismatching parts / empty list accepted', 'raises', out)
            elif should_raise is False:
                if res is None:
                    self._v = ('cat', 'concatenation of compatible parts raises', None, 'raises')
                else:
                    if dim == 0:
                        exp = [row for pc in pcs for row in pc]
                    else:
                        exp = [[c for pc in pcs for c in pc[r]] for r in range(before[0]['R'])]
                    if not ragged.well_formed(rep, kind) or ragged.cells_of_repr(rep, kind) != exp:
                        self._v = ('cat', 'cells of the concatenation differ from the cells of the parts in order',
                                   exp, rep)
                    elif fam == 'partition':
                        brep = ragged.real_repr(base, payload)
                        if ragged.cells_of_repr(rep, kind) != ragged.cells_of_repr(brep, kind) or \
                                (rep['R'], rep['C']) != (brep['R'], brep['C']):
                            self._v = ('cat', 'splitting and concatenating does not restore the container',
                                       ragged.cells_of_repr(brep, kind), rep)
                        elif not type(base).allclose(res, base, equal_nan=True):
                            self._v = ('cat', 'restored container is not allclose to the original', brep, rep)
            if [ragged.real_repr(p, payload) for p in parts] != before:
                self._v = ('cat', 'concatenation modified a part', None, None)
            return out
        if fam == 'dictcat':
            return self.real_dictcat(case)
        roots = []
        base = self._part(spec, payload, case.get('pre', []), roots)
        if base is None:
            return 'part-raises'
        brep = ragged.real_repr(base, payload)
        if fam == 'clone':
            c = base.clone()
            crep = ragged.real_repr(c, payload)
            if crep != brep or not type(base).allclose(c, base, equal_nan=True):
                self._v = ('clone', 'clone differs from the original', brep, crep)
            elif (c.values.numel() and c.values.data_ptr() == base.values.data_ptr()) or \
                    c.offset.data_ptr() == base.offset.data_ptr():
                self._v = ('clone', 'clone shares storage with the original', None, None)
            return {'ok': crep}
        if fam == 'dense':
            fill = ragged.enc(case['fill'], payload)
            try:
                d = base.to_dense(fill_value=fill)
                got = [[[ragged.dec(x, payload) for x in cell] for cell in row] for row in d.tolist()]
                out = {'ok': got}
            except Exception:
                got, out = None, 'raises'
            cells = ragged.cells_of_repr(brep, 'mnt')
            ncell = brep['R'] * brep['C']
            if ncell == 0:
                pass                                   # outside the domain (no cell)
            elif got is None:
                self._v = ('dense', 'to_dense raises on a container with cells', None, 'raises')
            else:
                mx = max(len(c) for row in cells for c in row)
                exp = [[c + [case['fill']] * (mx - len(c)) for c in row] for row in cells]
                if got != exp:
                    self._v = ('dense', 'dense padding differs from cells followed by fill', exp, got)
            return out
        # fillna
        if case['col'] is None:
            return 'no-column'
        col = case['col']
        inplace = case.get('inplace', False)
        work = base if inplace else base.clone()
        root_before = ragged.real_repr(roots[0], payload)
        fill = ragged.enc(case['fill'], payload)
        work.fillna_col(col, fill)
        wrep = ragged.real_repr(work, payload)
        cells = ragged.cells_of_repr(brep, kind)
        exp = [[[case['fill'] if (c == col and v == ragged.MISSING) else v for v in cell]
                for c, cell in enumerate(row)] for row in cells]
        if not ragged.well_formed(wrep, kind) or ragged.cells_of_repr(wrep, kind) != exp:
            self._v = ('fillna', 'fillna_col changed something other than the missing entries of the column',
                       exp, wrep)
        else:
            # the container the (view) operand was selected from: an entry is untouched, or it was missing and now
            # holds the fill value (in place on a view); untouched altogether when a clone was filled
            root_after = ragged.real_repr(roots[0], payload)
            flat = lambda rep: rep['values'] if kind == 'mnt' else [v for row in rep['values'] for v in row]
            if root_after['offset'] != root_before['offset'] or len(flat(root_after)) != len(flat(root_before)) or any(
                    b != a and not (inplace and a == ragged.MISSING and b == case['fill'])
                    for a, b in zip(flat(root_before), flat(root_after))):
                self._v = ('fillna', 'fillna_col changed entries of the underlying container that were not missing',
                           None, None)
        return {'ok': wrep, 'col': col}

    def real_dictcat(self, case):
        payload, dim, keys = case['payload'], case['dim'], case['keys']
        parts, refs = [], []
        for p in case['parts']:
            d, r = {}, {}
            for k in p['order']:
                m = self._part(case['specs'][k], payload, p['ops'])
                if m is None:
                    return 'part-raises'
                d[k] = m
                r[k] = ragged.real_repr(m, payload)
            parts.append(d)
            refs.append(r)
        try:
            res = torch_frame.cat(parts, dim=dim)
            out = {'ok': {k: ragged.real_repr(res[k], payload) for k in sorted(res)}}
        except Exception:
            res, out = None, 'raises'
        other = [(r[keys[0]]['C'] if dim == 0 else r[keys[0]]['R']) for r in refs]
        if len(set(other)) > 1:
            if res is not None:
                self._v = ('dictcat', 'mismatching parts accepted', 'raises', None)
        elif res is None:
            self._v = ('dictcat', 'concatenation of compatible dict parts raises', None, 'raises')
        elif sorted(res) != sorted(keys):
            self._v = ('dictcat', 'keys of the result differ from the keys of the parts', keys, sorted(res))
        else:
            for k in keys:
                pcs = [ragged.cells_of_repr(r[k], 'mnt') for r in refs]
                exp = [row for pc in pcs for row in pc] if dim == 0 else \
                    [[c for pc in pcs for c in pc[i]] for i in range(refs[0][k]['R'])]
                rep = out['ok'][k]
                if not ragged.well_formed(rep, 'mnt') or ragged.cells_of_repr(rep, 'mnt') != exp:
                    self._v = ('dictcat', 'cells under a key differ from the cells of the parts under that key (by name), in order',
                               {'key': k, 'cells': exp}, rep)
                    break
                if case['mode'] == 'partition' and ragged.cells_of_repr(rep, 'mnt') != case['specs'][k]['cells']:
                    self._v = ('dictcat', 'splitting and concatenating a dict of containers does not restore it', None, rep)
                    break
        if [{k: ragged.real_repr(d[k], payload) for k in d} for d in parts] != refs:
            self._v = ('dictcat', 'concatenation modified a part', None, None)
        return out

    def oracle(self, case, real_outcome):
        h = self._key(case)
        if h not in self.__dict__.setdefault('_vcache', {}):
            self.real(case)
        v = self._vcache[h]
        if v:
            fam, what, exp, got = v
            return core.Violation(f"{case['spec']['kind']}/{fam}/{what}", f"{case['spec']['kind']} {fam}: {what}",
                                  case, exp, got)
        return None

    # ---------------------------------------------------------------- model side
    def model_requests(self, case):
        if case.get('oracle_only'):
            return []
        spec, kind = case['spec'], case['spec']['kind']
        fam = case['fam']
        base = ragged.canonical_repr(spec) if not spec.get('bad') else None
        if fam == 'from':
            if kind == 'mnt':
                return [{'cmd': 'from', 'kind': 'mnt', 'cells': spec['cells']}]
            cols = [[spec['cells'][r][c] for r in range(spec['R'])] for c in range(spec['C'])]
            return [{'cmd': 'from', 'kind': 'met', 'cols': cols, 'widths': spec['widths']}]
        if fam == 'partition':
            parts = []
            pre = model_ops(case['pre'])
            for a, b in zip(case['bounds'], case['bounds'][1:]):
                ix = {'t': 'slice', 'a': a, 'b': b, 's': None} if case['how'] == 'slice' else \
                    {'t': 'list', 'is': list(range(a, b))}
                parts.append({'ops': pre + [{'op': 'sel', 'ix': ix, 'dim': case['dim']}]})
            return [{'cmd': 'cat', 'kind': kind, 'dim': case['dim'], 'base': base, 'parts': parts}]
        if fam == 'selparts':
            parts = [{'ops': model_ops(ops)} for ops in case['parts']]
            parts += [parts[j] for j in case.get('dup', [])]
            return [{'cmd': 'cat', 'kind': kind, 'dim': case['dim'], 'base': base, 'parts': parts}]
        if fam == 'dictcat':
            # key by key (by NAME): the parts' containers under that key, in the order of the parts
            return [{'cmd': 'cat', 'kind': 'mnt', 'dim': case['dim'], 'base': ragged.canonical_repr(case['specs'][k]),
                     'parts': [{'ops': model_ops(p['ops'])} for p in case['parts']]} for k in sorted(case['keys'])]
        if fam == 'clone':
            return [{'cmd': 'prog', 'kind': kind, 'base': base, 'ops': model_ops(case['pre'])}]
        if fam == 'dense':
            return [{'cmd': 'dense', 'kind': 'mnt', 'base': base, 'ops': model_ops(case['pre']), 'fill': case['fill']}]
        if case['col'] is None:
            return []
        return [{'cmd': 'fillna', 'kind': kind, 'base': base, 'ops': model_ops(case['pre']), 'col': case['col'],
                 'fill': case['fill'], 'missing': ragged.MISSING}]

    def model_outcome(self, case, replies):
        if case.get('oracle_only'):
            return core.SKIP_MODEL
        fam = case['fam']
        if fam == 'fillna':
            if case['col'] is None:
                return 'no-column'
            r = replies[0]
            return r if isinstance(r, str) else {'ok': r['ok'], 'col': case['col']}
        if fam == 'dictcat':
            if any(r == 'part-raises' for r in replies):
                return 'part-raises'
            if any(r == 'raises' for r in replies):
                return 'raises'
            return {'ok': {k: r['ok'] for k, r in zip(sorted(case['keys']), replies)}}
        r = replies[0]
        if fam in ('from', 'partition', 'selparts', 'dense'):
            return r
        # clone: the model replies with the per-step outcomes of the `pre` program
        cur = ragged.canonical_repr(case['spec'])
        for o in r:
            if o == 'raises' or o is None:
                return 'part-raises'
            cur = o['ok']
        return {'ok': cur}

    def equal(self, real, model):
        return real == model

    def nontrivial_key(self, case, out):
        if isinstance(out, dict):
            rep = out['ok']
            if case['fam'] == 'dictcat':
                return core.stable_hash(case) if any(r.get('values') for r in rep.values()) else None
            if isinstance(rep, dict) and rep.get('values') and rep['values'] != 'bad-ndim':
                return core.stable_hash(case)
            if isinstance(rep, list) and rep:
                return core.stable_hash(case)
        return None

    def classify(self, case, out):
        spec = case['spec']
        labs = [f"fam:{case['fam']}", f"kind:{spec['kind']}", f"payload:{case['payload']}"]
        res = out if isinstance(out, str) else 'ok'
        labs.append(f"{case['fam']}:{res}")
        if spec.get('special'):
            labs.append('values:special-pool')
        if spec.get('storage'):
            labs.append('storage:strided-views')
        if case.get('scaled'):
            labs.append(f"scale:{case['scaled']}:{case['fam']}")
            nv = ragged.n_values(spec)
            if nv >= 16385:
                labs.append('scale:values>=32769' if nv >= 32769 else 'scale:values>=16385')
            if spec['R'] >= 257:
                labs.append('scale:rows>=257' if spec['R'] < 16385 else 'scale:rows>=16385(oracle-only)')
            if spec['C'] >= 257:
                labs.append('scale:cols>=257')
        if case['fam'] in ('partition', 'selparts'):
            k = len(case.get('bounds', [0])) - 1 if case['fam'] == 'partition' else len(case['parts']) + len(case.get('dup', []))
            kk = k if k <= 5 else '6..16' if k <= 16 else '17..256' if k <= 256 else '257+'
            labs.append(f"cat:dim{case['dim']}:parts{kk}:{case['via']}")
            if k >= 17:
                labs.append('scale:parts>=17' if k < 257 else 'scale:parts>=257')
            if case.get('again'):
                labs.append('reuse:same-cat-twice')
            if case.get('dup'):
                labs.append('reuse:same-part-object-repeated')
        if case['fam'] == 'dictcat':
            orders = {tuple(p['order']) for p in case['parts']}
            labs.append(f"dictcat:dim{case['dim']}:{case['mode']}:parts{len(case['parts'])}:"
                        f"{'key-orders-differ' if len(orders) > 1 else 'one-key-order'}")
        if case['fam'] == 'fillna':
            labs.append('fillna:in-place-on-view' if case.get('inplace') else 'fillna:on-clone')
            if case['fill'] >= ragged.SPECIAL_BASE or case['fill'] < 0:
                labs.append('fillna:special-fill-value')
        return labs


CHECK = C06()

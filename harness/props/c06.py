"""C06 - ragged containers: construction, concatenation, clone, padding and fill laws."""
import torch
import torch_frame
from torch_frame.data import MultiEmbeddingTensor as MET
from torch_frame.data import MultiNestedTensor as MNT

from harness import core, ragged


def part_cells(spec, ops):
    """nested-list reference of a part produced by a selection program (None if it raises)"""
    ref, ncols = [list(map(list, r)) for r in spec['cells']], spec['C']
    for op in ops:
        try:
            ref, ncols = ragged.ref_apply(ref, ncols, op)
        except (IndexError, ValueError):
            return None
    return ref, ncols


def model_ops(ops):
    out = []
    for op in ops:
        if op['op'] == 'sel':
            out.append({'op': 'sel', 'ix': ragged.model_index(op['ix']), 'dim': op['dim']})
        else:
            out.append({'op': 'sel2', 'ix0': ragged.model_index(op['ix0']), 'ix1': ragged.model_index(op['ix1'])})
    return out


def sel_only(ops):
    return [o for o in ops if o['op'] != 'val']


class C06(core.Check):
    pid = 'C06'
    driver = 'drv_ragged'
    quick_cases = 12000
    thorough_cases = 120000
    rule = ('families: from(cells) round trip incl. rejected inputs; cat of a partition of the rows/columns of a container '
            '(1..5 consecutive parts, empty parts allowed, each part cut by slicing = a view); cat of parts produced by '
            'arbitrary selection programs; cat of mismatching parts / empty list; clone; to_dense; fillna_col on a (view) '
            'container, every column, several fill values; int and float payloads; via the class method and via '
            'torch_frame.cat. Non-trivial = the result (or an operand) has at least one non-empty cell; distinct by case hash')
    partial_notes = ('"clone shares no storage" and the in-place nature of fillna_col are properties of the real objects: '
                     'checked with data_ptr / snapshot comparisons, not by a theorem',)

    # ---------------------------------------------------------------- generation
    def generate(self, rng, n, tier):
        for _ in range(n):
            kind = rng.choice(['mnt', 'met'])
            payload = rng.choice(['int', 'float'])
            fam = rng.choice(['from', 'partition', 'partition', 'partition', 'selparts', 'selparts', 'mismatch',
                              'clone', 'dense', 'fillna', 'fillna'])
            if fam == 'from':
                spec = ragged.gen_cells(rng, kind, rng.choice([0, 1, 2, 3, 4]), rng.choice([0, 1, 2, 3]))
                bad = rng.random() < .15
                if bad and kind == 'mnt' and spec['R'] >= 2 and spec['C'] >= 1:
                    spec['cells'][rng.randrange(1, spec['R'])].pop()          # ragged row length
                    spec['bad'] = 'row-length'
                yield {'fam': 'from', 'spec': spec, 'payload': payload}
                continue
            spec = ragged.gen_cells(rng, kind)
            if fam == 'partition':
                dim = rng.choice([0, 1])
                pre = sel_only(ragged.gen_ops(rng, spec['R'], spec['C'], 2, allow_bad=False)) if rng.random() < .3 else []
                pc = part_cells(spec, pre)
                if pc is None:
                    pre, pc = [], (spec['cells'], spec['C'])
                size = len(pc[0]) if dim == 0 else pc[1]
                k = rng.randint(1, 5)
                cuts = sorted(rng.randint(0, size) for _ in range(k - 1))
                bounds = [0] + cuts + [size]
                yield {'fam': 'partition', 'spec': spec, 'payload': payload, 'dim': dim, 'bounds': bounds, 'pre': pre,
                       'via': rng.choice(['class', 'tf']), 'how': rng.choice(['slice', 'list'])}
            elif fam == 'selparts':
                dim = rng.choice([0, 1])
                k = rng.randint(1, 4)
                parts = []
                for _ in range(k):
                    ops = sel_only(ragged.gen_ops(rng, spec['R'], spec['C'], 3, allow_bad=False))
                    # restrict to selections along `dim` so the other axis usually matches
                    ops = [o for o in ops if o['op'] == 'sel' and o['dim'] == dim]
                    parts.append(ops)
                yield {'fam': 'selparts', 'spec': spec, 'payload': payload, 'dim': dim, 'parts': parts,
                       'via': rng.choice(['class', 'tf'])}
            elif fam == 'mismatch':
                dim = rng.choice([0, 1])
                k = rng.choice([0, 2, 3])
                parts = [sel_only(ragged.gen_ops(rng, spec['R'], spec['C'], 2, allow_bad=False)) for _ in range(k)]
                yield {'fam': 'selparts', 'spec': spec, 'payload': payload, 'dim': dim, 'parts': parts,
                       'via': rng.choice(['class', 'tf'])}
            elif fam == 'clone':
                yield {'fam': 'clone', 'spec': spec, 'payload': payload,
                       'pre': sel_only(ragged.gen_ops(rng, spec['R'], spec['C'], 3, allow_bad=False))}
            elif fam == 'dense':
                spec = ragged.gen_cells(rng, 'mnt')
                yield {'fam': 'dense', 'spec': spec, 'payload': payload, 'fill': rng.choice([-1, 0, 7, -5]),
                       'pre': sel_only(ragged.gen_ops(rng, spec['R'], spec['C'], 2, allow_bad=False)) if rng.random() < .5 else []}
            else:
                pre = sel_only(ragged.gen_ops(rng, spec['R'], spec['C'], 2, allow_bad=False)) if rng.random() < .5 else []
                pc = part_cells(spec, pre)
                if pc is None:
                    pre, pc = [], (spec['cells'], spec['C'])
                col = rng.randrange(pc[1]) if pc[1] > 0 else None
                yield {'fam': 'fillna', 'spec': spec, 'payload': payload, 'pre': pre, 'col': col,
                       'fill': rng.choice([0, 3, 8, 11])}

    # ---------------------------------------------------------------- real side
    def _part(self, spec, payload, ops):
        outs, cur, findings = ragged.run_real_program(spec, payload, ops)
        return cur

    def _cat(self, parts, dim, via, kind):
        if via == 'tf':
            return torch_frame.cat(parts, dim=dim)
        return (MNT if kind == 'mnt' else MET).cat(parts, dim=dim)

    def real(self, case):
        self._v = None
        spec, payload, kind = case['spec'], case['payload'], case['spec']['kind']
        dt = ragged.dtype_of(payload)
        fam = case['fam']
        if fam == 'from':
            try:
                if kind == 'mnt':
                    m = MNT.from_tensor_mat([[torch.tensor([ragged.enc(v, payload) for v in c], dtype=dt) for c in row]
                                             for row in spec['cells']])
                else:
                    cols = [torch.tensor([[ragged.enc(v, payload) for v in spec['cells'][r][c]] for r in range(spec['R'])],
                                         dtype=dt).reshape(spec['R'], spec['widths'][c]) for c in range(spec['C'])]
                    m = MET.from_tensor_list(cols)
                rep = ragged.real_repr(m, payload)
                if not ragged.well_formed(rep, kind) or ragged.cells_of_repr(rep, kind) != spec['cells'] \
                        or ragged.cells_via_api(m, payload) != spec['cells']:
                    self._v = ('from', 'cells read back differ from the cells the container was built from',
                               spec['cells'], rep)
                return {'ok': rep}
            except Exception:
                legit = spec.get('bad') or spec['R'] == 0 or spec['C'] == 0
                if not legit:
                    self._v = ('from', 'construction from a proper cell matrix raises', spec['cells'], 'raises')
                return 'raises'
        if fam in ('partition', 'selparts'):
            dim = case['dim']
            if fam == 'partition':
                base = self._part(spec, payload, case['pre'])
                if base is None:
                    return 'part-raises'
                parts = []
                for a, b in zip(case['bounds'], case['bounds'][1:]):
                    ix = slice(a, b) if case['how'] == 'slice' else list(range(a, b))
                    parts.append(base.select(ix, dim))
            else:
                parts = [self._part(spec, payload, ops) for ops in case['parts']]
                if any(p is None for p in parts):
                    return 'part-raises'
            before = [ragged.real_repr(p, payload) for p in parts]
            try:
                res = self._cat(parts, dim, case['via'], kind)
                rep = ragged.real_repr(res, payload)
                out = {'ok': rep}
            except Exception:
                res, out = None, 'raises'
            # ---- direct oracle: nested lists
            pcs = [ragged.cells_of_repr(b, kind) for b in before]
            other = [(b['C'] if dim == 0 else b['R']) for b in before]
            should_raise = len(parts) == 0 or len(set(other)) > 1
            if kind == 'met' and dim == 0 and len(parts) > 1 and len({tuple(b['offset']) for b in before}) > 1:
                should_raise = None          # parts with different column widths: outside the property's domain
            if should_raise is True and res is not None and len(parts) != 1:
                self._v = ('cat', 'mismatching parts / empty list accepted', 'raises', out)
            elif should_raise is False:
                if res is None:
                    self._v = ('cat', 'concatenation of compatible parts raises', None, 'raises')
                else:
                    if dim == 0:
                        exp = [row for pc in pcs for row in pc]
                    else:
                        exp = [[c for pc in pcs for c in pc[r]] for r in range(before[0]['R'])]
                    if not ragged.well_formed(rep, kind) or ragged.cells_of_repr(rep, kind) != exp:
                        self._v = ('cat', 'cells of the concatenation differ from the cells of the parts in order',
                                   exp, rep)
                    elif fam == 'partition':
                        brep = ragged.real_repr(base, payload)
                        if ragged.cells_of_repr(rep, kind) != ragged.cells_of_repr(brep, kind) or \
                                (rep['R'], rep['C']) != (brep['R'], brep['C']):
                            self._v = ('cat', 'splitting and concatenating does not restore the container',
                                       ragged.cells_of_repr(brep, kind), rep)
                        elif not type(base).allclose(res, base, equal_nan=True):
                            self._v = ('cat', 'restored container is not allclose to the original', brep, rep)
            if [ragged.real_repr(p, payload) for p in parts] != before:
                self._v = ('cat', 'concatenation modified a part', None, None)
            return out
        base = self._part(spec, payload, case.get('pre', []))
        if base is None:
            return 'part-raises'
        brep = ragged.real_repr(base, payload)
        if fam == 'clone':
            c = base.clone()
            crep = ragged.real_repr(c, payload)
            if crep != brep or not type(base).allclose(c, base, equal_nan=True):
                self._v = ('clone', 'clone differs from the original', brep, crep)
            elif (c.values.numel() and c.values.data_ptr() == base.values.data_ptr()) or \
                    c.offset.data_ptr() == base.offset.data_ptr():
                self._v = ('clone', 'clone shares storage with the original', None, None)
            return {'ok': crep}
        if fam == 'dense':
            fill = ragged.enc(case['fill'], payload) if payload == 'int' else case['fill'] * 0.5
            try:
                d = base.to_dense(fill_value=fill)
                got = [[[ragged.dec(x, payload) for x in cell] for cell in row] for row in d.tolist()]
                out = {'ok': got}
            except Exception:
                got, out = None, 'raises'
            cells = ragged.cells_of_repr(brep, 'mnt')
            ncell = brep['R'] * brep['C']
            if ncell == 0:
                pass                                   # outside the domain (no cell)
            elif got is None:
                self._v = ('dense', 'to_dense raises on a container with cells', None, 'raises')
            else:
                mx = max(len(c) for row in cells for c in row)
                exp = [[c + [case['fill']] * (mx - len(c)) for c in row] for row in cells]
                if got != exp:
                    self._v = ('dense', 'dense padding differs from cells followed by fill', exp, got)
            return out
        # fillna
        if case['col'] is None:
            return 'no-column'
        col = case['col']
        work = base.clone()
        fill = ragged.enc(case['fill'], payload)
        work.fillna_col(col, fill)
        wrep = ragged.real_repr(work, payload)
        cells = ragged.cells_of_repr(brep, kind)
        exp = [[[case['fill'] if (c == col and v == ragged.MISSING) else v for v in cell]
                for c, cell in enumerate(row)] for row in cells]
        if not ragged.well_formed(wrep, kind) or ragged.cells_of_repr(wrep, kind) != exp:
            self._v = ('fillna', 'fillna_col changed something other than the missing entries of the column',
                       exp, wrep)
        return {'ok': wrep, 'col': col}

    def oracle(self, case, real_outcome):
        if self._v:
            fam, what, exp, got = self._v
            return core.Violation(f"{case['spec']['kind']}/{fam}/{what}", f"{case['spec']['kind']} {fam}: {what}",
                                  case, exp, got)
        return None

    # ---------------------------------------------------------------- model side
    def model_requests(self, case):
        spec, kind = case['spec'], case['spec']['kind']
        fam = case['fam']
        base = ragged.canonical_repr(spec) if not spec.get('bad') else None
        if fam == 'from':
            if kind == 'mnt':
                return [{'cmd': 'from', 'kind': 'mnt', 'cells': spec['cells']}]
            cols = [[spec['cells'][r][c] for r in range(spec['R'])] for c in range(spec['C'])]
            return [{'cmd': 'from', 'kind': 'met', 'cols': cols, 'widths': spec['widths']}]
        if fam == 'partition':
            parts = []
            for a, b in zip(case['bounds'], case['bounds'][1:]):
                ix = {'t': 'slice', 'a': a, 'b': b, 's': None} if case['how'] == 'slice' else \
                    {'t': 'list', 'is': list(range(a, b))}
                parts.append({'base': base, 'ops': model_ops(case['pre']) + [{'op': 'sel', 'ix': ix, 'dim': case['dim']}]})
            return [{'cmd': 'cat', 'kind': kind, 'dim': case['dim'], 'parts': parts}]
        if fam == 'selparts':
            return [{'cmd': 'cat', 'kind': kind, 'dim': case['dim'],
                     'parts': [{'base': base, 'ops': model_ops(ops)} for ops in case['parts']]}]
        if fam == 'clone':
            return [{'cmd': 'prog', 'kind': kind, 'base': base, 'ops': model_ops(case['pre'])}]
        if fam == 'dense':
            return [{'cmd': 'dense', 'kind': 'mnt', 'base': base, 'ops': model_ops(case['pre']), 'fill': case['fill']}]
        if case['col'] is None:
            return []
        return [{'cmd': 'fillna', 'kind': kind, 'base': base, 'ops': model_ops(case['pre']), 'col': case['col'],
                 'fill': case['fill'], 'missing': ragged.MISSING}]

    def model_outcome(self, case, replies):
        fam = case['fam']
        if fam == 'fillna':
            if case['col'] is None:
                return 'no-column'
            r = replies[0]
            return r if isinstance(r, str) else {'ok': r['ok'], 'col': case['col']}
        r = replies[0]
        if fam in ('from', 'partition', 'selparts', 'dense'):
            return r
        # clone: the model replies with the per-step outcomes of the `pre` program
        cur = ragged.canonical_repr(case['spec'])
        for o in r:
            if o == 'raises' or o is None:
                return 'part-raises'
            cur = o['ok']
        return {'ok': cur}

    def equal(self, real, model):
        return real == model

    def nontrivial_key(self, case, out):
        if isinstance(out, dict):
            rep = out['ok']
            if isinstance(rep, dict) and rep.get('values') and rep['values'] != 'bad-ndim':
                return core.stable_hash(case)
            if isinstance(rep, list) and rep:
                return core.stable_hash(case)
        return None

    def classify(self, case, out):
        labs = [f"fam:{case['fam']}", f"kind:{case['spec']['kind']}", f"payload:{case['payload']}"]
        res = out if isinstance(out, str) else 'ok'
        labs.append(f"{case['fam']}:{res}")
        if case['fam'] in ('partition', 'selparts'):
            labs.append(f"cat:dim{case['dim']}:parts{len(case.get('bounds', [0])) - 1 if case['fam'] == 'partition' else len(case['parts'])}:{case['via']}")
        return labs


CHECK = C06()

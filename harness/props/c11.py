"""C11 - save/load and the materialization cache round-trip losslessly."""
from __future__ import annotations

import copy
import os
import shutil
import tempfile

import torch

from harness import core
from harness import c11io as io


class _Counter:
    """counts how often the two halves of a real materialization (statistics, conversion) run"""

    def __init__(self):
        self.n = 0

    def __enter__(self):
        import torch_frame.data.dataset as dsmod
        self.mod = dsmod
        self.orig_stats = dsmod.compute_col_stats
        self.orig_call = dsmod.DataFrameToTensorFrameConverter.__call__
        me = self

        def stats(*a, **k):
            me.n += 1
            return me.orig_stats(*a, **k)

        def call(conv, *a, **k):
            me.n += 1
            return me.orig_call(conv, *a, **k)
        dsmod.compute_col_stats = stats
        dsmod.DataFrameToTensorFrameConverter.__call__ = call
        return self

    def __exit__(self, *exc):
        self.mod.compute_col_stats = self.orig_stats
        self.mod.DataFrameToTensorFrameConverter.__call__ = self.orig_call
        return False


EQ_NOTES = {'frames_not_equal_to_themselves(NaN target)': 0}


def _frames_equal(a, b):
    """library equality in both directions AND my own cell-wise reading AND the exact representation"""
    probs = []
    try:
        # `TensorFrame.__eq__` compares the targets with `torch.allclose(other.y, self.y)` (no equal_nan, unlike the
        # features): a frame whose target holds a NaN is not equal to ITSELF.  For such a frame the library's
        # verdict says nothing about save/load; the three exact comparisons below still apply (counted, reported).
        reflexive = bool(a == a) and bool(b == b)
        if not reflexive:
            EQ_NOTES['frames_not_equal_to_themselves(NaN target)'] += 1
        elif not (a == b) or not (b == a):
            probs.append('TensorFrame.__eq__ says the frames differ')
    except Exception as e:
        probs.append(f'TensorFrame.__eq__ raises {type(e).__name__}')
    cells = []
    for x in (a, b):
        try:
            cells.append(io.cells_frame(x))
        except Exception as e:
            cells.append(f'raises {type(e).__name__}')
    if isinstance(cells[0], str) or isinstance(cells[1], str):
        probs.append(f'reading the cells through feat[i, j] raises ({cells[0] if isinstance(cells[0], str) else "ok"} / '
                     f'{cells[1] if isinstance(cells[1], str) else "ok"})')
    elif cells[0] != cells[1]:
        probs.append('cells / column names / target differ (cell-wise reading)')
    ca, cb = io.canon_frame(a), io.canon_frame(b)
    if sorted(ca['feats']) != sorted(cb['feats']) or sorted(ca['cols']) != sorted(cb['cols']) or ca['y'] != cb['y']:
        probs.append('stored representation (dtype / values / offset) differs')
    if io.extras_frame(a) != io.extras_frame(b):
        probs.append('offset dtype / container class / row count differs')
    return probs


def _clone_frame(tf):
    """a canonical copy: every tensor freshly allocated, contiguous, storage offset 0"""
    def cl(x):
        if isinstance(x, dict):
            return {k: cl(v) for k, v in x.items()}
        if isinstance(x, torch.Tensor):
            return x.clone().contiguous()
        return x.__class__(x.num_rows, x.num_cols, x.values.clone().contiguous(), x.offset.clone().contiguous())
    import torch_frame
    return torch_frame.TensorFrame({s: cl(f) for s, f in tf.feat_dict.items()},
                                   {s: list(c) for s, c in tf.col_names_dict.items()},
                                   None if tf.y is None else tf.y.clone())


def _has_view(tf):
    for f in tf.feat_dict.values():
        parts = list(f.values()) if isinstance(f, dict) else [f]
        for p in parts:
            ts = [p] if isinstance(p, torch.Tensor) else [p.values, p.offset]
            for t in ts:
                if t.storage_offset() != 0 or t._base is not None:
                    return True
    return False


def _storage_facts(tf):
    """how the frame that is saved sits in memory: is it a view, how much larger is the storage behind it, is any
    tensor non-contiguous, rows vs embedding width, longest cell, columns"""
    out = {'waste': 0, 'noncontig': False, 'rows_gt_width': False, 'max_cols': 0, 'max_width': 0, 'max_cell': 0,
           'elements': 0, 'unaligned_keys': False, 'equal_total_unaligned_keys': False}
    for f in tf.feat_dict.values():
        parts = list(f.values()) if isinstance(f, dict) else [f]
        if isinstance(f, dict) and len(parts) > 1:
            o0 = parts[0].offset
            for p in parts[1:]:
                if p.offset.shape != o0.shape or not torch.equal(p.offset - p.offset[0], o0 - o0[0]):
                    out['unaligned_keys'] = True
                    if p.offset.shape == o0.shape and int(p.offset[-1] - p.offset[0]) == int(o0[-1] - o0[0]):
                        out['equal_total_unaligned_keys'] = True
        for p in parts:
            ts = [p] if isinstance(p, torch.Tensor) else [p.values, p.offset]
            for t in ts:
                if t.dtype.is_floating_point and t.numel():
                    out['inf'] = out.get('inf', False) or bool(torch.isinf(t).any())
                    out['negzero'] = out.get('negzero', False) or bool((torch.signbit(t) & (t == 0)).any())
                    if t.dtype == torch.float64:
                        fin = t[torch.isfinite(t)]
                        out['f64_only'] = out.get('f64_only', False) or bool((fin.float().double() != fin).any())
                out['waste'] = max(out['waste'], t.untyped_storage().nbytes() - t.numel() * t.element_size())
                out['noncontig'] |= not t.is_contiguous()
                out['elements'] += t.numel()
            if isinstance(p, torch.Tensor):
                out['max_cols'] = max(out['max_cols'], p.shape[1] if p.dim() > 1 else 0)
            else:
                out['max_cols'] = max(out['max_cols'], p.num_cols)
                if p.values.dim() == 2:
                    out['max_width'] = max(out['max_width'], p.values.shape[1])
                    out['rows_gt_width'] |= p.num_rows > p.values.shape[1] > 0
                elif p.offset.numel() > 1:
                    out['max_cell'] = max(out['max_cell'], int((p.offset[1:] - p.offset[:-1]).max()))
    return out


MODEL_ELEMENTS = 400000     # frames with more stored elements are judged by the direct oracle only


class C11(core.Check):
    pid = 'C11'
    title = 'Save/load and the materialization cache round-trip losslessly'
    driver = 'drv_c11'
    quick_cases = 900
    thorough_cases = 10000
    rule = ('case families, all from the seeded PRNG: (a) TensorFrames built directly (any subset of the 9 stypes as keys, '
            '0-10 rows, 1-3 columns per stype; float32/float64/int64/int32/bool payloads with NaN, +-inf, -0.0 and '
            'float64-only values; tokenizer dicts of 1-4 keys whose per-cell lengths are equal / permuted / shifted '
            '(equal totals) / independent / empty; optional target incl. NaN; tensors of one frame sharing storage or '
            'offset objects) and (b) Dataset.materialize() outputs (stub embedder / tokenizer, the tokenizer optionally '
            'with a further output of different length), each put through 0-3 derivations (tf[a:b] incl. tf[2:5], '
            'tf[[3,1,1]], masks, tf[0:0], torch_frame.cat of derived parts; for datasets also dataset[rows]'
            '.materialize(path)) and saved with hand-made col_stats (python / numpy scalars of 10 widths, special '
            'floats, big ints, bool, str, None, tensors of 8 dtypes and 0-2 dims, numpy arrays, nested lists / tuples / '
            'dicts, a list of ladder length) or computed ones -> save -> load; (a\') a few percent of the cases are '
            'frames AT SCALE (harness/stress.py ladder: 17..259 at level 0, ..4099 at level 1, ..65539 at level 2) in '
            'rows (tall), columns of one container (wide), embedding width or cell length (deep), described by '
            'dimensions + one seed per container (numpy RandomState), of which a row slice / step slice / index '
            'selection / slice of a slice and / or a column slice is saved: the saved view stays small enough for the '
            'Lean model while the storage behind it is up to 64 MiB larger, with fewer / as many / more rows than the '
            'embedding is wide; (b\') datasets of ladder length whose row slice is written by materialize(path); '
            '(c) histories of 3-9 (3%: 17-36) materialize(path) / materialize() calls over 2-5 Dataset objects of 1-2 '
            'constructor-argument families (1.5%: a family of ladder length) sharing a temp directory, with interleaved '
            'damage/remove of cache files and datasets whose own data frame is unusable, then conversion of new data by '
            'every materialised dataset. Every file is named in one of 10 path shapes (bare file name / ./name / relative with a '
            'directory / absolute / nested directory with blanks / pathlib.Path of each / another os.PathLike) with the file\'s directory '
            'as working directory, the steps of one history naming the same file in different shapes; 20% of the save() round trips '
            'find an older file at the path, 30% write the path a second time (same schema, other content) while the first loaded '
            'result is held and re-read; extra_checks repeats that on files of 64 KiB .. 40 MiB (72 / 136 MiB at level 1 / 2). '
            'Non-trivial: a round trip of a frame with >=1 stored element that loads, or a '
            'history with >=1 cache hit; distinct = distinct case hash')
    partial_notes = (
        'TRUNCATION CLAUSE (not a theorem): "a cache file cut short at any point raises" is a fact about '
        "torch.load's zip/pickle reader, not about logic the model contains (a rejected file is the constant "
        'File.damaged in the model; theorem damaged_cache_raises only shows the cache protocol propagates the error). '
        'It is covered by ENUMERATION on the implementation: a real cache file is truncated at every byte offset '
        '(thorough) or at 64 evenly spread offsets plus the first and last 32 (quick) and both torch_frame.load and '
        'Dataset.materialize(path=...) must raise; see coverage.truncation (exhaustive only where it says so).',
        'views: in the functional Lean model a view is just a value (theorem views_roundtrip states exactly that); that '
        'real views (shared storage, non-zero storage offsets) are written like their canonical copies and that '
        'save/load neither modifies nor aliases its source is checked on the real objects.',
        'torch.save / torch.load (pickle, zip container, weights_only fallback, safe-globals registration) are not '
        'modelled: a file is the python value that was pickled; exercised by the correspondence on real files.',
        'statistics are an opaque value for the model (pickled as they are); their deep, type-exact equality after '
        'load is checked on the real objects only.',
        'determinism of the computation is an explicit hypothesis of cache_equals_fresh; the harness uses '
        'deterministic stub embedders / tokenizers.',
        'frames at scale: the Lean model receives the frame that is saved (a view of at most ~10^5 stored elements); '
        'the large parent behind it exists on the real side only. A saved frame above 4*10^5 elements would be judged '
        'by the direct oracle only (oracle_only_cases; 0 in practice). The cell-by-cell reading through feat[i, j] '
        'visits every cell up to 6000 cells per container and a fixed sample of rows beyond; the comparison of the '
        'stored representation (values, offsets, dtypes) is always complete.',
        'TensorFrame.__eq__ is not reflexive for a frame whose target holds a NaN (allclose without equal_nan): for '
        'such frames the library equality is not used as a verdict (counted under outside_domain_observations); the '
        'exact comparisons are.',
    )
    assumptions = ('frames carry no explicit num_rows (a feature-less frame with explicit num_rows is outside C11)',)

    def __init__(self):
        self._by_case = {}      # case hash -> findings of the direct oracle
        self._reqs = {}         # case hash -> driver request built from the real inputs
        self._findings, self._info = [], {}

    # ------------------------------------------------------------------ generation
    def generate(self, rng, n, tier):
        for case in self.generate_base(rng, n, tier):
            if case['kind'] == 'roundtrip':
                # how the caller names the file (bare name / relative / absolute / PathLike), whether an older file already
                # sits at that path, and whether the path is written a second time while the first result is still held
                case['pathshape'] = rng.choice(io.PATH_SHAPES)
                if rng.random() < .2 and not case.get('via'):
                    # (a materialised dataset handed a path writes only when no file exists there: not combined with `via`)
                    case['stale_file'] = rng.choice(['abs', 'same-shape'])
                if rng.random() < .3:
                    case['rewrite'] = True
            else:
                for st in case['steps']:
                    if st.get('path') is not None and rng.random() < .6:
                        st['shape'] = rng.choice(io.SAME_FILE_SHAPES)
            yield case

    def generate_base(self, rng, n, tier):
        from harness import stress
        lvl = self.level
        p_big = (.045, .08, .015)[min(lvl, 2)]          # frames / views at scale
        p_bigds = (.01, .01, .004)[min(lvl, 2)]         # datasets at scale (views written by materialize(path))
        for k in range(n):
            u = rng.random()
            if u < p_big:
                spec = io.gen_big_frame(rng, lvl)
                ops = io.gen_big_derive(rng, spec, lvl)
                tf_cols = [c for f in spec['feats'] for c in f['cols']]
                big_stat = stress.pick_size(rng, lvl, 4099) if rng.random() < .3 else None
                yield {'kind': 'roundtrip', 'base': {'big': spec}, 'derive': ops,
                       'stats': {'explicit': io.gen_stats(rng, tf_cols, big_stat)}}
            elif u < p_big + p_bigds:
                nrows = stress.pick_size(rng, lvl, rng.choice([259, 1027, 4099]))
                g = io.gen_group(rng, 0, n=nrows)
                m = rng.choice([1, 5, 17, 33, 65, 129, 257])
                m = min(m, nrows)
                a = rng.choice([0, nrows - m, rng.randint(0, nrows - m)])
                ops = [{'op': 'slice', 'a': a, 'b': a + m}] if rng.random() < .7 else \
                    [{'op': 'index', 'idx': sorted(rng.sample(range(nrows), m)), 'as': 'list'}]
                yield {'kind': 'roundtrip', 'base': {'dataset': g}, 'derive': ops, 'stats': {'computed': True},
                       'via': 'dataset-materialize(path)'}
            elif u < .62:
                base = {'direct': io.gen_direct_frame(rng)}
                R = base['direct']['R']
                ops, _ = io.gen_derive(rng, R)
                tf_cols = [c for f in base['direct']['feats'] for c in f['cols']]
                yield {'kind': 'roundtrip', 'base': base, 'derive': ops,
                       'stats': {'explicit': io.gen_stats(rng, tf_cols)}}
            elif u < .80:
                g = io.gen_group(rng, 0)
                ops, _ = io.gen_derive(rng, g['n'])
                case = {'kind': 'roundtrip', 'base': {'dataset': g}, 'derive': ops, 'stats': {'computed': True}}
                if len(ops) == 1 and ops[0]['op'] in ('slice', 'index') and rng.random() < .5:
                    case['via'] = 'dataset-materialize(path)'
                yield case
            else:
                yield self.gen_history(rng)

    def gen_history(self, rng):
        from harness import stress
        lvl = self.level
        ng = rng.choice([1, 1, 2])
        u = rng.random()
        long_hist = u < .03                                  # the number of prior calls is a size too
        big_rows = stress.pick_size(rng, lvl, rng.choice([259, 259, 1027, 4099])) if .03 <= u < .045 else None
        groups = [io.gen_group(rng, g, n=big_rows if g == 0 else None) for g in range(ng)]
        nd = rng.randint(2, 5)
        dss = [{'group': rng.randrange(ng), 'usable': True if i == 0 else rng.random() < .55} for i in range(nd)]
        paths = {g: [f'g{g}_{k}.pt' for k in range(rng.choice([1, 1, 2]))] for g in range(ng)}
        steps = []
        # the first step writes a cache so that most histories contain hits
        steps.append({'op': 'mat', 'ds': 0, 'path': paths[dss[0]['group']][0]})
        nsteps = stress.pick_size(rng, 0, 35) if long_hist else (rng.randint(2, 4) if big_rows else rng.randint(2, 8))
        for _ in range(nsteps):
            u = rng.random()
            if u < .72:
                i = rng.randrange(nd)
                p = rng.choice(paths[dss[i]['group']] + [None]) if rng.random() < .3 else paths[dss[i]['group']][0]
                steps.append({'op': 'mat', 'ds': i, 'path': p})
            elif u < .86:
                g = rng.randrange(ng)
                steps.append({'op': 'damage', 'path': rng.choice(paths[g]), 'keep16': rng.choice([0, 1, 8, 15, 15])})
            else:
                g = rng.randrange(ng)
                steps.append({'op': 'remove', 'path': rng.choice(paths[g])})
        return {'kind': 'history', 'groups': groups, 'datasets': dss, 'steps': steps}

    # ------------------------------------------------------------------ real code
    def real(self, case):
        self._findings = []
        self._info = {}
        h = core.stable_hash(case)
        tmp = tempfile.mkdtemp(prefix='verif_c11_')
        try:
            with io.in_dir(tmp):
                if case['kind'] == 'roundtrip':
                    out = self.real_roundtrip(case, tmp)
                else:
                    out = self.real_history(case, tmp)
        finally:
            shutil.rmtree(tmp, ignore_errors=True)
        # findings belong to THIS case (the engine may ask the oracle about it again later)
        self._by_case[h] = list(self._findings)
        return out

    def build_base(self, case):
        import torch_frame  # noqa
        base = case['base']
        if 'direct' in base or 'big' in base:
            tf = io.build_direct_frame(base['direct']) if 'direct' in base else io.build_big_frame(base['big'])
            if 'direct' in base:
                self._info['alias'] = list(io.LAST_BUILD['alias'])
            stats = io.build_stats(case['stats'].get('explicit'))
            return tf, stats
        ds = io.make_dataset(base['dataset'])
        io.quiet(ds.materialize)
        self._base_ds = ds
        return ds.tensor_frame, ds.col_stats

    def derive_and_save(self, case, tf0, stats, path):
        """-> the frame that is written.  Either `torch_frame.save(view, stats, path)` or, for a dataset, the same
        through the public route `dataset[rows].materialize(path=...)` (a materialised dataset given a new path)."""
        import torch_frame
        if case.get('via') == 'dataset-materialize(path)':
            op = case['derive'][0]
            sub = self._base_ds[op['a']:op['b']] if op['op'] == 'slice' else self._base_ds[list(op['idx'])]
            tf = sub.tensor_frame
            return tf, (lambda: sub.materialize(path=path))
        tf = io.apply_derive(tf0, case['derive'])
        return tf, (lambda: torch_frame.save(tf, stats, path))

    def real_roundtrip(self, case, tmp):
        import torch_frame
        F = self._findings
        tf0, stats = self.build_base(case)
        arg, path = io.path_arg(tmp, 'tf.pt', case.get('pathshape'))
        tf, do_save = self.derive_and_save(case, tf0, stats, arg)
        self._info['view'] = _has_view(tf)
        self._info['rows'] = len(tf)
        self._info['facts'] = _storage_facts(tf)
        before = (io.canon_frame(tf), io.canon_stats(stats))
        too_big = self._info['facts']['elements'] > MODEL_ELEMENTS
        self._info['oracle_only'] = too_big
        self._reqs[core.stable_hash(case)] = [] if too_big else \
            [{'cmd': 'roundtrip', 'frame': before[0], 'stats': before[1]}]
        out = {'wf': True}
        if case.get('stale_file'):
            # an older file (another table of the same schema) already sits at that path, written through its absolute
            # path or through the very same path object
            old_arg = path if case['stale_file'] == 'abs' else arg
            io.quiet(torch_frame.save, io.scribbled_copy(tf), None, old_arg)
        try:
            io.quiet(do_save)
        except Exception as e:
            F.append(('save-raises', f'torch_frame.save raises {type(e).__name__}: {e}', 'a file', 'raises'))
            return {'save': 'raises'}
        if not os.path.isfile(path):
            F.append(('save-writes-nothing', f'save / materialize(path) returned normally for the path {arg!r} (working directory = '
                      f'the directory of the file) but no file exists at {path}', 'a file', 'missing'))
            return {'save': 'no-file'}
        raw = io.quiet(torch.load, path, weights_only=False)
        out['save'] = {'ok': io.canon_serialized(raw)}
        if (io.canon_frame(tf), io.canon_stats(stats)) != before:
            F.append(('save-mutates', 'save modified the frame or the statistics it was given', before[0], io.canon_frame(tf)))
        try:
            import warnings
            with warnings.catch_warnings(record=True) as wlist:
                warnings.simplefilter('always')
                tf2, stats2 = torch_frame.load(arg)
            self._info['fallback'] = any('Weights only load failed' in str(w.message) for w in wlist)
        except Exception as e:
            F.append(('load-raises', f'torch_frame.load raises {type(e).__name__} on the file save just wrote: {e}',
                      'the saved frame', 'raises'))
            out['load'] = 'raises'
            return out
        out['load'] = {'ok': io.canon_result(tf2, stats2)}
        for p in _frames_equal(tf, tf2):
            F.append(('roundtrip-frame', 'loaded frame != saved frame: ' + p, io.canon_frame(tf), io.canon_frame(tf2)))
        if io.canon_stats(stats2) != io.canon_stats(stats):
            F.append(('roundtrip-stats', 'loaded col_stats != saved col_stats (deep, type-exact comparison)',
                      io.canon_stats(stats), io.canon_stats(stats2)))
        # the view is written like its canonical copy
        if case['derive']:
            cl = _clone_frame(tf)
            p2 = os.path.join(tmp, 'clone.pt')
            io.quiet(torch_frame.save, cl, stats, p2)
            raw2 = io.quiet(torch.load, p2, weights_only=False)
            if io.canon_serialized(raw2) != out['save']['ok']:
                F.append(('view-vs-copy', 'a derived frame (view) is serialised differently from its canonical copy',
                          io.canon_serialized(raw2), out['save']['ok']))
            tf3, _ = io.quiet(torch_frame.load, p2)
            for p in _frames_equal(tf3, tf2):
                F.append(('view-vs-copy', 'view and canonical copy load differently: ' + p, None, None))
        if case.get('rewrite'):
            # the same path is written again (a refreshed table of the same schema and size) while the first result is held
            keep = (io.canon_frame(tf2), io.canon_stats(stats2))
            B = io.scribbled_copy(tf)
            io.quiet(torch_frame.save, B, None, arg)
            if (io.canon_frame(tf2), io.canon_stats(stats2)) != keep:
                F.append(('rewrite-changes-earlier-result', 'a loaded frame / statistics changed when the path they were loaded '
                          'from was written again', keep[0], io.canon_frame(tf2)))
            try:
                tf4, stats4 = io.quiet(torch_frame.load, arg)
                for p in _frames_equal(B, tf4):
                    F.append(('rewrite-stale-read', 'after writing a second frame to the same path, load returns something '
                              'else: ' + p, io.canon_frame(B), io.canon_frame(tf4)))
                if stats4 is not None:
                    F.append(('rewrite-stale-read', 'after writing (frame, None) to the same path, load returns statistics',
                              None, io.canon_stats(stats4)))
            except Exception as e:
                F.append(('rewrite-load-raises', f'load after the second save raises {type(e).__name__}: {e}', 'the second '
                          'frame', 'raises'))
        return out

    def real_history(self, case, tmp):
        import torch_frame
        F = self._findings
        groups = case['groups']
        fresh, fresh_new = {}, {}
        for g in groups:
            ds = io.make_dataset(g)
            try:
                io.quiet(ds.materialize)
                fresh[g['gid']] = (ds.tensor_frame, ds.col_stats)
                fresh_new[g['gid']] = self.convert_new(ds, g)
            except Exception as e:
                fresh[g['gid']] = None
                self._info['compute-raises'] = f'{type(e).__name__}: {e}'
        self._reqs[core.stable_hash(case)] = self.history_request(
            case, {gid: (None if v is None else io.canon_result(*v)) for gid, v in fresh.items()})
        objs = [io.make_dataset(groups[d['group']], d['usable']) for d in case['datasets']]
        state = {}      # path -> 'intact' | 'damaged'   (missing = absent)
        outs = []
        hits = 0
        for k, st in enumerate(case['steps']):
            arg, path = (None, None) if st.get('path') is None else io.path_arg(tmp, st['path'], st.get('shape'))
            if st['op'] == 'damage':
                if os.path.isfile(path):
                    data = open(path, 'rb').read()
                    open(path, 'wb').write(data[:len(data) * st['keep16'] // 16])
                else:
                    open(path, 'wb').write(b'not a cache file')
                state[st['path']] = 'damaged'
                outs.append('ok')
                continue
            if st['op'] == 'remove':
                if os.path.isfile(path):
                    os.remove(path)
                state.pop(st['path'], None)
                outs.append('ok')
                continue
            i = st['ds']
            ds, d = objs[i], case['datasets'][i]
            gid = groups[d['group']]['gid']
            was_mat = ds.is_materialized
            fstate = state.get(st['path']) if path else None
            before_bytes = open(path, 'rb').read() if (path and os.path.isfile(path)) else None
            with _Counter() as cnt:
                try:
                    io.quiet(ds.materialize, path=arg)
                    res = 'ok'
                except Exception as e:
                    res = 'raises'
                    exc = f'{type(e).__name__}: {e}'
            outs.append(res)
            where = f'step {k} (dataset {i}, path {st.get("path")} given as {st.get("shape", "abs")})'
            if not was_mat and fstate == 'intact':
                hits += 1
                if res != 'ok':
                    F.append(('hit-raises', f'{where}: materialize raises although an intact cache file exists: {exc}',
                              'loads the cache', 'raises'))
                else:
                    if cnt.n != 0:
                        F.append(('hit-recomputes', f'{where}: cache file exists but statistics/conversion ran '
                                  f'{cnt.n} time(s)', 0, cnt.n))
                    if fresh[gid] is not None:
                        self.expect_state(ds, fresh[gid], where + ' cache hit')
            elif not was_mat and fstate == 'damaged':
                if res != 'raises' or ds.is_materialized:
                    F.append(('damaged-loads', f'{where}: materialize does not raise on a damaged cache file '
                              f'(computations run: {cnt.n})', 'raises', res))
                if open(path, 'rb').read() != before_bytes:
                    F.append(('damaged-overwritten', f'{where}: the damaged cache file was rewritten', None, None))
            elif not was_mat and path is not None and d['usable'] and fresh[gid] is not None:
                if res != 'ok':
                    F.append(('miss-raises', f'{where}: materialize raises on a cache miss: {exc}', 'ok', 'raises'))
                elif not os.path.isfile(path):
                    F.append(('miss-no-file', f'{where}: no cache file was written after a miss', 'a file', 'missing'))
                else:
                    state[st['path']] = 'intact'
                    self.expect_file(path, fresh[gid], where + ' file written after a miss')
                    self.expect_state(ds, fresh[gid], where + ' cache miss')
            elif was_mat and path is not None and fstate is None:
                if res != 'ok' or not os.path.isfile(path):
                    F.append(('late-path', f'{where}: a materialised dataset given a new path did not write it', None, res))
                else:
                    state[st['path']] = 'intact'
                    self.expect_file(path, (ds.tensor_frame, ds.col_stats), where + ' file written by a materialised dataset')
            if res == 'ok' and not was_mat and path is not None and fstate is None and os.path.isfile(path):
                state[st['path']] = 'intact'
        self._info['hits'] = hits
        # final states, converters, files
        finals = []
        for i, (ds, d) in enumerate(zip(objs, case['datasets'])):
            g = groups[d['group']]
            if not ds.is_materialized:
                finals.append(None)
                continue
            conv = ds.convert_to_tensor_frame
            own = (conv.col_to_stype == ds.col_to_stype and conv.target_col == ds.target_col
                   and conv.col_to_sep == ds.col_to_sep and conv.col_to_time_format == ds.col_to_time_format
                   and conv.col_to_text_embedder_cfg is ds.col_to_text_embedder_cfg
                   and conv.col_to_text_tokenizer_cfg is ds.col_to_text_tokenizer_cfg
                   and conv.col_to_image_embedder_cfg is ds.col_to_image_embedder_cfg)
            r = io.canon_result(ds.tensor_frame, ds.col_stats)
            r['converter'] = {'args': g['gid'] if own else -1, 'col_stats': io.canon_stats(conv.col_stats)}
            finals.append(r)
            if fresh[g['gid']] is not None:
                self.expect_state(ds, fresh[g['gid']], f'final state of dataset {i}')
                got = self.convert_new(ds, g)
                if got != fresh_new[g['gid']]:
                    F.append(('converter-differs', f'dataset {i} (materialised '
                              f'{"from its data" if d["usable"] else "from the cache only"}) converts new data '
                              'differently from a freshly materialised dataset', fresh_new[g['gid']], got))
        files = []
        seen = []
        for st in case['steps']:
            p = st.get('path')
            if p is None or p in seen:
                continue
            seen.append(p)
            full = os.path.join(tmp, p)
            if not os.path.isfile(full):
                files.append([p, 'missing'])
                continue
            try:
                tf, stats = io.quiet(torch_frame.load, full)
                files.append([p, {'ok': io.canon_result(tf, stats)}])
            except Exception:
                files.append([p, 'raises'])
        return {'steps': outs, 'datasets': finals, 'files': files}

    def convert_new(self, ds, g):
        try:
            return io.canon_frame(io.quiet(ds.convert_to_tensor_frame, io.group_df(g, 'new')))
        except Exception:
            return 'raises'

    def expect_state(self, ds, ref, where):
        tf, stats = ref
        for p in _frames_equal(tf, ds.tensor_frame):
            self._findings.append(('cache-frame', f'{where}: tensor_frame differs from a fresh computation: {p}',
                                   io.canon_frame(tf), io.canon_frame(ds.tensor_frame)))
        if io.canon_stats(stats) != io.canon_stats(ds.col_stats):
            self._findings.append(('cache-stats', f'{where}: col_stats differ from a fresh computation',
                                   io.canon_stats(stats), io.canon_stats(ds.col_stats)))

    def expect_file(self, path, ref, where):
        import torch_frame
        try:
            tf, stats = io.quiet(torch_frame.load, path)
        except Exception as e:
            self._findings.append(('file-unloadable', f'{where}: does not load ({type(e).__name__})', 'loads', 'raises'))
            return
        for p in _frames_equal(ref[0], tf):
            self._findings.append(('file-frame', f'{where}: holds a different frame: {p}', None, None))
        if io.canon_stats(stats) != io.canon_stats(ref[1]):
            self._findings.append(('file-stats', f'{where}: holds different col_stats', None, None))

    # ------------------------------------------------------------------ model
    def model_requests(self, case):
        # the model receives the abstract values of the REAL inputs (frame before save / fresh computations)
        h = core.stable_hash(case)
        if h in self._reqs:
            return self._reqs.pop(h)
        if case['kind'] == 'roundtrip':
            tf0, stats = self.build_base(case)
            tf, _ = self.derive_and_save(case, tf0, stats, os.devnull)
            if _storage_facts(tf)['elements'] > MODEL_ELEMENTS:
                return []
            return [{'cmd': 'roundtrip', 'frame': io.canon_frame(tf), 'stats': io.canon_stats(stats)}]
        fresh = {}
        for g in case['groups']:
            ds = io.make_dataset(g)
            try:
                io.quiet(ds.materialize)
                fresh[g['gid']] = io.canon_result(ds.tensor_frame, ds.col_stats)
            except Exception:
                fresh[g['gid']] = None
        return self.history_request(case, fresh)

    def history_request(self, case, fresh):
        dss = []
        for d in case['datasets']:
            gid = case['groups'][d['group']]['gid']
            dss.append({'args': gid, 'compute': fresh[gid] if d['usable'] else None})
        steps = [{'op': s['op'], 'ds': s.get('ds', 0), 'path': s.get('path')} for s in case['steps']]
        return [{'cmd': 'history', 'datasets': dss, 'steps': steps}]

    def model_outcome(self, case, replies):
        if not replies:
            return core.SKIP_MODEL
        return replies[0]

    # ------------------------------------------------------------------ oracle & bookkeeping
    def oracle(self, case, real_outcome):
        h = core.stable_hash(case)
        if h not in self._by_case:
            self.real(case)
        found = self._by_case[h]
        if found:
            key, what, exp, got = found[0]
            return core.Violation(f'{case["kind"]}/{key}', what, case, exp, got)
        return None

    def nontrivial_key(self, case, out):
        if case['kind'] == 'roundtrip':
            if isinstance(out.get('load'), dict):
                fr = out['load']['ok']['frame']
                n = 0
                for _, f in fr['feats']:
                    if f['k'] == 'dense':
                        n += len(f['t']['data'])
                    elif f['k'] in ('nested', 'emb'):
                        n += len(f['values'])
                    elif f['k'] == 'dict':
                        n += sum(len(m['values']) for _, m in f['items'])
                if n > 0:
                    return core.stable_hash(case)
            return None
        return core.stable_hash(case) if self._info.get('hits') else None

    def classify(self, case, out):
        labs = ['kind:' + case['kind']]
        if case['kind'] == 'roundtrip':
            labs.append('base:' + ('direct' if 'direct' in case['base'] else 'big' if 'big' in case['base'] else 'dataset'))
            labs += self._scale_labels(case)
            labs.append('stats:' + ('computed' if 'computed' in case['stats'] else
                                    'None' if case['stats']['explicit'] is None else 'hand-made'))
            labs += ['derive:' + l for l in io.derive_labels(case['derive'])] or ['derive:none']
            labs.append('rows:' + ('0' if self._info.get('rows') == 0 else '>0'))
            labs.append('is-view:' + str(bool(self._info.get('view'))))
            labs.append('path-shape:' + case.get('pathshape', 'abs'))
            if case.get('stale_file'):
                labs.append('history:older-file-at-the-path(written-via-' + case['stale_file'] + ')')
            if case.get('rewrite'):
                labs.append('history:same-path-written-again-while-first-result-held')
            labs.append('save:' + ('ok' if isinstance(out.get('save'), dict) else 'raises'))
            labs.append('load:' + ('ok' if isinstance(out.get('load'), dict) else 'raises'))
            if 'fallback' in self._info:
                labs.append('torch.load:' + ('weights_only=False fallback (warning)' if self._info['fallback']
                                             else 'weights_only=True (safe globals)'))
            if isinstance(out.get('load'), dict):
                fr = out['load']['ok']['frame']
                labs += [f'stype:{s}' for s, _ in fr['feats']]
                for _, f in fr['feats']:
                    for d in ([f['t']] if f['k'] == 'dense' else [m for _, m in f['items']] if f['k'] == 'dict' else [f]):
                        labs.append(f"dtype:{f['k']}:{d['dtype']}")
                if fr['y'] is not None:
                    labs.append(f"dtype:y:{fr['y']['dtype']}")
                labs += sorted({f'storage:{f["k"]}' for _, f in fr['feats']})
                labs.append('target:' + ('none' if fr['y'] is None else 'yes'))
        else:
            labs.append(f'datasets:{len(case["datasets"])}')
            ns = len(case['steps'])
            labs.append('steps:' + (str(ns) if ns < 10 else '10-16' if ns < 17 else '17+'))
            if ns >= 17:
                labs.append('scale:prior-calls:17+')
            rows = max(g['n'] for g in case['groups'])
            for lo in (17, 257, 4097):
                if rows >= lo:
                    labs.append(f'scale:cached-dataset-rows:{lo}+')
            if any(g.get('tok_extra') and any(c['stype'] == 'text_tokenized' for c in g['cols']) for g in case['groups']):
                labs.append('tokenizer:outputs-of-different-lengths')
            labs.append(f'groups:{len(case["groups"])}')
            labs.append('cache-hits:' + str(min(self._info.get('hits', 0), 3)) + ('+' if self._info.get('hits', 0) > 3 else ''))
            if 'compute-raises' in self._info:
                labs.append('fresh-computation-raises')
            shapes_of = {}
            for st in case['steps']:
                if st['op'] == 'mat' and st.get('path'):
                    labs.append('path-shape:' + st.get('shape', 'abs'))
                    shapes_of.setdefault(st['path'], set()).add(st.get('shape', 'abs'))
            if any(len(v) > 1 for v in shapes_of.values()):
                labs.append('history:one-file-named-in-several-shapes')
            for st, o in zip(case['steps'], out['steps']):
                if st['op'] == 'mat':
                    labs.append(f'mat:{"path" if st.get("path") else "nopath"}:{o}')
                else:
                    labs.append('fileop:' + st['op'])
            for d in case['datasets']:
                labs.append('dataset:' + ('usable' if d['usable'] else 'unusable-df'))
            for _, f in out['files']:
                labs.append('final-file:' + (f if isinstance(f, str) else 'loads'))
            labs.append('restored-converters:' + str(sum(1 for d, r in zip(case['datasets'], out['datasets'])
                                                         if r is not None and not d['usable'])))
        return labs

    @staticmethod
    def _stat_types(spec, acc, depth=0):
        if not isinstance(spec, dict):
            return
        if 'py' in spec:
            v = spec.get('v')
            acc.add('stat-value:py-' + ('bigint' if spec['py'] == 'int' and abs(v) >= 2 ** 63 else spec['py']))
        elif 'np' in spec:
            acc.add('stat-value:np.' + spec['np'])
        elif 'tensor' in spec:
            acc.add(f"stat-value:tensor-{spec['tensor']['dtype']}")
            acc.add(f"stat-value:tensor-shape-{spec['tensor'].get('shape', '1d')}")
            if len(spec['tensor']['data']) >= 17:
                acc.add('scale:statistic-length:17+')
            if len(spec['tensor']['data']) >= 257:
                acc.add('scale:statistic-length:257+')
        elif 'ndarray' in spec:
            acc.add(f"stat-value:ndarray-{spec['ndarray']['dtype']}")
            if len(spec['ndarray']['data']) >= 17:
                acc.add('scale:statistic-length:17+')
        else:
            for kind in ('list', 'tuple', 'dict'):
                if kind in spec:
                    acc.add(f'stat-value:{kind}' + ('-nested' if depth else ''))
                    items = spec[kind]
                    if len(items) >= 17:
                        acc.add('scale:statistic-length:17+')
                    if len(items) >= 257:
                        acc.add('scale:statistic-length:257+')
                    for it in items[:40]:
                        C11._stat_types(it[1] if kind == 'dict' else it, acc, depth + 1)

    def _scale_labels(self, case):
        labs = []
        facts = self._info.get('facts') or {}
        rows = self._info.get('rows', 0)
        base = case['base']
        parent = base['big']['R'] if 'big' in base else base['dataset']['n'] if 'dataset' in base else base['direct']['R']
        for lo in (17, 257, 4097, 65537):
            if rows >= lo:
                labs.append(f'scale:saved-rows:{lo}+')
            if parent >= lo:
                labs.append(f'scale:parent-rows:{lo}+')
        for lo, nm in ((1 << 16, '64KiB'), (1 << 20, '1MiB'), (1 << 24, '16MiB')):
            if facts.get('waste', 0) >= lo:
                labs.append(f'view:storage-behind-it-larger-by>={nm}')
        if facts.get('noncontig'):
            labs.append('view:non-contiguous-tensor')
        if facts.get('rows_gt_width'):
            labs.append('embedding:rows>width')
        elif facts.get('max_width'):
            labs.append('embedding:rows<=width')
        if facts.get('rows_gt_width') and facts.get('waste', 0) >= (1 << 20):
            labs.append('view:embedding-rows>width-of-parent-larger-by>=1MiB')
        for key, nm in (('max_cols', 'columns-of-a-container'), ('max_width', 'embedding-width'),
                        ('max_cell', 'cell-length')):
            for lo in (17, 257, 4097):
                if facts.get(key, 0) >= lo:
                    labs.append(f'scale:{nm}:{lo}+')
        if facts.get('unaligned_keys'):
            labs.append('tokenized:outputs-with-different-cell-lengths')
        if facts.get('equal_total_unaligned_keys'):
            labs.append('tokenized:different-cell-lengths-equal-total')
        for key, nm in (('inf', 'values:inf'), ('negzero', 'values:-0.0'), ('f64_only', 'values:not-representable-in-float32')):
            if facts.get(key):
                labs.append(nm)
        if case.get('via'):
            labs.append('via:' + case['via'])
        for a in self._info.get('alias', []):
            labs.append('alias:' + a)
        if self._info.get('oracle_only'):
            labs.append('oracle-only:too-big-for-the-model')
        if 'big' in base:
            labs.append('big-shape:' + base['big'].get('shape', '?'))
        acc = set()
        for col, d in ((case['stats'].get('explicit') or {}).items() if isinstance(case['stats'].get('explicit'), dict) else ()):
            for v in d.values():
                self._stat_types(v, acc)
        return labs + sorted(acc)

    # ------------------------------------------------------------------ fault enumeration (truncation)
    REWRITE_BYTES = {0: [1 << 16, 1 << 20, 8 << 20, 40 << 20], 1: [1 << 16, 1 << 20, 8 << 20, 40 << 20, 72 << 20],
                     2: [1 << 16, 1 << 20, 8 << 20, 40 << 20, 72 << 20, 136 << 20]}

    def rewrite_sweep(self, rng, report):
        """file size is a size too: one path written twice with the first result held, for files from 64 KiB to 40 MiB
        (72 MiB at level 1, 136 MiB in the thorough tier), each under another path shape"""
        rows = []
        shapes = list(dict.fromkeys(io.PATH_SHAPES))
        rng.shuffle(shapes)
        for k, nbytes in enumerate(self.REWRITE_BYTES[min(self.level, 2)]):
            spec = {'kind': 'rewrite', 'bytes': nbytes, 'seed': rng.randrange(2 ** 31), 'shape': shapes[k % len(shapes)]}
            try:
                found = io.rewrite_scenario(spec)
            except Exception as e:   # noqa
                found = [('rewrite/raises', f'{type(e).__name__}: {str(e)[:200]}', 'no exception', 'raises')]
            for key, what, exp, got in found[:2]:
                report['violations'].append(core.Violation(key, f"{what} (path given as {spec['shape']})", dict(spec), exp, got,
                                                           source='enumeration'))
            rows.append({'file_bytes': spec.get('observed_file_bytes'), 'path_shape': spec['shape'], 'findings': len(found)})
        report['extra']['rewrite_same_path'] = {'method': 'save(A, p); a = load(p); save(B, p); a is read again, load(p) == B, '
                                                          'writes into a loaded frame stay there', 'files': rows}

    def path_probes(self, report):
        """path shapes that the unchanged library does not support: logged, not generated"""
        import torch_frame
        obs = {}
        tmp = tempfile.mkdtemp(prefix='verif_c11_probe_')
        try:
            tf = torch_frame.TensorFrame({torch_frame.numerical: torch.zeros(2, 1)}, {torch_frame.numerical: ['x']}, None)
            for name, pth in (('a directory that does not exist yet', os.path.join(tmp, 'missing', 'dir', 'tf.pt')),
                              ('a path that is an existing directory', tmp)):
                try:
                    io.quiet(torch_frame.save, tf, None, pth)
                    obs[f'save to {name}'] = 'writes' if os.path.isfile(pth) else 'returns without a file'
                except Exception as e:   # noqa
                    obs[f'save to {name}'] = f'raises {type(e).__name__}'
        finally:
            shutil.rmtree(tmp, ignore_errors=True)
        report['extra'].setdefault('outside_domain_observations', {}).update(obs)

    def extra_checks(self, rng, tier, report):
        import torch_frame
        self.rewrite_sweep(rng, report)
        tmp = tempfile.mkdtemp(prefix='verif_c11_trunc_')
        try:
            # a dataset with every stype (so every storage kind is in the file), written by materialize(path)
            g = None
            for _ in range(50):
                cand = io.gen_group(rng, 7)
                if len({c['stype'] for c in cand['cols']}) >= 5 and cand['n'] >= 3:
                    try:
                        io.quiet(io.make_dataset(cand).materialize)
                        g = cand
                        break
                    except Exception:
                        continue
            if g is None:
                report['broken'].append('truncation enumeration: could not build a dataset to cache')
                return
            cache = os.path.join(tmp, 'cache.pt')
            ds = io.make_dataset(g)
            io.quiet(ds.materialize, path=cache)
            # and a file holding a view (non-zero storage offsets), written by save
            view = os.path.join(tmp, 'view.pt')
            vt = ds.tensor_frame[1:3]
            io.quiet(torch_frame.save, vt, ds.col_stats, view)
            results = []
            for name, path, with_mat in (('materialize(path) cache file', cache, True),
                                         ('save() of the view tf[1:3]', view, False)):
                data = open(path, 'rb').read()
                size = len(data)
                if tier == 'thorough':
                    offsets = list(range(size))
                else:
                    offsets = sorted(set(list(range(min(32, size))) + list(range(max(0, size - 32), size)) +
                                         [round(i * (size - 1) / 63) for i in range(64)]))
                cut = os.path.join(tmp, 'cut.pt')
                loaded_at = []
                for k in offsets:
                    with open(cut, 'wb') as fh:
                        fh.write(data[:k])
                    bad = None
                    try:
                        io.quiet(torch_frame.load, cut)
                        bad = 'torch_frame.load returned'
                    except Exception:
                        pass
                    if bad is None and with_mat:
                        d2 = io.make_dataset(g)
                        try:
                            io.quiet(d2.materialize, path=cut)
                            bad = 'Dataset.materialize(path) returned'
                        except Exception:
                            pass
                        if bad is None and (d2.is_materialized or open(cut, 'rb').read() != data[:k]):
                            bad = 'materialize raised but left the dataset materialised or rewrote the file'
                    if bad is not None:
                        loaded_at.append(k)
                        if len(loaded_at) <= 3:
                            report['violations'].append(core.Violation(
                                'truncation/loads', f'{name} ({size} bytes) cut to {k} bytes: {bad} instead of raising',
                                {'kind': 'truncation', 'group': g, 'file': name, 'file_size': size, 'offset': k},
                                'an exception', bad, source='enumeration'))
                # sanity: the uncut file does load (the enumeration is not vacuous)
                try:
                    io.quiet(torch_frame.load, path)
                except Exception as e:
                    report['broken'].append(f'truncation enumeration: the intact {name} does not load: {e}')
                results.append({'file': name, 'file_size': size, 'offsets_tried': len(offsets),
                                'all_raised': not loaded_at, 'loaded_at': loaded_at[:10],
                                'exhaustive': len(offsets) == size,
                                'calls': 'torch_frame.load' + (' and Dataset.materialize(path=...)' if with_mat else '')})
            # outside C11's stated domain, logged only (DESIGN.md section 6): a feature-less frame with explicit num_rows
            try:
                e0 = torch_frame.TensorFrame({}, {}, num_rows=5)
                p0 = os.path.join(tmp, 'featureless.pt')
                io.quiet(torch_frame.save, e0, None, p0)
                e1, _ = io.quiet(torch_frame.load, p0)
                report['extra']['outside_domain_observations'] = {
                    'feature-less TensorFrame({}, {}, num_rows=5) after save/load has num_rows': int(e1.num_rows)}
            except Exception as e:
                report['extra']['outside_domain_observations'] = {'feature-less frame': f'raises {type(e).__name__}'}
            self.path_probes(report)
            report['extra'].setdefault('outside_domain_observations', {})[
                'TensorFrame.__eq__ is not reflexive when the target y holds a NaN (torch.allclose without equal_nan); '
                'comparisons of such frames in this run, judged by the exact comparisons only'] = \
                EQ_NOTES['frames_not_equal_to_themselves(NaN target)']
            main = results[0]
            report['extra']['truncation'] = {
                'method': 'enumeration (fault injection on the implementation), not proof',
                'file_size': main['file_size'], 'offsets_tried': main['offsets_tried'],
                'all_raised': all(r['all_raised'] for r in results), 'exhaustive': all(r['exhaustive'] for r in results),
                'files': results}
        finally:
            shutil.rmtree(tmp, ignore_errors=True)

    def replay(self, path):
        import json
        doc = json.load(open(path))
        case = doc.get('case')
        if isinstance(case, dict) and case.get('kind') == 'rewrite':
            core.ensure_repo_import()
            found = io.rewrite_scenario(dict(case))
            for key, what, _, _ in found:
                print(f'{key}: {what}  -> VIOLATED')
            if not found:
                print(f"one path written twice ({case['bytes']} bytes, shape {case['shape']}): every observation holds")
            return 1 if found else 0
        if isinstance(case, dict) and case.get('kind') == 'truncation':
            import torch_frame
            core.ensure_repo_import()
            tmp = tempfile.mkdtemp(prefix='verif_c11_replay_')
            try:
                g = case['group']
                cache = os.path.join(tmp, 'cache.pt')
                ds = io.make_dataset(g)
                io.quiet(ds.materialize, path=cache)
                if case['file'].startswith('save'):
                    io.quiet(torch_frame.save, ds.tensor_frame[1:3], ds.col_stats, cache)
                data = open(cache, 'rb').read()
                open(cache, 'wb').write(data[:case['offset']])
                print(f'file of {len(data)} bytes cut to {case["offset"]} bytes')
                rc = 0
                for nm, fn in (('torch_frame.load', lambda: torch_frame.load(cache)),
                               ('Dataset.materialize(path)', lambda: io.make_dataset(g).materialize(path=cache))):
                    try:
                        io.quiet(fn)
                        print(nm, ': returned  -> VIOLATED')
                        rc = 1
                    except Exception as e:
                        print(nm, ': raises', type(e).__name__)
                return rc
            finally:
                shutil.rmtree(tmp, ignore_errors=True)
        return super().replay(path)


CHECK = C11()

"""C01 - materialization encodes every cell faithfully, for every semantic type."""
import traceback

from harness import core
from harness import matgen as mg


def materialize_real(frame, labels=None, dfperm=None, dictperm=None):
    """Dataset(...).materialize() on the rendered frame -> ('ok', ds, stubs) | ('raises', text, None)"""
    try:
        ds, stubs = mg.make_dataset(frame, labels, dfperm, dictperm)
        ds.materialize()
        return 'ok', ds, stubs
    except Exception as e:   # noqa
        return 'raises', f'{type(e).__name__}: {str(e)[:300]} @ {traceback.format_exc().splitlines()[-3].strip()[:120]}', None


def outcome_of(ds, frame):
    out = {'tf': mg.canon_tf(ds.tensor_frame), 'stats': mg.model_stats(ds.col_stats),
           'convNames': mg.canon_names(ds.convert_to_tensor_frame.col_names_dict)}
    if frame['target'] is None:
        out['taskType'], out['numClasses'] = None, None
    else:
        try:
            out['taskType'] = ds.task_type.value
        except Exception:   # noqa
            out['taskType'] = 'raises'
        try:
            out['numClasses'] = int(ds.num_classes)
        except Exception:   # noqa
            out['numClasses'] = 'raises'
    return {'ok': out}


def model_view(rep, frame):
    """driver reply -> the same shape as outcome_of (multicategorical cells sorted, validity folded in)"""
    if not isinstance(rep, dict) or 'ok' not in rep:
        return rep
    o = dict(rep['ok'])
    o['tf'] = mg.sort_multicat(o['tf'], frame)
    bad = [k for k, v in o.pop('catsValid', {}).items() if not v]
    if bad:
        o['model-rejects-category-list'] = bad
    return {'ok': o}


def check_cells(frame, view, stats, what, order=None, fitted=False):
    """plain-Python oracle: every cell of `view` against the encoding of the abstract cell.
    `fitted`: the category lists were fitted on another frame (converter calls), so they are not re-validated.
    Returns (key, message, expected, actual) or None."""
    n = frame['n']
    target = frame['target']
    names = mg.expected_names(frame, order)
    if view['names'] != names:
        return ('schema/names', f'{what}: col_names_dict differs from the canonical schema', names, view['names'])
    if view['numRows'] != n:
        return ('schema/num-rows', f'{what}: frame has {view["numRows"]} rows for a {n}-row DataFrame', n, view['numRows'])
    bycol = {c['name']: c for c in frame['cols']}
    for name, col in bycol.items():
        cats = stats.get(name, {}).get('cats', [])
        if col['stype'] in ('categorical', 'multicategorical') and not fitted:
            p = mg.cats_problem(col, cats, name == target)
            if p:
                return (f'stats/{col["stype"]}', f'{what}: column {name!r}: {p}', None, cats)
        exp = [mg.expected_cell(col, c, cats) for c in col['cells']]
        if name == target:
            if view['y'] != exp:
                i = next((i for i, (a, b) in enumerate(zip(view['y'] or [], exp)) if a != b), None)
                return (f'y/{col["stype"]}', f'{what}: y differs from the encoding of target column {name!r} at row {i}',
                        exp, view['y'])
            continue
        got = view['cells'].get(name)
        if got != exp:
            i = next((i for i, (a, b) in enumerate(zip(got, exp)) if a != b), None) if isinstance(got, list) else None
            return (f'cell/{col["stype"]}', f'{what}: get_col_feat({name!r}) row {i} is not the encoding of the raw cell '
                    f'{col["cells"][i] if i is not None else "?"!r}', exp, got)
    # the same through feat_dict
    for st, cols in names.items():
        g = view['grid'].get(st)
        for j, name in enumerate(cols):
            col = bycol[name]
            cats = stats.get(name, {}).get('cats', [])
            exp = [mg.expected_cell(col, c, cats) for c in col['cells']]
            got = [row[j] for row in g] if isinstance(g, list) and all(len(row) > j for row in g) else None
            if got != exp:
                return (f'feat/{col["stype"]}', f'{what}: feat_dict[{st}][:, {j}] is not the encoding of column {name!r}',
                        exp, got)
    if target is None and view['y'] is not None:
        return ('y/unexpected', f'{what}: y present without a target column', None, view['y'])
    return None


class C01(core.Check):
    pid = 'C01'
    driver = 'drv_c01'
    quick_cases = 1200
    thorough_cases = 5000
    rule = ('abstract frames of 1-12 rows x 1-8 feature columns (+ optional target: numerical / 1-,2-,3+-class '
            'categorical / timestamp) over numerical, categorical (str and int values), multicategorical (sep-joined '
            'with padding / list-valued, repeated and empty tokens), sequence_numerical (NaN entries, []), timestamp '
            '(1700-2200, 8 explicit formats + auto, datetime64[s|ms|us|ns], unparseable strings), embedding (width 1-5, '
            'list / ndarray, missing cells) and text_/image_embedded (deterministic stub embedder, batch sizes None/1/2/5); missing '
            'rates 0-60% incl. all-missing columns; every string column in object or str dtype, None or NaN as the '
            'missing marker, nullable / numpy numeric dtypes; 30% of the frames carry a non-default index. Rendered to '
            'pandas, Dataset(...).materialize(); every cell read through feat_dict, get_col_feat and y and compared '
            'exactly with the Lean model (which receives the abstract frame and the observed category lists). '
            'Non-trivial = materialization succeeded on a frame with at least one non-missing cell; distinct = hash '
            'of the abstract frame.')
    partial_notes = (
        'pandas / dateutil parsing, dtype inference and numpy casts are outside the model (cells are abstract); '
        'the renderer + exact comparison exercise them',
        'calendar CORRECTNESS is not a theorem beyond ranges + round trip (daysFromCivil (civilFromDays z) = z): '
        'the seven components are compared with Python datetime on every generated timestamp and on a wide '
        'epoch-second sweep (extra_checks)',
        'the tie order inside value_counts is not modelled: the model takes the observed category list and checks '
        'it is a duplicate-free enumeration of the distinct values in non-increasing count order',
        'text_tokenized columns (dictionaries of token tensors) are not part of this check',
        'a plain embedding column without a single non-missing vector has no width and still raises: outside the '
        'domain (every generated embedding column keeps at least one vector)',
    )
    assumptions = ('float payloads are float32-exact, so the float32 cast of the numerical mapper is the identity',)

    def __init__(self):
        self._side = {}

    # ------------------------------------------------------------------ generation
    def generate(self, rng, n, tier):
        for k in range(n):
            focus = [None, 'multicategorical', 'timestamp', 'categorical', 'sequence_numerical', 'numerical',
                     'embedding', 'text_embedded'][k % 8]
            if k % 211 == 13:
                frame = mg.gen_frame(rng, n=rng.randint(1024, 1100), ncols=rng.choice([1, 2, 3]), focus=focus)
            else:
                frame = mg.gen_frame(rng, focus=focus)
            labels = mg.gen_labels(rng, frame['n']) if rng.random() < 0.3 else mg.gen_labels(rng, frame['n'], 'range')
            yield {'frame': frame, 'labels': labels}

    # ------------------------------------------------------------------ real side
    def real(self, case):
        frame = case['frame']
        st, ds, stubs = materialize_real(frame, case.get('labels'))
        if st == 'raises':
            self._side[id(case)] = {'error': ds, 'cats': {}}
            return 'raises'
        out = outcome_of(ds, frame)
        self._side[id(case)] = {'cats': {c: s['cats'] for c, s in out['ok']['stats'].items()}, 'stubs': stubs}
        return out

    # ------------------------------------------------------------------ model side
    def model_requests(self, case):
        side = self._side.get(id(case), {'cats': {}})
        req = {'cmd': 'mat', 'variants': []}
        req.update(mg.model_frame(case['frame'], side['cats'], case.get('labels')))
        req['labels'] = [mg.model_label(v) for v in req['labels']]
        return [req]

    def model_outcome(self, case, replies):
        return model_view(replies[0][0], case['frame'])

    # ------------------------------------------------------------------ oracle
    def oracle(self, case, real_outcome):
        frame = case['frame']
        if real_outcome == 'raises':
            err = self._side.get(id(case), {}).get('error', '')
            return core.Violation('materialize-raises', f'materialize() raised on an in-domain frame: {err}', case,
                                  'a TensorFrame', err)
        o = real_outcome['ok']
        v = check_cells(frame, o['tf'], o['stats'], 'materialize')
        if v:
            return core.Violation(v[0], v[1], case, v[2], v[3])
        # the embedder must have been called on exactly the column's strings, in row order
        stubs = self._side.get(id(case), {}).get('stubs') or {}
        for col in frame['cols']:
            if col['name'] in stubs:
                want = [mg.text_input(col, c) for c in col['cells']]
                got = [s for call in stubs[col['name']].calls for s in call]
                if got[:len(want)] != want:
                    return core.Violation('embedder-input', f'embedder of {col["name"]!r} did not receive str(cell) row by row',
                                          case, want, got)
        return None

    def nontrivial_key(self, case, real_outcome):
        if real_outcome == 'raises':
            return None
        if all(c is None for col in case['frame']['cols'] for c in col['cells']):
            return None
        return core.stable_hash(case['frame'])

    def classify(self, case, real_outcome):
        frame = case['frame']
        labs = [f"rows:{frame['n']}", f"cols:{len(frame['cols'])}", f"labels:{case['labels']['kind']}",
                'outcome:' + ('raises' if real_outcome == 'raises' else 'ok')]
        tcol = next((c for c in frame['cols'] if c['name'] == frame['target']), None)
        labs.append('target:' + (tcol['stype'] if tcol else 'none'))
        for col in frame['cols']:
            st, r, cells = col['stype'], col['r'], col['cells']
            labs.append(f'stype:{st}')
            nm = sum(c is None for c in cells)
            labs.append(f'{st}:missing:' + ('none' if nm == 0 else 'all' if nm == len(cells) else 'some'))
            if 'dtype' in r and st != 'timestamp':
                labs.append(f'{st}:dtype:{r["dtype"]}')
            if st == 'multicategorical':
                labs.append(f'multicategorical:{r["how"]}')
                if any(c is not None and len(set(c)) < len(c) for c in cells):
                    labs.append('multicategorical:repeated-token')
                if any(c == [] for c in cells):
                    labs.append('multicategorical:empty-cell')
            if st == 'timestamp':
                labs.append('timestamp:' + (f'dt64[{r["unit"]}]' if r['kind'] == 'dt64' else f'fmt:{r["fmt"]}:{r["dtype"]}'))
                if any(isinstance(c, dict) for c in cells):
                    labs.append('timestamp:unparseable')
            if st == 'categorical':
                vals = [c for c in cells if c is not None]
                cnt = {v: vals.count(v) for v in set(vals)}
                if len(set(cnt.values())) < len(cnt):
                    labs.append('categorical:tied-counts')
            if st == 'sequence_numerical' and any(c is not None and 'nan' in c for c in cells):
                labs.append('sequence:nan-entry')
            if st == 'numerical' and any(c in ('inf', '-inf') for c in cells):
                labs.append('numerical:inf')
        return sorted(set(labs))

    # ------------------------------------------------------------------ extra checks
    def extra_checks(self, rng, tier, report):
        self.calendar_sweep(rng, tier, report)
        self.pipeline_labels(rng, tier, report)

    def calendar_sweep(self, rng, tier, report):
        """Lean calendar vs Python datetime on epoch seconds 0001-2400 (boundaries of every year + random)"""
        import datetime
        secs = []
        for y in range(1600, 2401, 1 if tier == 'thorough' else 7):
            for (mo, d) in ((1, 1), (2, 28), (3, 1), (12, 31)):
                base = mg.epoch_of(y, mo, d)
                secs += [base, base - 1, base + 86399, base + 86400]
        lo, hi = mg.epoch_of(2, 1, 1), mg.epoch_of(2400, 1, 1)
        secs += [rng.randint(lo, hi) for _ in range(20000 if tier == 'thorough' else 3000)]
        try:
            rep = core.Driver(self.driver).ask([{'cmd': 'calendar', 'secs': secs}])[0]
        except Exception as e:   # noqa
            report['broken'].append(f'calendar sweep: driver unavailable ({e})')
            return
        bad = [(s, r, mg.components_of(s)) for s, r in zip(secs, rep) if r != mg.components_of(s)]
        report['extra']['calendar_sweep'] = {'epoch_seconds': len(secs), 'range': '0002-01-01 .. 2400-01-01',
                                             'disagreements_with_datetime': len(bad)}
        if bad:
            report['broken'].append(f'calendar model differs from datetime at epoch second {bad[0][0]}: '
                                    f'model {bad[0][1]} datetime {bad[0][2]}')

    def pipeline_labels(self, rng, tier, report):
        """the multicategorical mapper alone under every labelling: real mapper vs Lean pipeline, and the
        label-consulting variant of the model must be the one that breaks on duplicate labels"""
        import pandas as pd
        from torch_frame.data.mapper import MultiCategoricalTensorMapper
        reqs, reals, metas = [], [], []
        for _ in range(300 if tier == 'thorough' else 60):
            n = rng.randint(1, 7)
            col = mg.gen_col(rng, 'm', 'multicategorical', n)
            cnt = mg.observed_values(col)
            cats = sorted(cnt, key=lambda k: (-cnt[k], k))
            if rng.random() < 0.3 and cats:
                cats = cats[:-1]                       # an unseen token
            labels = mg.gen_labels(rng, n, rng.choice(['range', 'dup', 'dupall', 'perm', 'str', 'offset']))
            vals, dt = mg.render_cells(col)
            ser = mg._series(vals, dt, index=pd.Index(labels['values']))
            try:
                m = MultiCategoricalTensorMapper(cats, sep=col['r']['sep']).forward(ser)
                off = [int(x) for x in m.offset.tolist()]
                v = [int(x) for x in m.values.tolist()]
                real = [sorted(v[a:b]) for a, b in zip(off, off[1:])]
            except Exception as e:   # noqa
                real = f'raises {type(e).__name__}'
            exp = [mg.expected_cell(col, c, cats) for c in col['cells']]
            if real != exp:
                report['violations'].append(core.Violation(
                    'multicat-mapper/positional', f'MultiCategoricalTensorMapper.forward under labels {labels["values"]} '
                    f'is not the per-row token-index sets', {'col': col, 'cats': cats, 'labels': labels}, exp, real))
            reqs.append({'cmd': 'pipeline', 'labels': [mg.model_label(x) for x in labels['values']], 'cats': cats,
                         'cells': [mg.model_cell(col, c) for c in col['cells']]})
            reals.append(exp)
            metas.append(labels)
        try:
            reps = core.Driver(self.driver).ask(reqs)
        except Exception as e:   # noqa
            report['broken'].append(f'pipeline check: driver unavailable ({e})')
            return
        bad = lab_broken = 0
        for rep, exp, labels in zip(reps, reals, metas):
            f = rep['fixed']
            off = f['offset']
            got = [sorted(f['values'][a:b]) for a, b in zip(off, off[1:])] if f['valid'] else 'invalid'
            if got != exp:
                bad += 1
                report['broken'].append(f'multicat pipeline model differs from the per-row sets under labels {labels["values"]}')
            lb = rep['labelled']
            offl = lb['offset']
            gotl = [sorted(lb['values'][a:b]) for a, b in zip(offl, offl[1:])] if lb['valid'] else 'invalid'
            if gotl != exp:
                lab_broken += 1
        report['extra']['multicat_pipeline'] = {'cases': len(reqs), 'model_disagreements': bad,
                                                'label_consulting_variant_wrong_on': lab_broken}


CHECK = C01()

"""C01 - materialization encodes every cell faithfully, for every semantic type."""
import traceback

from harness import core
from harness import matgen as mg


def materialize_real(frame, labels=None, dfperm=None, dictperm=None):
    """Dataset(...).materialize() on the rendered frame -> ('ok', ds, stubs) | ('raises', text, None)"""
    try:
        mg.run_prelude(frame)
        ds, stubs = mg.make_dataset(frame, labels, dfperm, dictperm)
        ds.materialize()
        return 'ok', ds, stubs
    except Exception as e:   # noqa
        return 'raises', f'{type(e).__name__}: {str(e)[:300]} @ {traceback.format_exc().splitlines()[-3].strip()[:120]}', None


def outcome_of(ds, frame):
    out = {'tf': mg.canon_tf(ds.tensor_frame), 'stats': mg.model_stats(ds.col_stats),
           'convNames': mg.canon_names(ds.convert_to_tensor_frame.col_names_dict)}
    if frame['target'] is None:
        out['taskType'], out['numClasses'] = None, None
    else:
        try:
            out['taskType'] = ds.task_type.value
        except Exception:   # noqa
            out['taskType'] = 'raises'
        try:
            out['numClasses'] = int(ds.num_classes)
        except Exception:   # noqa
            out['numClasses'] = 'raises'
    return {'ok': out}


def model_view(rep, frame):
    """driver reply -> the same shape as outcome_of (multicategorical cells sorted, validity folded in)"""
    if not isinstance(rep, dict) or 'ok' not in rep:
        return rep
    o = dict(rep['ok'])
    o['tf'] = mg.sort_multicat(o['tf'], frame)
    bad = [k for k, v in o.pop('catsValid', {}).items() if not v]
    if bad:
        o['model-rejects-category-list'] = bad
    return {'ok': o}


def check_cells(frame, view, stats, what, order=None, fitted=False):
    """plain-Python oracle: every cell of `view` against the encoding of the abstract cell.
    `fitted`: the category lists were fitted on another frame (converter calls), so they are not re-validated.
    Returns (key, message, expected, actual) or None."""
    n = frame['n']
    target = frame['target']
    names = mg.expected_names(frame, order)
    if view['names'] != names:
        return ('schema/names', f'{what}: col_names_dict differs from the canonical schema', names, view['names'])
    if view['numRows'] != n:
        return ('schema/num-rows', f'{what}: frame has {view["numRows"]} rows for a {n}-row DataFrame', n, view['numRows'])
    bycol = {c['name']: c for c in frame['cols']}
    expected = {}
    for name, col in bycol.items():
        cats = stats.get(name, {}).get('cats', [])
        if col['stype'] in ('categorical', 'multicategorical') and not fitted:
            p = mg.cats_problem(col, cats, name == target)
            if p:
                return (f'stats/{col["stype"]}', f'{what}: column {name!r}: {p}', None, cats)
        exp = expected[name] = mg.expected_column(col, cats)
        if name == target:
            if view['y'] != exp:
                i = next((i for i, (a, b) in enumerate(zip(view['y'] or [], exp)) if a != b), None)
                return (f'y/{col["stype"]}', f'{what}: y differs from the encoding of target column {name!r} at row {i}',
                        exp, view['y'])
            continue
        got = view['cells'].get(name)
        if got != exp:
            i = next((i for i, (a, b) in enumerate(zip(got, exp)) if a != b), None) if isinstance(got, list) else None
            return (f'cell/{col["stype"]}', f'{what}: get_col_feat({name!r}) row {i} is not the encoding of the raw cell '
                    f'{col["cells"][i] if i is not None else "?"!r}', exp, got)
    # the same through feat_dict
    for st, cols in names.items():
        g = view['grid'].get(st)
        for j, name in enumerate(cols):
            col = bycol[name]
            exp = expected[name]
            got = [row[j] for row in g] if isinstance(g, list) and all(len(row) > j for row in g) else None
            if got != exp:
                return (f'feat/{col["stype"]}', f'{what}: feat_dict[{st}][:, {j}] is not the encoding of column {name!r}',
                        exp, got)
    if target is None and view['y'] is not None:
        return ('y/unexpected', f'{what}: y present without a target column', None, view['y'])
    return None


def frame_labels(frame):
    """input-distribution labels of an abstract frame: stypes, dtypes, containers, special values, stress families"""
    labs = list(frame.get('fam', []))
    n = frame['n']
    for dim, v in (('rows', n), ('cols', len(frame['cols']))):
        lab = mg.size_label(dim, v)
        if lab:
            labs.append(lab)
    tcol = next((c for c in frame['cols'] if c['name'] == frame['target']), None)
    labs.append('target:' + (tcol['stype'] if tcol else 'none'))
    cfg = frame.get('cfg') or {}
    if cfg.get('extra_cols') or cfg.get('split_col'):
        labs.append('config:unused-df-columns')
    names = [c['name'] for c in frame['cols']]
    low = [x.lower() for x in names]
    if len(set(low)) < len(low):
        labs.append('names:equal-up-to-case')
    if sorted(names) != sorted(names, key=str.lower):
        labs.append('names:case-changes-order')
    if any(a != b and b.startswith(a) for a in names for b in names) and len(names) <= 64:
        labs.append('names:prefix-of-another')
    for col in frame['cols'][:64]:
        st, r, cells = col['stype'], col['r'], col['cells']
        labs.append(f'stype:{st}')
        nm = sum(c is None for c in cells)
        labs.append(f'{st}:missing:' + ('none' if nm == 0 else 'all' if nm == len(cells) else 'some'))
        if 'dtype' in r and st != 'timestamp':
            labs.append(f'dtype:{st}:{r["dtype"]}')
        if st == 'numerical':
            if any(c in ('inf', '-inf') for c in cells):
                labs.append('numerical:inf')
            vals = [c for c in cells[:500] if isinstance(c, float)]
            if any(mg.f32(v) != v for v in vals):
                labs.append('value:float64-not-float32-exact')
            if any(abs(v) > 2 ** 24 and v == int(v) for v in vals if abs(v) < 1e30):
                labs.append('value:integer>2^24')
            if any(v in (-1.0, 0.5) for v in vals):
                labs.append('value:sentinel-like(-1,0.5)')
        if st == 'categorical':
            vals = [c for c in cells[:2000] if c is not None]
            cnt = {}
            for v in vals:
                cnt[v] = cnt.get(v, 0) + 1
            if len(set(cnt.values())) < len(cnt):
                labs.append('categorical:tied-counts')
            if any(v in ('-1', 'nan', 'None', '<NA>', '', -1) for v in cnt):
                labs.append('value:sentinel-like-category')
            if any(isinstance(v, str) and v.endswith('\x00') for v in cnt):
                labs.append('value:trailing-NUL')
            if any(isinstance(v, int) and abs(v) > 2 ** 24 for v in cnt):
                labs.append('value:integer-category>2^24')
            if r['dtype'] == 'category':
                labs.append(f'dtype:CategoricalDtype:{r.get("cat_order")}' + (':ordered' if r.get('ordered') else ''))
                if nm:
                    labs.append('dtype:CategoricalDtype:with-missing')
            lab = mg.size_label('categories', len(cnt))
            if lab:
                labs.append(lab)
            lab = mg.size_label('celllen', max([len(v) for v in cnt if isinstance(v, str)] + [0]))
            if lab:
                labs.append(lab)
        if st == 'multicategorical':
            labs.append(f'multicategorical:{r["how"]}' + (f':{r.get("box")}' if r['how'] == 'list' else ''))
            some = [c for c in cells[:500] if c is not None]
            if any(len(set(c)) < len(c) for c in some):
                labs.append('multicategorical:repeated-token')
            if any(c == [] for c in some):
                labs.append('multicategorical:empty-cell')
            toks = {t for c in some for t in c}
            if r['how'] == 'sep' and any(set(t) & set('|,;:/') for t in toks):
                labs.append('value:other-separator-inside-token')
            if r['how'] == 'sep' and len(r['sep']) > 1:
                sep = r['sep']
                labs.append('sep:multi-character')
                if sep != sep.strip() and sep.strip():
                    labs.append('sep:blank-padded-core')
                    if any(sep.strip() in t for t in toks):
                        labs.append('value:bare-separator-core-inside-token')
                if any(f in t for t in toks for f in mg.sep_fragments(sep)):
                    labs.append('value:separator-fragment-inside-token')
                if r.get('pad') and any(r['pad']):
                    labs.append('sep:multi-character:padded-tokens')
            if any(a != b and b.startswith(a) and a for a in list(toks)[:40] for b in list(toks)[:40]):
                labs.append('value:token-prefix-of-another')
            lab = mg.size_label('tokens-per-cell', max([len(c) for c in some] + [0]))
            if lab:
                labs.append(lab)
            lab = mg.size_label('token-pool', col.get('k', 0))
            if lab:
                labs.append(lab)
            lab = mg.size_label('celllen', max([len(t) for t in toks] + [0]))
            if lab:
                labs.append(lab)
        if st == 'timestamp':
            if r['kind'] == 'str':
                labs.append(f'timestamp:fmt:{r["fmt"]}' + (f':{r["dtype"]}' if (r['fmt'] or '').count('%') <= 6 and not
                                                           any(d in (r['fmt'] or '') for d in mg.RICH_DIRECTIVES) else ''))
                labs.append(f'dtype:timestamp-text:{r["dtype"]}')
            fmt = (r['fmt'] if r['kind'] == 'str' else r.get('cfgfmt')) or ''
            for d, lab in (('%I', '12-hour-clock(%I %p)'), ('%y', 'two-digit-year(%y)'), ('%j', 'day-of-year(%j)'),
                           ('%b', 'month-name(%b)'), ('%B', 'month-name(%B)'), ('%a', 'weekday-name(%a)'),
                           ('%A', 'weekday-name(%A)'), ('%c', 'locale(%c)'), ('%X', 'locale(%X)'), ('%x', 'locale(%x)'),
                           ('%U', 'week-number(%U %w)'), ('%W', 'week-number(%W %w)'), ('%V', 'iso-week(%G %V %u)'),
                           ('%f', 'sub-second(%f)'), ('%z', 'utc-offset(%z)')):
                if d in fmt:
                    labs.append('timefmt:' + lab)
            if fmt and '%' in fmt and '%H' not in fmt and any(d in fmt for d in ('%I', '%X', '%c')):
                labs.append('timefmt:time-of-day-without-%H')
                if any(isinstance(c, int) and c % 86400 >= 43200 for c in cells[:500]):
                    labs.append('timefmt:12-hour-clock:pm-cell')
            if r['kind'] != 'str' and r.get('cfgfmt'):
                labs.append('timefmt:configured-for-a-datetime-column(ignored)')
            if any(isinstance(c, int) and c % 86400 for c in cells[:500]):
                labs.append('timestamp:not-midnight')
            elif r['kind'] == 'pyobj':
                labs.append(f'timestamp:object-column-of-{r["pyobj"]}' + (':tz' if r.get('tz') is not None else ''))
            else:
                labs.append(f'timestamp:{r["kind"]}[{r["unit"]}]')
            if r.get('tz') is not None or r['kind'] == 'dt64tz':
                labs.append('dtype:tz-aware' + (':nonzero-offset' if (r.get('tz') or r.get('tzname') not in (None, 'UTC', '+00:00')) else ''))
            if r.get('frac') is not None and any(isinstance(c, int) and mg.frac_us(r, c) >= 500000 for c in cells[:500]):
                labs.append('dtype:sub-second>=0.5s')
            elif r.get('frac') is not None:
                labs.append('dtype:sub-second')
            if any(isinstance(c, dict) for c in cells[:500]):
                labs.append('timestamp:unparseable')
        if st == 'sequence_numerical':
            if any(c is not None and 'nan' in c for c in cells[:500]):
                labs.append('sequence:nan-entry')
            lab = mg.size_label('seqlen', max([len(c) for c in cells[:500] if c] + [0]))
            if lab:
                labs.append(lab)
        if st == 'embedding':
            labs.append(f'embedding:as:{r["as"]}')
        if st in mg.EMB_KINDS:
            lab = mg.size_label('embwidth', r['w'])
            if lab:
                labs.append(lab)
        if col.get('shared_raw'):
            labs.append('shared-raw:column')
    return labs


class C01(core.Check):
    pid = 'C01'
    driver = 'drv_c01'
    quick_cases = 1200
    thorough_cases = 5000
    rule = ('abstract frames of 1-12 rows x 1-8 feature columns (+ optional target: numerical / 1-,2-,3+-class '
            'categorical / timestamp) over numerical, categorical (str and int values), multicategorical (sep-joined '
            'with padding / list-, tuple-, set-, ndarray-valued, repeated and empty tokens, tokens containing other columns\' '
            'separators; 35% of the delimiter-joined columns use a separator of several characters - a core with blank padding such '
            'as ", " / " | " / " and ", or "::" / "--" / "<br>" - with tokens built around the bare core and every other proper '
            'fragment of the separator, all tokens padded alike), sequence_numerical (NaN entries, []), timestamp (1700-2200, 15 '
            'explicit formats incl. %f and %z + auto, and 27 more using the 12-hour clock %I %p, two-digit years %y, day of year %j, '
            'month / weekday names %b %B %a %A, week numbers %U %W %G-%V-%u, the locale forms %c %x %X, time before date, undelimited '
            'fields, with times that are not midnight; a format configured for a column that already holds datetimes, '
            'datetime64[s|ms|us|ns] with sub-second parts, tz-aware datetime64 with fixed offsets, object columns of datetime / '
            'Timestamp, unparseable strings), embedding (width 1-5, list / tuple / float64- / float32-ndarray, missing cells) and '
            'text_/image_embedded (deterministic stub embedder, batch sizes None/1/2/5/17/256); missing rates 0-60% incl. '
            'all-missing columns; string columns in object, str, `string` or CategoricalDtype (sorted / reversed / shuffled / ordered '
            'categories, with missing cells), None or NaN as the missing marker, nullable / numpy numeric dtypes of every width; '
            'values incl. sentinel look-alikes (-1, 0.5, "-1", "nan", "None", "<NA>", trailing NUL), float64 payloads that are not '
            'float32-exact or overflow float32, integers > 2^24 / 2^53, mixed-case and prefix-related names. Every 40th case (80th '
            'in the thorough tier) scales ONE dimension to a rung of the size ladder of the stress level (harness/stress.py: rows, '
            'columns, categories, token pool, tokens per cell, cell length, sequence length, embedding width; <= 259 / 4 099 / 65 539), '
            '~7% of the frames hold 2-3 columns with different separators / day-first vs month-first formats drawn from ONE pool of '
            'raw texts, optionally after another dataset (other separators) consumed the same texts earlier in the process; '
            'second materialize() calls, twin comparison of the input frame, in-place writes into the tensors of the materialized frame '
            'followed by a twin comparison of the DataFrame, of the statistics and a conversion of the dataset\'s own frame, configuration passed as dict in shuffled key order / '
            'as one string / with None entries left out, unused DataFrame columns and a split column; ~35% of the frames carry a '
            'non-default index (17 kinds). Rendered to pandas, Dataset(...).materialize(); every cell read through feat_dict, '
            'get_col_feat and y and compared exactly with the Lean model (which receives the abstract frame and the observed '
            'category lists); frames above 17 000 rows / 4 200 columns / 4 200 categories are judged by the plain-Python oracle '
            'only (oracle_only_cases). Non-trivial = materialization succeeded on a frame with at least one non-missing cell; '
            'distinct = hash of the abstract frame.')
    partial_notes = (
        'pandas / dateutil parsing, dtype inference and numpy casts are outside the model (cells are abstract); '
        'the renderer + exact comparison exercise them',
        'calendar CORRECTNESS is not a theorem beyond ranges + round trip (daysFromCivil (civilFromDays z) = z): '
        'the seven components are compared with Python datetime on every generated timestamp and on a wide '
        'epoch-second sweep (extra_checks)',
        'the tie order inside value_counts is not modelled: the model takes the observed category list and checks '
        'it is a duplicate-free enumeration of the distinct values in non-increasing count order',
        'text_tokenized columns (dictionaries of token tensors) are not part of this check',
        'a plain embedding column without a single non-missing vector has no width and still raises: outside the '
        'domain (every generated embedding column keeps at least one vector)',
        'tz-aware timestamps are generated with ONE fixed UTC offset per column (datetime64[unit, tz], %z text, datetime '
        'objects): the seven components are those of the wall clock as written; zones with daylight-saving transitions, '
        'mixed offsets in one column and mixed text precisions under format=None are not generated (see '
        'observed_outside_generated_domain)',
        'frames above 17 000 rows / 4 200 columns / 4 200 categories (thorough tier: 32 769 / 65 537 rungs) are judged by the '
        'plain-Python oracle only; they are read column-wise (feat[:, j]) with spot checks through feat[i, j]',
    )
    assumptions = ('the float32 cast of the mappers is applied to float payloads by the harness (struct round-trip, C cast '
                   'semantics) before they reach the model / the oracle; the model only moves the payload bits',)

    def __init__(self):
        self._side = {}

    _replaying = False

    def replay(self, path):
        self._replaying = True
        return super().replay(path)

    def skip_model(self):
        """SKIP_MODEL for the engine; a printable marker while replaying (core.replay json-dumps the model outcome)"""
        return 'oracle-only case: not shipped to the Lean model' if self._replaying else core.SKIP_MODEL

    # ------------------------------------------------------------------ generation
    def generate(self, rng, n, tier):
        lvl = self.level
        period = 40 if lvl < 2 else 80
        for k in range(n):
            focus = [None, 'multicategorical', 'timestamp', 'categorical', 'sequence_numerical', 'numerical',
                     'embedding', 'text_embedded'][k % 8]
            if k % period == 7:
                # one dimension from the size ladder of the stress level (rows, columns, categories, tokens per cell,
                # cell length, sequence length, embedding width), round robin
                frame = mg.gen_scaled_frame(rng, lvl, mg.SCALE_DIMS[(k // period) % len(mg.SCALE_DIMS)],
                                            top=k // period < len(mg.SCALE_DIMS))
            elif k % 211 == 13:
                frame = mg.gen_frame(rng, n=rng.randint(1024, 1100), ncols=rng.choice([1, 2, 3]), focus=focus, level=lvl)
            else:
                frame = mg.gen_frame(rng, focus=focus, level=lvl)
            if frame['n'] > 16 and rng.random() < 0.5:
                labels = mg.gen_labels(rng, frame['n'], rng.choice(['perm', 'dup', 'bigint', 'str', 'spread']))
            elif rng.random() < 0.3:
                labels = mg.gen_labels(rng, frame['n'])
            else:
                labels = mg.gen_labels(rng, frame['n'], 'range')
            yield {'frame': frame, 'labels': labels}

    # ------------------------------------------------------------------ real side
    def real(self, case):
        frame = case['frame']
        st, ds, stubs = materialize_real(frame, case.get('labels'))
        side = {'cats': {}}
        self._side[id(case)] = side
        if st == 'raises':
            side['error'] = ds
            return 'raises'
        out = outcome_of(ds, frame)
        side.update(cats={c: s['cats'] for c, s in out['ok']['stats'].items()}, stubs=stubs)
        if frame.get('again'):
            # history: a second materialize() on the same dataset must leave the frame as it was
            try:
                ds.materialize()
                side['again'] = None if mg.canon_tf(ds.tensor_frame) == out['ok']['tf'] else 'the TensorFrame changed'
            except Exception as e:   # noqa
                side['again'] = f'raises {type(e).__name__}: {str(e)[:120]}'
        if frame.get('twin'):
            # aliasing: the input DataFrame compared with an identically built twin afterwards
            try:
                side['twin'] = mg.frames_identical(ds.df, mg.render(frame, case.get('labels')))
            except Exception as e:   # noqa
                side['twin'] = f'comparison raises {type(e).__name__}: {str(e)[:120]}'
        if frame.get('scribble'):
            # aliasing: an in-place write into the returned tensors must stay in those tensors - the DataFrame equals an
            # untouched twin, the statistics are unchanged, converting the dataset's own frame still gives the encoding
            try:
                stats0 = mg.canon_stats_full(ds.col_stats)
                mg.scribble(ds.tensor_frame, frame['scribble'])
                bad = mg.frames_identical(ds.df, mg.render(frame, case.get('labels')))
                if bad:
                    side['scribble'] = f'the DataFrame differs from an untouched twin: {bad}'
                elif mg.canon_stats_full(ds.col_stats) != stats0:
                    side['scribble'] = 'dataset.col_stats changed'
                else:
                    v = check_cells(frame, mg.canon_tf(ds.convert_to_tensor_frame(ds.df)), out['ok']['stats'],
                                    'convert(dataset.df) after the write', fitted=True)
                    if v:
                        side['scribble'] = v[1]
            except Exception as e:   # noqa
                side['scribble'] = f'observation raises {type(e).__name__}: {str(e)[:120]}'
        if not mg.model_feasible(frame):
            # too large for the list-based Lean model: judged by the plain-Python oracle right away, and only a digest
            # of the (large) outcome is kept
            side['verdict'] = self.judge(case, out)
            side['judged'] = True
            return {'ok': {'oracle-only': core.stable_hash(out), 'numRows': out['ok']['tf']['numRows']}}
        return out

    # ------------------------------------------------------------------ model side
    def model_requests(self, case):
        if not mg.model_feasible(case['frame']):
            return []
        side = self._side.get(id(case), {'cats': {}})
        req = {'cmd': 'mat', 'variants': []}
        req.update(mg.model_frame(case['frame'], side['cats'], case.get('labels')))
        req['labels'] = [mg.model_label(v) for v in req['labels']]
        return [req]

    def model_outcome(self, case, replies):
        if not mg.model_feasible(case['frame']):
            return self.skip_model()
        return model_view(replies[0][0], case['frame'])

    # ------------------------------------------------------------------ oracle
    def oracle(self, case, real_outcome):
        side = self._side.get(id(case), {})
        if side.get('judged'):
            return side['verdict']
        return self.judge(case, real_outcome)

    def judge(self, case, real_outcome):
        frame = case['frame']
        side = self._side.get(id(case), {})
        if real_outcome == 'raises':
            err = side.get('error', '')
            return core.Violation('materialize-raises', f'materialize() raised on an in-domain frame: {err}', case,
                                  'a TensorFrame', err)
        o = real_outcome['ok']
        v = check_cells(frame, o['tf'], o['stats'], 'materialize')
        if v:
            return core.Violation(v[0], v[1], case, v[2], v[3])
        # the embedder must have been called on exactly the column's strings, in row order
        stubs = side.get('stubs') or {}
        for col in frame['cols']:
            if col['name'] in stubs:
                want = [mg.text_input(col, c) for c in col['cells']]
                got = [s for call in stubs[col['name']].calls for s in call]
                if got[:len(want)] != want:
                    return core.Violation('embedder-input', f'embedder of {col["name"]!r} did not receive str(cell) row by row',
                                          case, want[:50], got[:50])
        if side.get('again'):
            return core.Violation('history/materialize-twice', f'a second materialize() on the same dataset: {side["again"]}',
                                  case, 'the same TensorFrame', side['again'])
        if side.get('scribble'):
            return core.Violation('alias/write-into-materialized-frame-leaks', 'after an in-place write into the tensors of '
                                  f'dataset.tensor_frame: {side["scribble"]}', case, 'DataFrame, statistics and later conversions '
                                  'unaffected', side['scribble'])
        if side.get('twin'):
            return core.Violation('alias/input-frame-modified', f'materialize() modified the DataFrame it was given: {side["twin"]}',
                                  case, 'an unchanged DataFrame', side['twin'])
        return None

    def nontrivial_key(self, case, real_outcome):
        if real_outcome == 'raises':
            return None
        if all(c is None for col in case['frame']['cols'] for c in col['cells']):
            return None
        return core.stable_hash(case['frame'])

    def classify(self, case, real_outcome):
        frame = case['frame']
        labs = [f"rows:{frame['n']}" if frame['n'] <= 12 else 'rows:13+', f"cols:{len(frame['cols'])}" if len(frame['cols']) <= 9 else 'cols:10+',
                f"labels:{case['labels']['kind']}", 'outcome:' + ('raises' if real_outcome == 'raises' else 'ok')]
        labs += frame_labels(frame)
        if real_outcome != 'raises' and 'oracle-only' in real_outcome['ok']:
            labs.append('judged:oracle-only(too large for the Lean model)')
        return sorted(set(labs))

    # ------------------------------------------------------------------ extra checks
    def extra_checks(self, rng, tier, report):
        self.calendar_sweep(rng, tier, report)
        self.pipeline_labels(rng, tier, report)
        try:
            report['extra']['observed_outside_generated_domain'] = mg.probe_outside_domain()
        except Exception as e:   # noqa
            report['extra']['observed_outside_generated_domain'] = [f'probe failed: {type(e).__name__}: {e}']

    def calendar_sweep(self, rng, tier, report):
        """Lean calendar vs Python datetime on epoch seconds 0001-2400 (boundaries of every year + random)"""
        import datetime
        secs = []
        for y in range(1600, 2401, 1 if tier == 'thorough' else 7):
            for (mo, d) in ((1, 1), (2, 28), (3, 1), (12, 31)):
                base = mg.epoch_of(y, mo, d)
                secs += [base, base - 1, base + 86399, base + 86400]
        lo, hi = mg.epoch_of(2, 1, 1), mg.epoch_of(2400, 1, 1)
        secs += [rng.randint(lo, hi) for _ in range(20000 if tier == 'thorough' else 3000)]
        try:
            rep = core.Driver(self.driver).ask([{'cmd': 'calendar', 'secs': secs}])[0]
        except Exception as e:   # noqa
            report['broken'].append(f'calendar sweep: driver unavailable ({e})')
            return
        bad = [(s, r, mg.components_of(s)) for s, r in zip(secs, rep) if r != mg.components_of(s)]
        report['extra']['calendar_sweep'] = {'epoch_seconds': len(secs), 'range': '0002-01-01 .. 2400-01-01',
                                             'disagreements_with_datetime': len(bad)}
        if bad:
            report['broken'].append(f'calendar model differs from datetime at epoch second {bad[0][0]}: '
                                    f'model {bad[0][1]} datetime {bad[0][2]}')

    def pipeline_labels(self, rng, tier, report):
        """the multicategorical mapper alone under every labelling: real mapper vs Lean pipeline, and the
        label-consulting variant of the model must be the one that breaks on duplicate labels"""
        import pandas as pd
        from torch_frame.data.mapper import MultiCategoricalTensorMapper
        reqs, reals, metas = [], [], []
        for _ in range(300 if tier == 'thorough' else 60):
            n = rng.randint(1, 7)
            col = mg.gen_col(rng, 'm', 'multicategorical', n)
            cnt = mg.observed_values(col)
            cats = sorted(cnt, key=lambda k: (-cnt[k], k))
            if rng.random() < 0.3 and cats:
                cats = cats[:-1]                       # an unseen token
            labels = mg.gen_labels(rng, n, rng.choice(['range', 'dup', 'dupall', 'perm', 'str', 'offset']))
            vals, dt = mg.render_cells(col)
            ser = mg._series(vals, dt, index=pd.Index(labels['values']))
            try:
                m = MultiCategoricalTensorMapper(cats, sep=col['r']['sep']).forward(ser)
                off = [int(x) for x in m.offset.tolist()]
                v = [int(x) for x in m.values.tolist()]
                real = [sorted(v[a:b]) for a, b in zip(off, off[1:])]
            except Exception as e:   # noqa
                real = f'raises {type(e).__name__}'
            exp = [mg.expected_cell(col, c, cats) for c in col['cells']]
            if real != exp:
                report['violations'].append(core.Violation(
                    'multicat-mapper/positional', f'MultiCategoricalTensorMapper.forward under labels {labels["values"]} '
                    f'is not the per-row token-index sets', {'col': col, 'cats': cats, 'labels': labels}, exp, real))
            reqs.append({'cmd': 'pipeline', 'labels': [mg.model_label(x) for x in labels['values']], 'cats': cats,
                         'cells': [mg.model_cell(col, c) for c in col['cells']]})
            reals.append(exp)
            metas.append(labels)
        try:
            reps = core.Driver(self.driver).ask(reqs)
        except Exception as e:   # noqa
            report['broken'].append(f'pipeline check: driver unavailable ({e})')
            return
        bad = lab_broken = 0
        for rep, exp, labels in zip(reps, reals, metas):
            f = rep['fixed']
            off = f['offset']
            got = [sorted(f['values'][a:b]) for a, b in zip(off, off[1:])] if f['valid'] else 'invalid'
            if got != exp:
                bad += 1
                report['broken'].append(f'multicat pipeline model differs from the per-row sets under labels {labels["values"]}')
            lb = rep['labelled']
            offl = lb['offset']
            gotl = [sorted(lb['values'][a:b]) for a, b in zip(offl, offl[1:])] if lb['valid'] else 'invalid'
            if gotl != exp:
                lab_broken += 1
        report['extra']['multicat_pipeline'] = {'cases': len(reqs), 'model_disagreements': bad,
                                                'label_consulting_variant_wrong_on': lab_broken}


CHECK = C01()

"""C08 - TensorFrame concatenation, equality, column lookup and validation laws."""
import copy

import torch_frame

from harness import core, frame, ragged, stress


# ------------------------------------------------------------------ case construction
def _reorder(rng, spec):
    """the same frame with other dict insertion orders (must not matter to == and cat)"""
    s = copy.deepcopy(spec)
    rng.shuffle(s['feats'])
    rng.shuffle(s['names_order'])
    for ft in s['feats']:
        if ft['kind'] == 'dict':
            rng.shuffle(ft['keys'])       # dict[str, MultiNestedTensor] built in another key order
    return s


def _entries(spec):
    """all (feature index, key, r, c, k) positions holding a value"""
    out = []
    for fi, ft in enumerate(spec['feats']):
        tabs = ft['cells'].items() if ft['kind'] == 'dict' else [(None, ft['cells'])]
        for key, rows in tabs:
            for r, row in enumerate(rows):
                for c, cell in enumerate(row):
                    for k in range(len(cell)):
                        out.append((fi, key, r, c, k))
    return out


def _cellref(spec, pos):
    fi, key, r, c, k = pos
    ft = spec['feats'][fi]
    rows = ft['cells'][key] if key is not None else ft['cells']
    return ft, rows[r][c], k


def perturb(rng, spec):
    """(spec_b, expected equality or None if outside the property's quantifier, label)"""
    b = copy.deepcopy(spec)
    opts = ['none', 'reorder', 'cell-big', 'cell-big', 'cell-big', 'cell-tiny', 'cell-nan', 'name', 'name-swap',
            'y-big', 'y-tiny', 'y-presence', 'ragged-shape', 'rows', 'drop-stype', 'y-nan']
    for _ in range(20):
        kind = rng.choice(opts)
        ents = _entries(b)
        if kind == 'none':
            return b, True, kind
        if kind == 'reorder':
            return _reorder(rng, b), True, kind
        if kind in ('cell-big', 'cell-tiny', 'cell-nan') and ents:
            pos = rng.choice(ents)
            ft, cell, k = _cellref(b, pos)
            v = cell[k]
            isf = frame.is_float(ft['payload'])
            if kind == 'cell-big':
                if (isf and v == -1) or v < -1:
                    # a missing / special entry (inf, -inf, -2^31, 3e38, -1.0; integers -2, -7) becomes a plain value
                    cell[k] = rng.randint(0, 9)
                else:
                    cell[k] = v + rng.choice([1, 2, -1]) if v + 1 <= 9 else v - 1
                    if isf and cell[k] == -1:
                        cell[k] = v + 1
                if cell[k] == v:
                    continue
                return b, False, f"{kind}:{ft['kind']}"
            if kind == 'cell-tiny':
                if not isf or v < 0:
                    continue
                cell[k] = v + frame.TINY
                return b, True, f"{kind}:{ft['kind']}"
            if not isf or v == -1:
                continue
            cell[k] = -1
            return b, False, f"{kind}:{ft['kind']}"
        if kind == 'name' and b['feats']:
            ft = rng.choice(b['feats'])
            j = rng.randrange(ft['C'])
            ft['names'][j] = ft['names'][j] + '_x'
            return b, False, kind
        if kind == 'name-swap':
            c = [ft for ft in b['feats'] if ft['C'] >= 2]
            if not c:
                continue
            ft = rng.choice(c)
            ft['names'][0], ft['names'][1] = ft['names'][1], ft['names'][0]
            return b, False, kind
        if kind in ('y-big', 'y-tiny', 'y-nan') and b['y'] is not None and b['y']['vals']:
            y = b['y']
            j = rng.randrange(len(y['vals']))
            if kind == 'y-big':
                y['vals'][j] += 1
                return b, False, kind
            if y['payload'] != 'float':
                continue
            if kind == 'y-tiny':
                y['vals'][j] += frame.TINY
                return b, True, kind
            # a missing target value in both operands: outside the property (targets without missing values)
            y['vals'][j] = -1
            return b, None, kind
        if kind == 'y-presence':
            if b['y'] is None:
                b['y'] = {'payload': 'int', 'vals': [0] * b['R']}
            else:
                b['y'] = None
            return b, False, kind
        if kind == 'ragged-shape':
            c = [ft for ft in b['feats'] if ft['kind'] in ('mnt', 'dict', 'met')]
            if not c:
                continue
            ft = rng.choice(c)
            if ft['kind'] == 'met':
                # same storage width, other column boundaries
                ws = ft['widths']
                js = [j for j in range(len(ws) - 1) if ws[j] >= 1]
                if not js:
                    continue
                j = rng.choice(js)
                ws[j] -= 1
                ws[j + 1] += 1
                for row in ft['cells']:
                    row[j + 1].insert(0, row[j].pop())
                return b, False, f'{kind}:met'
            rows = ft['cells'][rng.choice(ft['keys'])] if ft['kind'] == 'dict' else ft['cells']
            flat = [cell for row in rows for cell in row]
            js = [j for j in range(len(flat) - 1) if flat[j]]
            if not js:
                continue
            j = rng.choice(js)
            flat[j + 1].insert(0, flat[j].pop())        # same values, other offsets
            return b, False, f"{kind}:{ft['kind']}"
        if kind == 'rows' and b['R'] >= 1:
            for ft in b['feats']:
                if ft['kind'] == 'dict':
                    for k2 in ft['keys']:
                        ft['cells'][k2].pop()
                else:
                    ft['cells'].pop()
            if b['y'] is not None:
                b['y']['vals'].pop()
            b['R'] -= 1
            if b['num_rows'] is not None:
                b['num_rows'] -= 1
            return b, False, kind
        if kind == 'drop-stype' and len(b['feats']) >= 2:
            ft = b['feats'].pop(rng.randrange(len(b['feats'])))
            b['names_order'].remove(ft['s'])
            return b, False, kind
    return b, True, 'none'


def break_frame(rng, spec):
    """an inconsistent constructor call derived from a well-formed spec; returns (spec, label) or (None, None)"""
    b = copy.deepcopy(spec)
    for _ in range(20):
        kind = rng.choice(['rows', 'rows', 'ncols', 'ncols', 'y-len', 'keys-extra', 'keys-missing', 'empty-stype',
                           'flat', 'num-rows', 'dict-entry', 'dict-entry', 'dict-entry'])
        if kind == 'dict-entry':
            return break_dict_entry(rng, b)
        if kind == 'rows' and b['feats'] and b['R'] >= 1 and (len(b['feats']) >= 2 or b['num_rows'] is not None
                                                              or b['y'] is not None
                                                              or any(f['kind'] == 'dict' for f in b['feats'])):
            cand = list(range(len(b['feats'])))
            if b['num_rows'] is None and b['y'] is None and not any(f['kind'] == 'dict' for f in b['feats']):
                cand = cand[1:]      # the first feature defines num_rows
            ft = b['feats'][rng.choice(cand)]
            if ft['kind'] == 'dict':
                if ft is b['feats'][0] and b['num_rows'] is None and b['y'] is None and len(b['feats']) == 1:
                    ft['cells'][ft['keys'][1]].pop()
                else:
                    ft['cells'][rng.choice(ft['keys'])].pop()
            else:
                ft['cells'].pop()
            return b, kind
        if kind == 'ncols' and b['feats']:
            ft = rng.choice(b['feats'])
            if rng.random() < .5 and len(ft['names']) >= 2:
                ft['names'].pop()
            else:
                ft['names'].append(ft['names'][0] + '_more')
            return b, kind
        if kind == 'y-len' and b['y'] is not None:
            if frame.ragged_y(b):
                rows = b['y']['cells']
                if rng.random() < .5 and rows:
                    rows.pop()
                else:
                    rows.append([[1] for _ in range(b['y']['C'])])
                return b, kind + ':ragged-target'
            if rng.random() < .5 and b['y']['vals']:
                b['y']['vals'].pop()
            else:
                b['y']['vals'].append(1)
            return b, kind
        if kind == 'keys-extra':
            free = [s for s in frame.STYPES if s not in b['names_order']]
            if not free:
                continue
            s = rng.choice(free)
            b['names_order'].append(s)
            b.setdefault('extra_names', {})[s] = ['ghost']
            return b, kind
        if kind == 'keys-missing' and b['feats']:
            b['names_order'].remove(rng.choice(b['names_order']))
            return b, kind
        if kind == 'empty-stype' and b['feats']:
            ft = rng.choice(b['feats'])
            sub = frame.col_sub(ft, 0, 0)
            ft.clear()
            ft.update(sub)
            return b, kind
        if kind == 'flat' and b['feats']:
            c = [ft for ft in b['feats'] if ft['kind'] == 'dense']
            if not c:
                continue
            ft = rng.choice(c)
            ft['kind'] = 'flat'
            ft['cells'] = [row[0][0] for row in ft['cells']]
            ft['C'] = 1
            ft['names'] = ft['names'][:1]
            return b, kind
        if kind == 'num-rows' and (b['feats'] or b['y'] is not None):
            nr = b['R'] + rng.choice([1, -1, 2])
            if nr < 0:
                continue
            b['num_rows'] = nr
            return b, kind
    return None, None


def break_dict_entry(rng, b):
    """ONE entry of a dict-valued feature disagrees with the rest of the frame on its number of rows or columns: the
    entry at any position of its dict (2 or 3 keys), the dict-valued stype at any position of feat_dict, one row /
    column more or less"""
    c = [ft for ft in b['feats'] if ft['kind'] == 'dict']
    if not c:
        if any(ft['s'] == 'text_tokenized' for ft in b['feats']):
            return None, None
        ft = frame.gen_feat(rng, 'text_tokenized', b['R'], '')
        b['feats'].append(ft)
        b['names_order'].append('text_tokenized')
    else:
        ft = rng.choice(c)
    ft['cells'] = dict(ft['cells'])
    ft['keys'] = list(ft['keys'])
    if rng.random() < .5:
        # a third tokenizer field, anywhere in the dict
        ft['keys'].insert(rng.randint(0, len(ft['keys'])), 'token_type_ids')
        ft['cells']['token_type_ids'] = [[[0 for _ in cell] for cell in row] for row in ft['cells']['input_ids']]
    b['feats'].remove(ft)
    pos = rng.choice([0, len(b['feats']), rng.randint(0, len(b['feats']))])
    b['feats'].insert(pos, ft)
    kpos = rng.randrange(len(ft['keys']))
    key = ft['keys'][kpos]
    rows = ft['cells'][key] = [[list(cell) for cell in row] for row in ft['cells'][key]]
    what = rng.choice(['row-less', 'row-more', 'col-less', 'col-more'])
    if what == 'row-less' and not rows:
        what = 'row-more'
    if what == 'col-less' and ft['C'] == 0:
        what = 'col-more'
    if what == 'row-less':
        rows.pop(rng.randrange(len(rows)))
    elif what == 'row-more':
        rows.insert(rng.randint(0, len(rows)), [[1] for _ in range(ft['C'])])
    elif what == 'col-less':
        for row in rows:
            row.pop()
        ft.setdefault('Ck', {})[key] = ft['C'] - 1
    else:
        for row in rows:
            row.append([1])
        ft.setdefault('Ck', {})[key] = ft['C'] + 1
    where = 'first' if pos == 0 else 'last' if pos == len(b['feats']) - 1 else 'middle'
    kwhere = 'first' if kpos == 0 else 'last' if kpos == len(ft['keys']) - 1 else 'middle'
    if len(b['feats']) == 1:
        where = 'only'
    return b, f"dict-entry:{what.split('-')[0]}:{kwhere}-key-of-{len(ft['keys'])}:{where}-stype"


def gen_derive(rng, spec):
    """frames derived the way every transform derives its output - copy.copy(frame) followed by replacing entries of
    the copy's feat_dict - or by replacing entries of the frame itself; column lookups on BOTH objects, before and
    after the derivation, in any order"""
    names = frame.all_names(spec)
    same = rng.random() < .2                         # replacement on the frame itself (B is A)

    def repl():
        out = {}
        for ft in spec['feats']:
            if rng.random() < .6:
                new = frame.gen_feat(rng, ft['s'], spec['R'], '', 'full', C=ft['C'])
                new['names'] = list(ft['names'])
                out[ft['s']] = new
        return out
    replB, replA = repl(), (repl() if rng.random() < .3 or same else {})
    if not replA and not replB:
        ft = rng.choice(spec['feats'])
        replB = {ft['s']: dict(frame.gen_feat(rng, ft['s'], spec['R'], '', 'full', C=ft['C']), names=list(ft['names']))}
        if same:
            replA = replB
    steps = []
    n = rng.randint(2, 6)
    derive_at = rng.choice([0, 1, 1, 2, rng.randint(0, n - 1)])
    derive_at = min(derive_at, n - 1)
    hot = rng.choice(names)                          # a name that is looked up on both objects
    for i in range(n):
        who = 'A' if i < derive_at else rng.choice(['A', 'B', 'B'])
        nm = hot if rng.random() < .6 else rng.choice(names + ['no_such_col'])
        steps.append({'who': who, 'name': nm})
    return {'kind': 'derive', 'frame': spec, 'same': same, 'replA': replA, 'replB': replB, 'steps': steps,
            'derive_at': derive_at}


def derive_specs(case):
    """the frame specs (A before, A after, B after) of a derive case"""
    def apply(spec, repl):
        out = dict(spec)
        out['feats'] = [repl.get(ft['s'], ft) for ft in spec['feats']]
        return out
    a0 = case['frame']
    a1 = apply(a0, case['replA'])
    b1 = a1 if case['same'] else apply(a0, case['replB'])
    return a0, a1, b1


def derive_groups(case):
    """[(frame spec, [step indices])] - the lookups grouped by the object state they address (one model request each)"""
    a0, a1, b1 = derive_specs(case)
    k = case['derive_at']
    groups = [(a0, [i for i, st in enumerate(case['steps']) if i < k]),
              (a1, [i for i, st in enumerate(case['steps']) if i >= k and st['who'] == 'A']),
              (b1, [i for i, st in enumerate(case['steps']) if i >= k and st['who'] == 'B'])]
    return [g for g in groups if g[1]]


def col_partition(rng, spec, k):
    """split every stype's columns into k consecutive (possibly empty) segments -> k part specs"""
    R = spec['R']
    parts = [{'R': R, 'feats': [], 'names_order': [], 'y': None, 'num_rows': None} for _ in range(k)]
    for ft in spec['feats']:
        cuts = sorted(rng.randint(0, ft['C']) for _ in range(k - 1))
        pts = [0] + cuts + [ft['C']]
        for p, (a, b) in zip(parts, zip(pts, pts[1:])):
            if b > a:
                p['feats'].append(frame.col_sub(ft, a, b))
    ypart = rng.randrange(k)
    for j, p in enumerate(parts):
        for ft in p['feats']:
            if ft['kind'] == 'dict' and rng.random() < .4:
                rng.shuffle(ft['keys'])            # this part's dict is built in another key order
        if rng.random() < .5:
            rng.shuffle(p['feats'])
        p['names_order'] = [ft['s'] for ft in p['feats']]
        if rng.random() < .3:
            rng.shuffle(p['names_order'])
        if spec['y'] is not None and j == ypart:
            p['y'] = copy.deepcopy(spec['y'])
        if not p['feats'] or rng.random() < .2:
            p['num_rows'] = R
    return parts


class C08(frame.Findings, core.Check):
    pid = 'C08'
    title = 'TensorFrame concatenation, equality and column lookup laws'
    driver = 'drv_c07'
    quick_cases = 4000
    thorough_cases = 30000
    rule = ('derived frames (7%): copy.copy(frame) followed by replacing entries of the copy\'s feat_dict (what every '
            'transform does), replacement on both objects, replacement on the frame itself; get_col_feat on BOTH objects '
            'before and after the derivation, in either order, the same name repeatedly - every lookup must return the '
            'data of the object it is asked on; constructor calls in which ONE entry of a dict-valued feature (first / '
            'middle / last of 2-3 keys) of a dict-valued stype at any position of feat_dict (first / middle / last / only) '
            'has one row or one column more or less than the rest; constructor and lookup cases also with a ragged '
            '(MultiNestedTensor) target and materialized datasets with a sequence_numerical target (direct oracle only); '
            'hardening families: special values (+-inf, -2^31, 3e38, -1.0; moving data also -0.0, 2^24+2, 2^40) and float64 '
            'features; dict features / parts built in different key insertion orders; re-use: the same cat issued twice on '
            'the same part objects, the first result read again, every operand compared with an identically built twin '
            'afterwards; scale (60 / 120 / 300 cases at stress level 0 / 1 / 2): == on frames with 17..259 / 4 099 rows, '
            'many columns (<= 1 027) or long cells (equal twins and single-cell / name / target perturbations), row '
            'partitions into up to 259 / 1 027 parts, column partitions of frames with many columns into up to 33 parts, '
            'lookups of many names; base: frames of C07; row partitions by 0-4 cut points (empty parts allowed, optionally of a frame that is itself '
            'the result of a selection chain), concatenations of arbitrary selection results, per-stype column '
            'partitions into 1-3 parts (optionally followed by a common row selection), ~20% with a schema / name / '
            'target / shape mutation that must be rejected or with a benign dict-order change; == under single cell '
            '(above tolerance, float32 successor, NaN), name, target, ragged-shape, row-count and stype-set perturbations '
            'in every stype; constructor calls with disagreeing rows / columns / keys / target length; get_col_feat for '
            'every column of materialized datasets; non-trivial = the frames involved have >=1 row and >=1 feature; '
            'distinct = distinct case hash')
    partial_notes = (
        'the theorems are proved for every storage kind satisfying FeatSpec (refinement of the Python-list operations); '
        'Dense is proved to satisfy it; for MultiNestedTensor/MultiEmbeddingTensor/dict it is the content of the C05/C06 '
        'refinement theorems and is tied here by the correspondence on the concrete dispatch',
        'torch.allclose constants (rtol 1e-5, atol 1e-8) appear only in the driver; eq_iff / single_cell_detected are generic in the close relation',
        'cat / == do not modify their operands: checked on the real objects (snapshot before/after)',
        'operands of == have equal dtypes and targets without missing values (the quantifier of the property)',
        'a column name repeated under two different stypes is accepted by cat(dim=1) (the duplicate check is per stype): '
        'compared model-vs-code only, not judged by the oracle',
    )

    # -- generation ---------------------------------------------------------------------------------
    N_SCALE = {0: 60, 1: 120, 2: 300}
    N_HUGE = {0: 0, 1: 0, 2: 3}      # 16 385 .. 65 539 rows: judged by the direct oracle only

    def generate(self, rng, n, tier):
        n_mat = max(8, n // 60)
        n_scale = min(self.N_SCALE[self.level], n // 2)
        for i in range(n):
            if i < n_mat:
                d = frame.gen_dataset(rng, seq_target=True)
                ops = frame.gen_sel_ops(rng, d['n'], 2) if rng.random() < .5 else []
                case = {'kind': 'lookup_mat', 'dataset': d, 'ops': ops}
                if frame.dataset_ragged_target(d):
                    case['oracle_only'] = True       # materialize() makes a ragged target: not expressible in the model
                yield case
                continue
            if i < n_mat + self.N_HUGE[self.level]:
                R = rng.choice(stress.LADDER_BIG) + rng.choice([0, 1, 2])
                if rng.random() < .5:
                    spec = frame.gen_frame_scaled(rng, self.level, 'rows', R=R, pool='safe')
                    b, expect, label = perturb(rng, spec)
                    yield {'kind': 'eq', 'a': spec, 'b': b, 'expect': expect, 'label': label, 'scaled': 'huge',
                           'oracle_only': True}
                else:
                    case = self.gen_rowcat(rng, frame.gen_frame_scaled(rng, self.level, 'rows', R=R, pool='full'), big=True)
                    case.update(scaled='huge', oracle_only=True)
                    yield case
                continue
            if i < n_mat + n_scale:
                yield self.gen_scaled(rng)
                continue
            u = rng.random()
            if u < .3:
                yield self.gen_rowcat(rng)
            elif u < .55:
                yield self.gen_colcat(rng)
            elif u < .80:
                spec = frame.gen_frame(rng, pool='safe')
                b, expect, label = perturb(rng, spec)
                yield {'kind': 'eq', 'a': spec, 'b': b, 'expect': expect, 'label': label}
            elif u < .87:
                yield gen_derive(rng, frame.gen_frame(rng, min_feats=1, pool='full'))
            elif u < .96:
                # targets of every legal kind (a ragged target is a part whose rows must agree like any other)
                spec = frame.gen_frame(rng, pool='full', ragged_y=True)
                if rng.random() < .25:
                    yield self.flag({'kind': 'make', 'frame': spec, 'expect': 'ok', 'label': 'consistent'})
                else:
                    b, label = break_frame(rng, spec)
                    if b is None:
                        yield self.flag({'kind': 'make', 'frame': spec, 'expect': 'ok', 'label': 'consistent'})
                    else:
                        yield self.flag({'kind': 'make', 'frame': b, 'expect': 'raises', 'label': label})
            else:
                spec = frame.gen_frame(rng, min_feats=1, pool='full', ragged_y=True)
                ops = frame.gen_sel_ops(rng, spec['R'], 2) if rng.random() < .5 else []
                names = frame.all_names(spec) + ['no_such_col']
                yield self.flag({'kind': 'lookup', 'frame': spec, 'ops': ops + [{'op': 'col', 'name': nm} for nm in names]})

    @staticmethod
    def flag(case):
        if not frame.model_expressible(case['frame']):
            case['oracle_only'] = True        # ragged target: the model's target is a 1-D tensor
            if case['kind'] == 'make':
                case['label'] += ':ragged-target' if 'ragged-target' not in case['label'] else ''
        return case

    def gen_scaled(self, rng):
        """the scale family: == on frames with 17..4 099 rows / many columns / long cells (equal twins, single-cell and
        name perturbations), row partitions into many parts, column partitions of frames with many columns, lookups of
        many names"""
        lv = self.level
        u = rng.random()
        if u < .4:
            spec = frame.gen_frame_scaled(rng, lv, rng.choice(['rows', 'rows', 'rows', 'longcells', 'cols']), pool='safe')
            b, expect, label = perturb(rng, spec)
            return {'kind': 'eq', 'a': spec, 'b': b, 'expect': expect, 'label': label, 'scaled': spec['scaled']}
        if u < .75:
            spec = frame.gen_frame_scaled(rng, lv, rng.choice(['rows', 'rows', 'heavy', 'longcells']), pool='full')
            case = self.gen_rowcat(rng, spec, big=True)
        elif u < .9:
            spec = frame.gen_frame_scaled(rng, lv, rng.choice(['cols', 'cols', 'rows']), pool='full')
            case = self.gen_colcat(rng, spec, big=True)
        else:
            spec = frame.gen_frame_scaled(rng, lv, 'cols', pool='full')
            names = frame.all_names(spec)
            names = rng.sample(names, min(len(names), 40)) + ['no_such_col']
            case = {'kind': 'lookup', 'frame': spec, 'ops': [{'op': 'col', 'name': nm} for nm in names]}
        case['scaled'] = spec['scaled']
        return case

    def gen_rowcat(self, rng, spec=None, big=False):
        """a row concatenation case; a part cut from the very frame it is compared with carries the token 'whole'
        instead of a copy of that frame (keeps cases with hundreds of parts of a large frame small)"""
        case = self._gen_rowcat(rng, spec, big)
        for p in case['parts']:
            if p['frame'] is case['whole']['frame']:
                p['frame'] = 'whole'
        return case

    @staticmethod
    def parts_of(case):
        """the parts with the token 'whole' resolved (the frame object is shared, not copied)"""
        w = case['whole']['frame']
        return [{'frame': w if p['frame'] == 'whole' else p['frame'], 'ops': p['ops']} for p in case['parts']]

    def _gen_rowcat(self, rng, spec=None, big=False):
        spec = frame.gen_frame(rng, pool='full') if spec is None else spec
        pre = frame.gen_sel_ops(rng, spec['R'], 2) if rng.random() < .35 and not big else []
        many = big and rng.random() < .5          # number of parts from the ladder (then no common pre-selection)
        if big and not many and rng.random() < .5:
            weights = frame.row_weights(spec)
            for attempt in range(50):
                ix = ragged.gen_big_index(rng, spec['R'], self.level, allow_bad=False, max_len=spec['R'] + 2)
                if sum(ragged.py_select(weights, ix)) <= ragged.BUDGET[self.level]:
                    pre = [{'op': 'sel', 'ix': ix}]
                    break
        n = spec['R']
        for op in pre:
            n = ragged.py_len(op['ix'], n)
        mode = rng.choice(['partition'] * 6 + ['selections'] * 2 + ['mutated'] * 2)
        if big:
            mode = 'partition'
        case = {'kind': 'cat', 'dim': 0, 'mode': mode, 'whole': {'frame': spec, 'ops': pre}, 'expect': 'equal',
                'again': rng.random() < .4}
        if mode == 'selections':
            case['parts'] = [{'frame': spec, 'ops': frame.gen_sel_ops(rng, spec['R'], 2)} for _ in range(rng.randint(1, 3))]
            case['expect'] = 'content' if spec['feats'] else 'unjudged'
            return case
        k = rng.choice([1, 2, 2, 3, 3, 4, 5])
        if many:
            k = stress.pick_size(rng, self.level, 1027)          # number of parts from the ladder
        cuts = sorted(rng.randint(0, n) for _ in range(k - 1))
        parts = [{'frame': spec, 'ops': pre + [{'op': 'sel', 'ix': ix}]} for ix in frame.slices_for_cuts(cuts, n, rng)]
        if not big and rng.random() < .25:
            # every part is built on its own, with its own dict insertion orders (must not matter)
            for p_ in parts:
                p_['frame'] = _reorder(rng, spec)
            if parts and 'names_order' in parts[0]['frame']:
                case['whole'] = {'frame': parts[0]['frame'], 'ops': pre}   # names / feature order of the first part
        case['parts'] = parts
        if not spec['feats']:
            # suspected defect (reported, not judged here): cat(dim=0) rebuilds the frame without num_rows, so a
            # feature-less frame comes back with 0 rows (or is rejected when it carries a target)
            case['mode'], case['expect'] = 'featureless', 'unjudged'
            return case
        if mode == 'mutated':
            mut = rng.choice(['empty-list', 'dim', 'reorder', 'rename', 'y-presence', 'drop-stype', 'ncols', 'met-width'])
            case['mut'] = mut
            j = rng.randrange(len(parts))
            b = copy.deepcopy(spec)
            case['expect'] = 'raises'
            if mut == 'empty-list':
                case['parts'] = []
            elif mut == 'dim':
                case['dim'] = rng.choice([2, -1, 3])
            elif mut == 'reorder':
                b = _reorder(rng, b)
                case['expect'] = 'equal'
            elif mut == 'rename' and b['feats']:
                ft = rng.choice(b['feats'])
                ft['names'][rng.randrange(ft['C'])] += '_x'
            elif mut == 'y-presence' and len(parts) >= 2:
                b['y'] = None if b['y'] is not None else {'payload': 'int', 'vals': [0] * b['R']}
            elif mut == 'drop-stype' and len(b['feats']) >= 2 and len(parts) >= 2:
                ft = b['feats'].pop(rng.randrange(len(b['feats'])))
                b['names_order'].remove(ft['s'])
            elif mut == 'ncols' and len(parts) >= 2 and any(ft['C'] >= 2 for ft in b['feats']):
                ft = rng.choice([ft for ft in b['feats'] if ft['C'] >= 2])
                sub = frame.col_sub(ft, 0, ft['C'] - 1)
                sub['names'] = ft['names']      # same names, one column of data less: only the data disagree
                ft.clear()
                ft.update(sub)
                case['expect'] = 'part-raises'  # such a part cannot even be constructed
            elif mut == 'met-width' and len(parts) >= 2 and any(ft['kind'] == 'met' for ft in b['feats']):
                ft = rng.choice([ft for ft in b['feats'] if ft['kind'] == 'met'])
                ft['widths'][0] += 1
                for row in ft['cells']:
                    row[0].append(3)
            else:
                case['mode'], case['expect'] = 'partition', 'equal'
                case.pop('mut')
                return case
            if mut not in ('empty-list', 'dim'):
                if len(parts) == 1 and mut in ('rename',):
                    case['expect'] = 'content-of-parts'   # a single part is its own schema
                parts[j]['frame'] = b
        return case

    def gen_colcat(self, rng, spec=None, big=False):
        spec = frame.gen_frame(rng, min_feats=1, pool='full') if spec is None else spec
        k = rng.choice([1, 2, 2, 3])
        if big and rng.random() < .5:
            k = rng.choice([5, 9, 17, 33])
        parts = col_partition(rng, spec, k)
        pre = frame.gen_sel_ops(rng, spec['R'], 2) if rng.random() < .3 else []
        case = {'kind': 'cat', 'dim': 1, 'mode': 'partition', 'whole': {'frame': spec, 'ops': pre}, 'expect': 'equal',
                'again': rng.random() < .4}
        if rng.random() < .25 and not big:
            mut = rng.choice(['dup-name', 'two-targets', 'rows', 'dict-keys', 'kind', 'depth', 'cross-stype-dup', 'empty-list'])
            ok = False
            if mut == 'empty-list':
                parts, ok = [], True
            elif mut == 'dup-name' and k >= 2:
                by = {}
                for pi, p in enumerate(parts):
                    for ft in p['feats']:
                        by.setdefault(ft['s'], []).append((pi, ft))
                c = [v for v in by.values() if len(v) >= 2]
                if c:
                    (_, f1), (_, f2) = rng.sample(rng.choice(c), 2)
                    f2['names'][rng.randrange(f2['C'])] = f1['names'][rng.randrange(f1['C'])]
                    ok = True
            elif mut == 'two-targets' and k >= 2 and spec['y'] is not None:
                for p in parts:
                    p['y'] = copy.deepcopy(spec['y'])
                ok = True
            elif mut == 'rows' and k >= 2 and spec['R'] >= 1 and sum(1 for p in parts if p['feats']) >= 2:
                p = rng.choice([p for p in parts if p['feats']])
                for ft in p['feats']:
                    tabs = ft['cells'].values() if ft['kind'] == 'dict' else [ft['cells']]
                    for t in tabs:
                        t.pop()
                p['R'] -= 1
                if p['y'] is not None:
                    p['y']['vals'].pop()
                if p['num_rows'] is not None:
                    p['num_rows'] -= 1
                pre.clear()          # a common row selection could hide the disagreement
                ok = True
            elif mut == 'dict-keys' and k >= 2:
                c = [(p, ft) for p in parts for ft in p['feats'] if ft['kind'] == 'dict']
                if len(c) >= 2:
                    p, ft = c[-1]
                    ft['keys'] = ft['keys'][:1]
                    ft['cells'] = {ft['keys'][0]: ft['cells'][ft['keys'][0]]}
                    ok = True
            elif mut == 'kind' and k >= 2:
                c = [(p, ft) for p in parts for ft in p['feats'] if ft['kind'] == 'mnt']
                by = {}
                for p, ft in c:
                    by.setdefault(ft['s'], []).append(ft)
                c = [v for v in by.values() if len(v) >= 2]
                if c:
                    ft = rng.choice(c)[-1]
                    ft['kind'], ft['D'] = 'dense', None
                    ft['cells'] = [[[1] for _ in row] for row in ft['cells']]
                    ok = True
            elif mut == 'depth' and k >= 2:
                by = {}
                for p in parts:
                    for ft in p['feats']:
                        if ft['kind'] == 'dense' and ft.get('D') is not None:
                            by.setdefault(ft['s'], []).append(ft)
                c = [v for v in by.values() if len(v) >= 2]
                if c:
                    ft = rng.choice(c)[-1]
                    ft['D'] += 1
                    for row in ft['cells']:
                        for cell in row:
                            cell.append(0)
                    ok = True
            elif mut == 'cross-stype-dup' and k >= 2:
                c = [(pi, ft) for pi, p in enumerate(parts) for ft in p['feats']]
                pairs = [(a, b) for a in c for b in c if a[0] != b[0] and a[1]['s'] != b[1]['s']]
                if pairs:
                    (_, f1), (_, f2) = rng.choice(pairs)
                    f2['names'][0] = f1['names'][0]
                    ok = True
            if ok:
                case['mut'] = mut
                case['mode'] = 'mutated'
                case['expect'] = 'raises' if mut != 'cross-stype-dup' else 'unjudged'
        case['parts'] = [{'frame': p, 'ops': list(pre)} for p in parts]
        return case

    # -- real side -----------------------------------------------------------------------------------
    def real(self, case):
        self._findings = []
        out = self._real(case)
        self.remember(case, self._findings)
        return out

    def _real(self, case):
        kind = case['kind']
        if kind == 'cat':
            return self.real_cat(case)
        if kind == 'eq':
            a, b = frame.build_real(case['a']), frame.build_real(case['b'])
            ra, rb = frame.frame_repr(a), frame.frame_repr(b)
            try:
                out = {'ab': bool(a == b), 'ba': bool(b == a)}
            except Exception:
                out = 'raises'
            if frame.frame_repr(a) != ra or frame.frame_repr(b) != rb:
                self._findings.append(('eq/mutates', '== modified an operand', None, None))
            exp = case['expect']
            if exp is not None and out != {'ab': exp, 'ba': exp}:
                self._findings.append((f"eq/{case['label'].split(':')[0]}",
                                       f"perturbation {case['label']}: frames must compare {'equal' if exp else 'unequal'}",
                                       exp, out))
            if not bool(a == a) and not self._has_nan_y(case['a']):
                self._findings.append(('eq/reflexive', 'a frame does not equal itself', True, False))
            return out
        if kind == 'make':
            try:
                out = {'ok': frame.frame_repr(frame.build_real(case['frame']))}
            except Exception:
                out = 'raises'
            if (out == 'raises') != (case['expect'] == 'raises'):
                self._findings.append((f"make/{':'.join(case['label'].split(':')[:2])}",
                                       f"constructor call ({case['label']}) must {'be rejected' if case['expect'] == 'raises' else 'succeed'}",
                                       case['expect'], out if out == 'raises' else 'ok'))
            return out
        if kind == 'derive':
            return self.real_derive(case)
        if kind == 'lookup':
            from harness.props import c07
            outs, findings = c07.run_real_program(case['frame'], case['ops'])
            self._findings += [(f'lookup/{w}', w, e, g) for _, w, e, g in findings]
            return outs
        # lookup on a materialized dataset
        dspec = case['dataset']
        tf = frame.build_dataset(dspec).materialize().tensor_frame
        rows = list(range(dspec['n']))
        for op in case['ops']:
            tf = frame.real_select(tf, op['ix'])
            rows = ragged.py_select(rows, op['ix'])
        outs = {'frame': frame.frame_repr(tf), 'cols': []}
        for c in dspec['cols']:
            if c['name'] == dspec['target']:
                continue
            try:
                feat, st = tf.get_col_feat(c['name'], return_stype=True)
                outs['cols'].append({'ok': {'stype': st.value, 'feat': frame.feat_repr(feat)}})
                exp = frame.dataset_expected_cells(dspec, c['name'])
                got = list(frame.cells_of_featdata(st.value, feat).values())[0]
                j = tf.col_names_dict[st].index(c['name'])
                direct = tf.feat_dict[st]
                direct = frame._cells_api(direct)
                if [[row[j]] for row in direct] != got:
                    self._findings.append(('lookup/materialized', f"get_col_feat({c['name']}) is not column {j} of its group", None, None))
                if exp is not None and got != [exp[r] for r in rows]:
                    self._findings.append(('lookup/materialized', f"get_col_feat({c['name']}) does not hold the table's column", None, None))
            except Exception as e:
                outs['cols'].append('raises')
                self._findings.append(('lookup/materialized', f"get_col_feat({c['name']}) raises {type(e).__name__} on a materialized frame", None, None))
        return outs

    def real_derive(self, case):
        from torch_frame import stype
        a0, a1, b1 = derive_specs(case)
        A = frame.build_real(a0)
        objs, refs = {'A': A}, {'A': frame.ref_of_spec(a0)}
        outs = []
        for i, st in enumerate(case['steps']):
            if i == case['derive_at']:
                B = A if case['same'] else copy.copy(A)
                for s, ft in case['replA'].items():
                    A.feat_dict[stype(s)] = frame.feat_real(ft)
                if not case['same']:
                    for s, ft in case['replB'].items():
                        B.feat_dict[stype(s)] = frame.feat_real(ft)
                objs['B'] = B
                refs = {'A': frame.ref_of_spec(a1), 'B': frame.ref_of_spec(b1)}
            tf, ref = objs[st['who']], refs[st['who']]
            try:
                feat, sty = tf.get_col_feat(st['name'], return_stype=True)
                out = {'ok': {'stype': sty.value, 'feat': frame.feat_repr(feat)}}
                got = (sty.value, frame.cells_of_featdata(sty.value, feat))
            except Exception:
                out, got = 'raises', None
            outs.append(out)
            es, ecol = frame.ref_column(ref, st['name'])
            where = 'before the derivation' if i < case['derive_at'] else \
                ('on the frame whose feat_dict entry was replaced' if case['same'] else
                 'on the copy.copy-derived frame' if st['who'] == 'B' else 'on the source of a copy.copy-derived frame')
            key = 'derive/lookup/' + ('before' if i < case['derive_at'] else 'replaced-on-the-frame-itself' if case['same']
                                      else 'copy' if st['who'] == 'B' else 'source-of-the-copy')
            if (es is None) != (got is None):
                self._findings.append((key, f"get_col_feat({st['name']}) {where}: " + (
                    'raises for an existing column' if got is None else 'returns data for an unknown column'), es, out))
            elif got is not None and (got[0] != es or got[1] != ecol):
                self._findings.append((key, f"get_col_feat({st['name']}) {where} does not return that "
                                       f"frame's column data (step {i} of {case['steps']})", None, None))
        return outs

    @staticmethod
    def _has_nan_y(spec):
        return spec['y'] is not None and spec['y']['payload'] == 'float' and -1 in spec['y']['vals']

    def real_cat(self, case):
        def builder():
            """parts that are cut from the same frame spec are cut from ONE real frame (as a caller partitioning a
            frame does); a spec is built once per builder"""
            memo = []
            def build(spec):
                for sp, tf in memo:
                    if sp is spec or sp == spec:
                        return tf
                memo.append((spec, frame.build_real(spec)))
                return memo[-1][1]
            return build
        try:
            build = builder()
            cparts = self.parts_of(case)
            bases = [build(p['frame']) for p in cparts]
            parts = [frame.run_part(b, p['ops']) for b, p in zip(bases, cparts)]
        except Exception:
            if case['expect'] not in ('part-raises',):
                self._findings.append(('cat/part', 'a part of the partition cannot be built', None, None))
            return 'part-raises'
        if case['expect'] == 'part-raises':
            self._findings.append(('cat/part', 'an inconsistent part was accepted by the constructor', None, None))
        before = [frame.frame_repr(p) for p in parts]
        whole = frame.run_part(frame.build_real(case['whole']['frame']), case['whole']['ops'])
        try:
            g = torch_frame.cat(parts, case['dim'])
        except Exception:
            g = None
        if [frame.frame_repr(p) for p in parts] != before:
            self._findings.append(('cat/mutates', 'cat modified its operands', None, None))
        if case.get('again') and g is not None:
            # re-use: the same cat on the same part objects once more, the first result read again afterwards, and
            # every operand compared (with the library's own ==) to an identically built twin
            rg = frame.frame_repr(g)
            try:
                rg2 = frame.frame_repr(torch_frame.cat(parts, case['dim']))
            except Exception as e:
                rg2 = f'raises {type(e).__name__}'
            if rg2 != rg:
                self._findings.append(('cat/again', 'a second cat of the same parts does not give the same result', None,
                                       rg2 if isinstance(rg2, str) else None))
            elif frame.frame_repr(g) != rg:
                self._findings.append(('cat/again', 'a later cat changed an earlier result', None, None))
            else:
                try:
                    build2 = builder()
                    twins = [frame.run_part(build2(p['frame']), p['ops']) for p in cparts]
                    same = [bool(p == t) and bool(t == p) for p, t, ps in zip(parts, twins, cparts)
                            if not self._has_nan_y(ps['frame'])]
                    if not all(same):
                        self._findings.append(('cat/mutates', 'after cat an operand no longer equals an identically '
                                               'built twin', None, None))
                except Exception as e:
                    self._findings.append(('cat/mutates', f'comparing an operand with its twin raises {type(e).__name__}',
                                           None, None))
        exp = case['expect']
        if g is None:
            if exp in ('equal', 'content', 'content-of-parts'):
                self._findings.append((f"cat{case['dim']}/raises", f"cat(dim={case['dim']}) of a {case['mode']} raises", exp, 'raises'))
            return 'raises'
        try:
            eq, eq_rev = bool(g == whole), bool(whole == g)
        except Exception:
            eq = eq_rev = 'raises'
        out = {'ok': {'frame': frame.frame_repr(g), 'eq': eq, 'eq_rev': eq_rev}}
        if exp == 'raises':
            self._findings.append((f"cat{case['dim']}/accepts-{case.get('mut')}",
                                   f"cat(dim={case['dim']}) accepts parts with mutation {case.get('mut')}", 'raises', 'ok'))
        elif exp == 'equal':
            ref = frame.ref_part(frame.ref_of_spec(case['whole']['frame']), case['whole']['ops'])
            bad = self.compare_cat(g, ref, case['dim'])
            if bad is None and not (eq is True and eq_rev is True):
                bad = 'the concatenation of a partition does not compare equal to the original frame'
            if bad is not None:
                self._findings.append((f"cat{case['dim']}/partition", f"cat(dim={case['dim']}): {bad}", None, None))
        elif exp in ('content', 'content-of-parts'):
            refs = [frame.ref_part(frame.ref_of_spec(p['frame']), p['ops']) for p in self.parts_of(case)]
            ref = dict(refs[0])
            ref['cells'] = {fid: [row for r in refs for row in r['cells'][fid]] for fid in refs[0]['cells']}
            ref['y'] = None if refs[0]['y'] is None else [v for r in refs for v in r['y']]
            ref['n'] = sum(r['n'] for r in refs)
            bad = self.compare_cat(g, ref, 0)
            if bad is not None:
                self._findings.append(('cat0/content', f'cat(dim=0) of selection results: {bad}', None, None))
        return out

    @staticmethod
    def compare_cat(g, ref, dim):
        """content of a concatenation vs the nested-list reference (dict orders of the result are free)"""
        if len(g) != ref['n']:
            return f'{len(g)} rows, expected {ref["n"]}'
        if {s.value: list(v) for s, v in g.col_names_dict.items()} != ref['names']:
            return 'names and data are no longer paired (name table differs)'
        if not frame.repr_well_formed(frame.frame_repr(g)):
            return 'a ragged feature of the result is not a well-formed container'
        try:
            got = frame.cells_of_real(g)
        except Exception as e:
            return f'reading the result raises {type(e).__name__}'
        if got != ref['cells']:
            return 'cells differ from the rows / columns of the parts in order'
        y = None if g.y is None else [frame.bits(x) for x in g.y.tolist()]
        if y != ref['y']:
            return 'target differs'
        return None

    # -- model side ----------------------------------------------------------------------------------
    def model_requests(self, case):
        if case.get('oracle_only'):
            return []
        kind = case['kind']
        if kind == 'cat':
            part = lambda p: {'frame': frame.model_frame(p['frame']), 'ops': frame.model_ops(p['ops'])}
            whole = case['whole']['frame']
            cparts = self.parts_of(case)
            if len(cparts) > 8 and all(p['frame'] is whole or p['frame'] == whole for p in cparts):
                # many parts of one frame: the frame travels once (driver: parts without `frame` use the common one)
                return [{'cmd': 'cat', 'dim': case['dim'], 'frame': frame.model_frame(whole),
                         'parts': [{'ops': frame.model_ops(p['ops'])} for p in cparts],
                         'eqto': {'ops': frame.model_ops(case['whole']['ops'])}}]
            return [{'cmd': 'cat', 'dim': case['dim'], 'parts': [part(p) for p in cparts],
                     'eqto': part(case['whole'])}]
        if kind == 'eq':
            return [{'cmd': 'eq', 'a': frame.model_frame(case['a']), 'b': frame.model_frame(case['b'])}]
        if kind == 'make':
            return [{'cmd': 'make', 'frame': frame.model_frame(case['frame'])}]
        if kind == 'lookup':
            return [{'cmd': 'prog', 'frame': frame.model_frame(case['frame']), 'ops': frame.model_ops(case['ops'])}]
        if kind == 'derive':
            return [{'cmd': 'prog', 'frame': frame.model_frame(sp),
                     'ops': [{'op': 'col', 'name': case['steps'][i]['name']} for i in idx]} for sp, idx in derive_groups(case)]
        # materialized: the model starts from the representation of the real materialized frame (the converter is
        # C01/C02's subject); what is compared is the lookup table built from the merged name table
        dspec = case['dataset']
        tf = frame.build_dataset(dspec).materialize().tensor_frame
        fr = frame.frame_repr(tf)
        ops = frame.model_ops(case['ops']) + [{'op': 'col', 'name': c['name']} for c in dspec['cols']
                                              if c['name'] != dspec['target']]
        return [{'cmd': 'prog', 'frame': fr, 'ops': ops}]

    def model_outcome(self, case, replies):
        if case.get('oracle_only'):
            return core.SKIP_MODEL
        if case['kind'] == 'derive':
            out = [None] * len(case['steps'])
            for (sp, idx), rep in zip(derive_groups(case), replies):
                for i, o in zip(idx, rep):
                    out[i] = o
            return out
        r = replies[0]
        if case['kind'] == 'lookup_mat':
            k = len(case['ops'])
            sel = [x for x in r[:k]]
            fr = sel[-1]['ok'] if k and isinstance(sel[-1], dict) else None
            return {'frame': fr, 'cols': r[k:]}
        return r

    def equal(self, real, model):
        if isinstance(real, dict) and 'cols' in real and 'frame' in real:
            if model['frame'] is not None and model['frame'] != real['frame']:
                return False
            return model['cols'] == real['cols']
        if isinstance(real, dict) and isinstance(model, dict) and 'ok' in real and 'ok' in model \
                and isinstance(real['ok'], dict) and 'eq' in real['ok']:
            a, b = real['ok'], model['ok']
            return a['eq'] == b['eq'] and a['eq_rev'] == b['eq_rev'] and a['frame'] == b['frame']
        return real == model

    def oracle(self, case, real_outcome):
        findings = self.recall(case)
        if findings:
            key, what, exp, got = findings[0]
            return core.Violation(key, what, case, exp, got)
        return None

    def nontrivial_key(self, case, out):
        kind = case['kind']
        if kind == 'cat':
            w = case['whole']['frame']
            return core.stable_hash(case) if w['R'] >= 1 and w['feats'] else None
        if kind == 'eq':
            return core.stable_hash(case) if case['a']['R'] >= 1 and case['a']['feats'] else None
        if kind in ('make', 'lookup', 'derive'):
            return core.stable_hash(case) if case['frame']['feats'] else None
        return core.stable_hash(case)

    @staticmethod
    def _bucket(x):
        return str(x) if x <= 7 else '8..16' if x <= 16 else '17..256' if x <= 256 else '257..1024' if x <= 1024 else '1025+'

    @staticmethod
    def _frame_labels(spec):
        labs = []
        if any(ft['payload'] == 'float64' for ft in spec['feats']):
            labs.append('dtype:float64-feature')
        if any(ft['kind'] == 'dict' and ft['keys'][0] != 'input_ids' for ft in spec['feats']):
            labs.append('dict:other-key-order')
        if spec['num_rows'] is not None and spec['feats']:
            labs.append('explicit-num_rows-with-features')
        if spec['R'] >= 257:
            labs.append('scale:rows>=257' if spec['R'] < 16385 else 'scale:rows>=16385(oracle-only)')
        if any(ft['C'] >= 257 for ft in spec['feats']):
            labs.append('scale:cols>=257')
        return labs

    def classify(self, case, out):
        kind = case['kind']
        res = 'raises' if out in ('raises', 'part-raises') else 'ok'
        sc = [f"scale:{case['scaled']}:{kind}"] if case.get('scaled') else []
        if kind == 'cat':
            k = len(case['parts'])
            labs = sc + [f"cat{case['dim']}:{case['mode']}:{case.get('mut', '-')}:{res}", f"parts:{self._bucket(k)}"]
            if k >= 17:
                labs.append('scale:parts>=17' if k < 257 else 'scale:parts>=257')
            w = case['whole']['frame']
            labs += [f"rows:{self._bucket(w['R'])}", f"preselected:{bool(case['whole']['ops'])}"]
            labs += [f"kind:{ft['kind']}" for ft in w['feats']] + self._frame_labels(w)
            if case.get('again') and res == 'ok':
                labs.append('reuse:same-cat-twice+twins')
            orders = {tuple(ft['keys']) for p in self.parts_of(case) for ft in p['frame']['feats'] if ft['kind'] == 'dict'}
            if len(orders) > 1:
                labs.append('dict:key-orders-differ-between-parts')
            if any(ragged.py_len(p['ops'][-1]['ix'], 10 ** 6) == 0 for p in case['parts'] if p['ops']
                   and p['ops'][-1]['ix']['t'] == 'slice' and p['ops'][-1]['ix']['a'] is not None
                   and p['ops'][-1]['ix']['a'] == p['ops'][-1]['ix']['b']):
                labs.append('has-empty-part')
            return labs
        if kind == 'eq':
            return sc + [f"eq:{case['label']}:{'equal' if out == {'ab': True, 'ba': True} else 'unequal' if isinstance(out, dict) else out}",
                         f"rows:{self._bucket(case['a']['R'])}"] + self._frame_labels(case['a'])
        if kind == 'make':
            return [f"make:{case['label']}:{res}"]
        if kind == 'derive':
            whos = [st['who'] for st in case['steps'][case['derive_at']:]]
            labs = ['derive:' + ('replace-on-the-frame-itself' if case['same'] else 'copy.copy+replace')]
            if case['derive_at'] > 0:
                labs.append('derive:lookup-before-the-derivation')
            if not case['same'] and 'A' in whos and 'B' in whos:
                labs.append('derive:lookups-on-both-objects:' + ('source-first' if whos[0] == 'A' else 'copy-first'))
            if case['replA'] and not case['same']:
                labs.append('derive:both-objects-replaced')
            hot = [st['name'] for st in case['steps']]
            if len(set((st['who'], st['name']) for st in case['steps'])) < len({st['name'] for st in case['steps']}) * 2 \
                    and any(hot.count(nm) >= 2 for nm in hot):
                labs.append('derive:same-name-looked-up-again')
            return labs + [f"kind:{ft['kind']}" for ft in case['frame']['feats']]
        if kind == 'lookup':
            return sc + ['lookup:frame'] + [f"lookup:{'ok' if isinstance(o, dict) else o}" for o in out[-3:]] + \
                self._frame_labels(case['frame'])
        return ['lookup:materialized'] + [f"materialized-col:{c['stype']}" for c in case['dataset']['cols']] + \
            (['lookup:materialized:ragged-target(oracle-only)'] if case.get('oracle_only') else [])

    def extra_checks(self, rng, tier, report):
        """exhaustive boxes: every weak composition of n rows into k parts (row partitions) and every placement of the
        per-stype cut point for two column parts, on frames holding every storage kind"""
        import itertools
        N, K = (5, 4) if tier == 'thorough' else (4, 3)
        st = ('numerical', 'timestamp', 'multicategorical', 'embedding', 'text_tokenized')
        cases = []
        for n in range(0, N + 1):
            spec = frame.fixed_frame(rng, n, st)
            for k in range(1, K + 1):
                for cuts in itertools.combinations_with_replacement(range(n + 1), k - 1):
                    parts = [{'frame': spec, 'ops': [{'op': 'sel', 'ix': ix}]}
                             for ix in frame.slices_for_cuts(list(cuts), n)]
                    cases.append({'kind': 'cat', 'dim': 0, 'mode': 'partition', 'whole': {'frame': spec, 'ops': []},
                                  'expect': 'equal', 'parts': parts})
        nrow = len(cases)
        sts = st if tier == 'thorough' else st[:4]
        spec = frame.fixed_frame(rng, 3, sts)
        for cutv in itertools.product(range(3), repeat=len(sts)):
            left = {'R': 3, 'feats': [], 'names_order': [], 'y': None, 'num_rows': None}
            right = {'R': 3, 'feats': [], 'names_order': [], 'y': copy.deepcopy(spec['y']), 'num_rows': None}
            for ft, c in zip(spec['feats'], cutv):
                if c > 0:
                    left['feats'].append(frame.col_sub(ft, 0, c))
                if c < 2:
                    right['feats'].append(frame.col_sub(ft, c, 2))
            for p in (left, right):
                p['names_order'] = [ft['s'] for ft in p['feats']]
                if not p['feats']:
                    p['num_rows'] = 3
            cases.append({'kind': 'cat', 'dim': 1, 'mode': 'partition', 'whole': {'frame': spec, 'ops': []},
                          'expect': 'equal', 'parts': [{'frame': left, 'ops': []}, {'frame': right, 'ops': []}]})
        report['extra']['observed_outside_generated_domain'] = [
            'frames whose target is a MultiNestedTensor (legal for the constructor and row selection, produced by '
            'Dataset.materialize() for a sequence_numerical target): tf == tf raises TypeError (torch.allclose on a '
            'MultiNestedTensor) and cat([tf[:2], tf[2:]], dim=0) raises TypeError (torch.cat on MultiNestedTensors); == and '
            'cat are generated with dense 1-D targets only (reported as a suspected defect, not judged)']
        frame.run_box(self, cases, report, 'partition_box',
                      {'row_partitions': nrow, 'col_partitions': len(cases) - nrow, 'rows': f'0..{N}', 'parts': f'1..{K}'})


CHECK = C08()

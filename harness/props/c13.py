"""C13 - stype encoders are per-cell functions with documented missing-value semantics."""
import copy
import math

from harness import core, encgen as G
from harness.props.c12 import C12


class C13(core.Check):
    pid = 'C13'
    driver = 'drv_c12'
    quick_cases = 220
    thorough_cases = 4000
    rule = ('random materialized tables as in C12 plus an evaluation table with the same schema pushed through the '
            'dataset\'s own converter (values outside the training range, unseen categories and tokens, later and - '
            'rarely - earlier years); every stype group\'s encoder (all nine parameterised classes, every admissible NA '
            'strategy or none, post module none/ReLU/Tanh/LayerNorm, all parameters re-drawn) is run on both frames. '
            'The Lean side evaluates the per-cell specification function cell by cell (never the batched passes). '
            'Non-trivial = at least one group with >= 1 cell; distinct = distinct case hash.')
    partial_notes = (
        '"encoding never modifies the tensors it is given" is checked on the real objects (snapshot of every feature '
        'tensor / ragged storage before and after the call); the functional Lean model cannot express aliasing',
        'the padding-row hypothesis table[0] = 0 of missing_is_zero_embedding is checked on every exported Embedding table',
        'float32-forced parts (LinearBucketEncoder, cyclic part of TimestampEncoder) use the widened tolerance of C12',
        'earlier years than the fitted minimum make PositionalEncoding assert: outside the encoder\'s domain, the model '
        'predicts the same refusal, the case is logged (label ts-out-of-domain), not alarmed',
    )
    assumptions = C12.assumptions

    def __init__(self):
        self._req = {}
        self._viol = {}

    def generate(self, rng, n, tier):
        for i in range(n):
            force = G.NUM_CLASSES[i % 5] if rng.random() < 0.35 else None
            case = G.gen_case(rng, with_eval=True, force_num_cls=force)
            C12.restrict(case, rng)
            case.pop('batches', None)
            case['kind'] = 'cells'
            case['oseed'] = rng.randrange(1 << 30)
            yield case

    # ------------------------------------------------------------------ real side
    def real(self, case):
        import random
        key = core.stable_hash(case)
        self._viol[key] = None
        t = G.T()
        torch, stype = t['torch'], t['stype']
        ds, tf, wise = G.build(case)
        frames = [('train', tf)]
        if 'eval_cols' in case:
            frames.append(('eval', G.eval_frame(case, ds)))
        out, reqs = {'groups': []}, []
        rng = random.Random(case['oseed'])
        for fname, frame in frames:
            for s in G.canonical_stypes(frame):
                m, e = wise.encoder_dict[s], case['enc'][s]
                feat = frame.feat_dict[stype(s)]
                names = list(frame.col_names_dict[stype(s)])
                snap = self.snapshot(feat)
                try:
                    x = m(feat, names).detach()
                    res = {'frame': fname, 'stype': s, 'shape': list(x.shape), 'data': x.double().tolist()}
                except AssertionError:
                    x = None
                    res = {'frame': fname, 'stype': s, 'raises': True}
                r, c, f = G.feat_json(frame, s)
                ncols, tolv = C12.group_tol(m, e, feat, c) if x is not None else (c, ('none', None))
                res['tol'] = C12.batch_tol([(ncols, tolv)], list(range(r)), case['ch']) if x is not None else None
                out['groups'].append(res)
                reqs.append({'cmd': 'enc', 'enc': G.enc_json(ds, frame, wise, case, s), 'feat': f, 'rows': r, 'cols': c,
                             'names': len(names), 'cells': True})
                if self._viol[key] is None:
                    if self.snapshot(feat) != snap:
                        self._viol[key] = core.Violation(f'C13/input-modified/{e["cls"]}', f'{e["cls"]} (na={e["na"]}) modified '
                                                         f'the {s} features it was given', case, 'unchanged input', 'changed')
                    elif x is not None:
                        self._viol[key] = self.oracle_group(case, ds, frame, m, e, s, feat, names, x, rng, res['tol'])
                    elif not (s == 'timestamp' and fname == 'eval'):
                        self._viol[key] = core.Violation(f'C13/asserts/{e["cls"]}', f'{e["cls"]} asserted on {fname} data', case)
        self._req[key] = reqs
        return out

    @staticmethod
    def snapshot(feat):
        torch = G.T()['torch']
        if isinstance(feat, torch.Tensor):
            return ('t', core.stable_hash(torch.nan_to_num(feat.double(), nan=-12345.678).tolist()))
        return ('m', core.stable_hash(torch.nan_to_num(feat.values.double(), nan=-12345.678).tolist()),
                feat.offset.tolist(), feat.num_rows, feat.num_cols)

    # ------------------------------------------------------------------ metamorphic oracle (independent of Lean)
    def oracle_group(self, case, ds, frame, m, e, s, feat, names, x, rng, tol):
        t = G.T()
        torch, stype, Stat = t['torch'], t['stype'], t['Stat']
        B, C = x.shape[0], x.shape[1]
        cls, na = e['cls'], e['na']
        tag = f'{cls}/na={na}'

        def run(mod, f):
            return mod(f, names).detach()

        def same(a, b, rows=None):
            ta = tol if rows is None else [tol[r] for r in rows]
            return G.close_nested(a.double().tolist(), b.double().tolist(), ta)

        miss = self.missing_mask(s, feat)                      # [B][C] bools
        # (1) no strategy: a missing cell is the all-zero vector before the post module
        pre = copy.deepcopy(m)
        pre.post_module = None
        xpre = run(pre, feat)
        if na is None:
            for r in range(B):
                for c in range(C):
                    if miss[r][c] and float(xpre[r, c].abs().max()) != 0.0:
                        return core.Violation(f'C13/missing-not-zero/{cls}', f'{tag}: missing cell ({r},{c}) of {s} is embedded '
                                              f'as {xpre[r, c].tolist()} before the post module', case,
                                              [0.0] * x.shape[2], xpre[r, c].tolist())
        else:
            # (2) with a strategy: exactly the encoding of the replacement value, which is the column's own statistic
            imputed = self.impute(ds, frame, s, feat, names, na, miss)
            none = copy.deepcopy(m)
            none.na_strategy = None
            ximp = run(none, imputed)
            if not same(x, ximp):
                return core.Violation(f'C13/not-imputation/{cls}/{na}', f'{tag}: encoding with the strategy differs from '
                                      f'encoding the frame whose missing cells were replaced by the column\'s statistic',
                                      case, ximp.tolist(), x.tolist())
        if B == 0 or C == 0:
            return None
        # (3) changing one cell changes only its own embedding
        r0, c0 = rng.randrange(B), rng.randrange(C)
        src = rng.randrange(B)
        pert = self.replace_cell(s, feat, r0, c0, src, rng)
        if pert is not None:
            try:
                xp = run(m, pert)
            except AssertionError:
                xp = None
            if xp is not None:
                keep = torch.ones(B, C, dtype=torch.bool)
                keep[r0, c0] = False
                if not torch.equal(torch.nan_to_num(xp[keep]), torch.nan_to_num(x[keep])):
                    return core.Violation(f'C13/not-local/{cls}', f'{tag}: replacing cell ({r0},{c0}) of {s} changed another '
                                          f'cell\'s embedding', case)
        # (4) permuting rows permutes the output
        perm = list(range(B))
        rng.shuffle(perm)
        xq = run(m, feat[perm] if not isinstance(feat, torch.Tensor) else feat[torch.tensor(perm)])
        if not same(xq, x[torch.tensor(perm)], rows=perm):
            return core.Violation(f'C13/not-row-equivariant/{cls}', f'{tag}: encoding of permuted rows is not the permuted '
                                  f'encoding', case)
        # (5) the padding row hypothesis of the zero-embedding theorem
        if cls == 'embedding' and float(m.emb.weight[0].abs().max()) != 0.0:
            return core.Violation('C13/padding-row', 'Embedding padding row is not zero', case)
        return None

    @staticmethod
    def missing_mask(s, feat):
        torch = G.T()['torch']
        if s == 'numerical':
            return torch.isnan(feat).tolist()
        if s == 'categorical':
            return (feat < 0).tolist()
        if s == 'timestamp':
            return (feat < 0).any(dim=-1).tolist()
        if s == 'multicategorical':
            return [[cell == [-1] for cell in row] for row in G.mnt_cells(feat)]
        off = feat.offset.tolist()
        vals = feat.values
        return [[bool(torch.isnan(vals[r, off[c]:off[c + 1]]).any()) for c in range(feat.num_cols)]
                for r in range(feat.num_rows)]

    @staticmethod
    def impute(ds, frame, s, feat, names, na, miss):
        """the frame with every missing cell replaced by the value the documentation promises, computed here from
        the dataset's statistics of THAT column (not read from the encoder)"""
        t = G.T()
        torch, Stat = t['torch'], t['Stat']
        if s == 'multicategorical':
            cells = [[([0] if cell == [-1] else cell) for cell in row] for row in G.mnt_cells(feat)]
            from torch_frame.data import MultiNestedTensor
            if not cells:
                return feat
            return MultiNestedTensor.from_tensor_mat([[torch.tensor(c, dtype=torch.long) for c in row] for row in cells])
        out = feat.clone()
        for c, name in enumerate(names):
            st = ds.col_stats[name]
            for r in range(feat.shape[0]):
                if not miss[r][c]:
                    continue
                if s == 'numerical':
                    out[r, c] = st[Stat.MEAN] if na == 'mean' else 0.0
                elif s == 'categorical':
                    out[r, c] = 0                                   # index 0 = the most frequent category
                else:
                    k = {'median_timestamp': Stat.MEDIAN_TIME, 'oldest_timestamp': Stat.OLDEST_TIME,
                         'newest_timestamp': Stat.NEWEST_TIME}[na]
                    out[r, c] = st[k]
        return out

    @staticmethod
    def replace_cell(s, feat, r0, c0, src, rng):
        """the same features with cell (r0, c0) replaced by another legal value of that column"""
        t = G.T()
        torch = t['torch']
        if s == 'multicategorical':
            cells = G.mnt_cells(feat)
            cells[r0][c0] = list(cells[src][c0]) if src != r0 else ([] if cells[r0][c0] else [-1])
            from torch_frame.data import MultiNestedTensor
            return MultiNestedTensor.from_tensor_mat([[torch.tensor(c, dtype=torch.long) for c in row] for row in cells])
        if s == 'embedding':
            from torch_frame.data import MultiEmbeddingTensor
            vals = feat.values.clone()
            off = feat.offset.tolist()
            vals[r0, off[c0]:off[c0 + 1]] = vals[src, off[c0]:off[c0 + 1]] * 0.5 + 1.0
            return MultiEmbeddingTensor(feat.num_rows, feat.num_cols, vals, feat.offset)
        out = feat.clone()
        if s == 'numerical':
            out[r0, c0] = float('nan') if rng.random() < 0.2 else out[src, c0] * 0.5 + 0.25
        elif s == 'categorical':
            out[r0, c0] = -1 if int(out[r0, c0]) >= 0 and rng.random() < 0.3 else int(out[src, c0])
            if int(out[r0, c0]) == int(feat[r0, c0]):
                out[r0, c0] = -1 if int(feat[r0, c0]) >= 0 else 0
        else:
            out[r0, c0] = out[src, c0] if src != r0 else torch.full((7,), -1, dtype=out.dtype)
        return out

    # ------------------------------------------------------------------ model side: the per-cell specification
    def model_requests(self, case):
        return self._req.get(core.stable_hash(case), [])

    def model_outcome(self, case, replies):
        out = {'groups': []}
        for rep in replies:
            if rep.get('construct') != 'ok':
                out['groups'].append({'construct': 'raises'})
                continue
            cells = rep['cells']
            if any(c == 'raises' for row in cells for c in row):
                out['groups'].append({'raises': True})
            else:
                out['groups'].append({'data': G.decode(cells), 'batched': rep['out']})
        return out

    def equal(self, real, model):
        if len(real['groups']) != len(model['groups']):
            return False
        for a, b in zip(real['groups'], model['groups']):
            if a.get('raises') or b.get('raises'):
                if bool(a.get('raises')) != bool(b.get('raises')):
                    return False
                continue
            if 'data' not in b:
                return False
            if a['shape'][0] != len(b['data']) or (a['shape'][0] and a['shape'][1] != len(b['data'][0])):
                return False
            if not G.close_nested(a['data'], b['data'], a['tol']):
                return False
            # the batched model agrees with its own per-cell specification (what per_cell proves)
            bo = b['batched']
            if bo == 'raises' or not G.close_nested(G.decode(bo['data']), b['data'], a['tol']):
                return False
        return True

    def oracle(self, case, real_outcome):
        return self._viol.get(core.stable_hash(case))

    def nontrivial_key(self, case, r):
        if any(g.get('shape') and g['shape'][0] * g['shape'][1] > 0 for g in r['groups']):
            return core.stable_hash(case)
        return None

    def classify(self, case, r):
        labs = [f"rows:{case['nrows']}", f"eval-rows:{case.get('eval_nrows', 0)}", f"ch:{case['ch']}"]
        for s, e in case['enc'].items():
            labs.append(f"enc:{e['cls']}" + (f":{e['mode']}" if 'mode' in e else '') + f":na={e['na']}")
            labs.append(f"post:{e['post']['t']}")
        for g in r['groups']:
            if g.get('raises'):
                labs.append('ts-out-of-domain')
        for c in case['cols']:
            if any(v is None for v in c['values']):
                labs.append(f"has-missing:{c['stype']}")
        for c in case.get('eval_cols', []):
            if c['stype'] in ('categorical', 'multicategorical') and any(v and 'UNSEEN' in v for v in c['values']):
                labs.append(f"unseen:{c['stype']}")
        return labs


CHECK = C13()

"""C13 - stype encoders are per-cell functions with documented missing-value semantics."""
import copy
import math

from harness import core, encgen as G
from harness.props.c12 import C12


class _Modified(Exception):
    pass


class C13(core.Check):
    pid = 'C13'
    driver = 'drv_c12'
    quick_cases = 220
    thorough_cases = 4000
    rule = ('random materialized tables as in C12 plus an evaluation table with the same schema pushed through the '
            'dataset\'s own converter (values outside the training range, unseen categories and tokens, later and - '
            'rarely - earlier years); every stype group\'s encoder (all nine parameterised classes, every admissible NA '
            'strategy or none, post module none/ReLU/Tanh/LayerNorm, all parameters re-drawn) is run on both frames. '
            'The Lean side evaluates the per-cell specification function cell by cell (never the batched passes). '
            'On the real encoder alone (no model involved) every group of every frame is put through the property\'s own '
            'relations: missing cell -> all-zero vector with the post module removed; output = post module applied to that; '
            'with a strategy: identical to encoding the frame whose missing cells were replaced by the column\'s own '
            'statistic with the strategy switched off; one cell replaced (by another row\'s value of that column, a fresh '
            'value or the missing marker) -> every other embedding bit-identical and a copied value embedded like its '
            'source; rows permuted -> output permuted; every input tensor / ragged storage unchanged after every call. '
            'All class x stype x strategy constructions are enumerated and compared with the documented table. '
            'Non-trivial = at least one group with >= 1 cell; distinct = distinct case hash. '
            'Hardening families (labels scale:* / dtype:* / values:* / hist:*): ~15% of the cases carry one size from the '
            'stress ladder of the run\'s level (rows, columns of one stype, categories / tokens of one column and a cell '
            'holding the whole vocabulary, embedding width, channels); sentinel look-alike category / token / column names, '
            'edge magnitudes (-1.0, 0.5, -0.0, 2^24, -2^31) and float64-only numbers; float32 numerical / int32 categorical '
            'blocks; earlier calls on the same encoder object (eval / training-mode forward, mode flips, reset_parameters); '
            'the tensor returned by the first call is re-inspected after all later calls (no shared output buffer). '
            'Third round (labels cfg:merged-embedding:* / cfg:frame-from-transform:* / names:* / ragged:* / alias:*): as in C12, '
            '~20% of the cases have text_embedded / image_embedded stub columns of other widths merged behind the plain embedding '
            'columns, ~20% take the frame (and the evaluation frame) from a transform (re-ordered column lists of every stype, '
            'CatToNumTransform, MutualInformationSort) so that the statistics have to be looked up by NAME, ~25% place empty '
            'multicategorical cells in the first / middle / last rows or everywhere (training and evaluation table), ~25% '
            'overwrite the returned tensor in place (zero_, add_, fill_(nan)) and call again: the input features and the next '
            'result must be what they were.')
    partial_notes = (
        '"encoding never modifies the tensors it is given" is checked on the real objects (snapshot of every feature '
        'tensor / ragged storage before and after the call); the functional Lean model cannot express aliasing',
        'the hypotheses MissingHyp of missing_is_zero (padding row table[0] = 0 of the shared Embedding; >= 2 bucket '
        'boundaries and one weight row per bucket; weight_list[c] has emb_dim rows) are checked on every real encoder built',
        'the imputed values are compared with Dataset.col_stats of the same column (that col_stats are the textbook '
        'statistics, and category index 0 the most frequent category, is C03 / C01)',
        'float32-forced parts (LinearBucketEncoder, cyclic part of TimestampEncoder) use the widened tolerance of C12',
        'earlier years than the fitted minimum make PositionalEncoding assert: outside the encoder\'s domain, the model '
        'predicts the same refusal, the case is logged (label ts-out-of-domain), not alarmed',
    )
    assumptions = C12.assumptions

    def __init__(self):
        self._req = {}
        self._viol = {}

    SCALE_SHARE = {0: 0.15, 1: 0.08, 2: 0.02}

    def gen_stress(self, rng):
        """stress options of one case (harness/encgen.gen_case): scale (rows, columns of one stype, categories, cell
        length, embedding width, channels), sentinel look-alike categories / column names, edge magnitudes and
        float64-only values, float32 / int32 blocks, earlier calls on the same encoder object"""
        from harness import stress
        lvl, r = self.level, rng.random
        o = {'special': r() < 0.2, 'edge': r() < 0.25, 'f64': r() < 0.5}
        if r() < 0.3:
            o['hist'] = [rng.choice(['fwd', 'fwd_row', 'fwd_empty', 'train_fwd', 'train_eval', 'reset'])
                         for _ in range(rng.choice([1, 1, 2]))]
        if r() < 0.15:
            o['block_dtype'] = {s: d for s, d in (('numerical', 'f32'), ('categorical', 'i32')) if r() < 0.7}
        # third hardening round (see C12.gen_stress): column lists that are not sorted (merged text / image children,
        # frames produced by transforms), empty ragged cells in chosen rows, callers editing the returned tensor in place
        if r() < 0.2:
            o['children'] = True
        if r() < 0.2:
            o['layout'] = rng.choice(['permuted', 'permuted', 'permuted', 'cat_to_num', 'cat_to_num', 'mi_sort'])
        if r() < 0.25:
            o['empty'] = rng.choice(G.EMPTY_PATTERNS)
        if r() < 0.25:
            o['mutate'] = [rng.choice(['x:zero', 'x:add', 'x:nan']) for _ in range(rng.choice([1, 2]))]
        if r() < self.SCALE_SHARE.get(lvl, 0.05):
            def size(cap):
                xs = [x for x in stress.ladder(lvl) if x <= cap]
                return (max(xs) if r() < 0.5 else rng.choice(xs)) + rng.choice([0, 0, 1, 2])
            dim = rng.choice(['rows', 'rows', 'ncols', 'ncat', 'width', 'ch'])
            if dim == 'rows':
                o['rows'] = size(260 if lvl == 0 else 2100 if lvl == 1 else 4100)
            elif dim == 'ncols':
                o['ncols'] = size(260 if lvl == 0 else 520)
                o['rows'] = rng.choice([2, 3, 4])
            elif dim == 'ncat':
                o['ncat'] = size(260 if lvl == 0 else 1030)
                o['cell'] = rng.choice([17, 33, 65])
                o['rows'] = o['ncat'] + rng.randint(0, 9)
            elif dim == 'width':
                o['width'] = size(130 if lvl == 0 else 520)
            else:
                o['ch'] = size(70 if lvl == 0 else 260)
        return o

    def generate(self, rng, n, tier):
        for i in range(n):
            force = G.NUM_CLASSES[i % 5] if rng.random() < 0.35 else None
            case = G.gen_case(rng, with_eval=True, force_num_cls=force, stress=self.gen_stress(rng))
            C12.restrict(case, rng)
            case.pop('batches', None)
            case['kind'] = 'cells'
            case['oseed'] = rng.randrange(1 << 30)
            yield case

    # ------------------------------------------------------------------ real side
    def real(self, case):
        import random
        key = core.stable_hash(case)
        self._viol[key] = None
        t = G.T()
        torch, stype = t['torch'], t['stype']
        ds, tf, wise = G.build(case)
        frames = [('train', tf)]
        if 'eval_cols' in case:
            frames.append(('eval', G.eval_frame(case, ds)))
        out, reqs, rel = {'groups': [], 'layout': G.names_layout(tf)}, [], {}
        rng = random.Random(case['oseed'])
        for fname, frame in frames:
            for s in G.canonical_stypes(frame):
                m, e = wise.encoder_dict[s], case['enc'][s]
                feat = frame.feat_dict[stype(s)]
                names = list(frame.col_names_dict[stype(s)])
                snap = self.snapshot(feat)
                try:
                    x = m(feat, names).detach()
                    x_first = x.clone()
                    res = {'frame': fname, 'stype': s, 'shape': list(x.shape), 'data': x.double().tolist()}
                except AssertionError:
                    x = None
                    res = {'frame': fname, 'stype': s, 'raises': True}
                r, c, f = G.feat_json(frame, s)
                ncols, tolv = C12.group_tol(m, e, feat, c) if x is not None else (c, ('none', None))
                res['tol'] = C12.batch_tol([(ncols, tolv)], list(range(r)), case['ch']) if x is not None else None
                out['groups'].append(res)
                reqs.append({'cmd': 'enc', 'enc': G.enc_json(ds, frame, wise, case, s), 'feat': f, 'rows': r, 'cols': c,
                             'names': len(names), 'cells': True})
                if self._viol[key] is None and x is not None and case.get('mutate'):
                    self._viol[key] = self.oracle_mutation(case, m, e, s, feat, names, x_first, snap)
                if self._viol[key] is None:
                    if self.snapshot(feat) != snap:
                        self._viol[key] = core.Violation(f'C13/input-modified/{e["cls"]}', f'{e["cls"]} (na={e["na"]}) modified '
                                                         f'the {s} features it was given', case, 'unchanged input', 'changed')
                    elif x is not None:
                        self._viol[key] = self.oracle_group(case, ds, frame, m, e, s, feat, names, x, rng, res['tol'], rel)
                        if self._viol[key] is None and not torch.equal(torch.nan_to_num(x), torch.nan_to_num(x_first)):
                            self._viol[key] = core.Violation(f'C13/output-overwritten/{e["cls"]}', f'{e["cls"]}: the tensor '
                                                             'returned by the first call was changed by later calls on '
                                                             'the same encoder', case, 'unchanged result', 'changed')
                    elif not (s == 'timestamp' and fname == 'eval'):
                        self._viol[key] = core.Violation(f'C13/asserts/{e["cls"]}', f'{e["cls"]} asserted on {fname} data', case)
        self._req[key] = reqs
        out['relations'] = rel
        return out

    def oracle_mutation(self, case, m, e, s, feat, names, x_first, snap):
        """the returned tensor belongs to the caller: overwriting it in place changes neither the features it was
        computed from nor what the next call returns"""
        torch = G.T()['torch']
        y = m(feat, names)
        with torch.no_grad():
            for op in case['mutate']:
                if op == 'x:zero':
                    y.detach().zero_()
                elif op == 'x:add':
                    y.detach().add_(1.5)
                else:
                    y.detach().fill_(float('nan'))
        if self.snapshot(feat) != snap:
            return core.Violation(f'C13/input-modified/{e["cls"]}', f'{e["cls"]} (na={e["na"]}): overwriting the returned '
                                  f'tensor in place ({case["mutate"]}) changed the {s} features that were encoded (the output '
                                  'shares memory with the input)', case, 'unchanged input', 'changed')
        z = m(feat, names).detach()
        if not torch.equal(torch.nan_to_num(z), torch.nan_to_num(x_first)):
            return core.Violation(f'C13/output-overwritten/{e["cls"]}', f'{e["cls"]}: after the caller overwrote the returned '
                                  f'tensor in place ({case["mutate"]}) the next call on the same input returns something else',
                                  case, 'the same embedding', 'changed')
        return None

    @staticmethod
    def snapshot(feat):
        torch = G.T()['torch']
        if isinstance(feat, torch.Tensor):
            return ('t', core.stable_hash(torch.nan_to_num(feat.double(), nan=-12345.678).tolist()))
        return ('m', core.stable_hash(torch.nan_to_num(feat.values.double(), nan=-12345.678).tolist()),
                feat.offset.tolist(), feat.num_rows, feat.num_cols)

    # ------------------------------------------------------------------ direct relations on the real encoder
    def oracle_group(self, case, ds, frame, m, e, s, feat, names, x, rng, tol, rel):
        """the property's own relations, run on the real encoder only (no Lean model involved); `rel` collects which
        relations were actually exercised (-> evidence histogram)"""
        t = G.T()
        torch = t['torch']
        B, C, CH = x.shape[0], x.shape[1], x.shape[2]
        cls, na = e['cls'], e['na']
        tag = f'{cls}/na={na}'
        snap0 = self.snapshot(feat)

        def hit(name):
            rel[name] = rel.get(name, 0) + 1

        def run(mod, f):
            sn = self.snapshot(f)
            y = mod(f, names).detach()
            if self.snapshot(f) != sn:
                raise _Modified()
            return y

        def same(a, b, rows=None):
            ta = tol if rows is None else [tol[r] for r in rows]
            return G.close_nested(a.double().tolist(), b.double().tolist(), ta)

        try:
            # (0) the explicit hypotheses of the zero-embedding theorem hold for the real module
            v = self.check_hypotheses(case, m, e)
            if v is not None:
                return v
            miss = self.missing_mask(s, feat)                      # [B][C] bools
            nmiss = sum(1 for row in miss for b in row if b)
            # (1) the post module is applied last: output = post_module(output of the same encoder without it)
            pre = copy.deepcopy(m)
            pre.post_module = None
            xpre = run(pre, feat)
            xpost = xpre if m.post_module is None else m.post_module(xpre).detach()
            if not torch.allclose(xpost, x, rtol=1e-12, atol=0.0, equal_nan=True):
                return core.Violation(f'C13/post-not-last/{cls}', f'{tag}: the output is not the post module applied to the '
                                      f'output of the same encoder with post_module=None (nan_to_num must come before the '
                                      f'post module)', case, xpost.tolist(), x.tolist())
            hit(f'post-last:{e["post"]["t"]}')
            if na is None:
                # (2) no strategy: a missing cell is the all-zero vector before the post module
                for r in range(B):
                    for c in range(C):
                        if miss[r][c] and float(xpre[r, c].abs().max()) != 0.0:
                            return core.Violation(f'C13/missing-not-zero/{cls}', f'{tag}: missing cell ({r},{c}) of {s} is '
                                                  f'embedded as {xpre[r, c].tolist()} before the post module', case,
                                                  [0.0] * CH, xpre[r, c].tolist())
                if nmiss:
                    hit(f'missing-zero:{cls}' + (f':{e["mode"]}' if 'mode' in e else ''))
            else:
                # (3) with a strategy: exactly the encoding of the replacement value, which is the column's own statistic
                imputed = self.impute(ds, frame, s, feat, names, na, miss, double=(s == 'numerical' and not G.is_f32(e)))
                none = copy.deepcopy(m)
                none.na_strategy = None
                try:
                    ximp = run(none, imputed)
                except AssertionError:
                    # the encoder (with the strategy) returned embeddings for this frame, so every present cell and every
                    # replacement value is inside its domain - and so is the frame with the replacements written in
                    return core.Violation(f'C13/not-imputation/{cls}/{na}', f'{tag}: the frame whose missing cells were '
                                          f'replaced by the column\'s own statistic is refused by the encoder, although the '
                                          f'encoder with the strategy accepted the original frame (present cells were '
                                          f'overwritten?)', case, 'an embedding', 'AssertionError')
                if not same(x, ximp):
                    return core.Violation(f'C13/not-imputation/{cls}/{na}', f'{tag}: encoding with the strategy differs from '
                                          f'encoding (without strategy) the frame whose missing cells were replaced by '
                                          f'the column\'s own statistic', case, ximp.tolist(), x.tolist())
                if nmiss:
                    hit(f'imputation:{cls}' + (f':{e["mode"]}' if 'mode' in e else '') + f':{na}')
                    if C >= 2:
                        hit('imputation:multi-column')
            if B == 0 or C == 0:
                return None
            # (4) changing one cell changes only its own embedding; a copied value is embedded like its source
            for _ in range(2):
                r0, c0 = rng.randrange(B), rng.randrange(C)
                src = rng.randrange(B)
                pert, copied = self.replace_cell(s, feat, r0, c0, src, rng)
                if pert is None:
                    continue
                try:
                    xp = run(m, pert)
                except AssertionError:
                    continue
                keep = torch.ones(B, C, dtype=torch.bool)
                keep[r0, c0] = False
                if not torch.equal(torch.nan_to_num(xp[keep]), torch.nan_to_num(x[keep])):
                    bad = [(r, c) for r in range(B) for c in range(C)
                           if keep[r, c] and not torch.equal(torch.nan_to_num(xp[r, c]), torch.nan_to_num(x[r, c]))]
                    return core.Violation(f'C13/not-local/{cls}', f'{tag}: replacing cell ({r0},{c0}) of {s} changed the '
                                          f'embedding of other cells {bad[:4]}', case)
                hit('perturb:' + ('copy' if copied else 'fresh'))
                if copied:
                    ext = [tol[r0][c0][k] + tol[src][c0][k] for k in range(CH)]
                    if not G.close_nested(xp[r0, c0].double().tolist(), x[src, c0].double().tolist(), ext):
                        return core.Violation(f'C13/not-a-function-of-the-cell/{cls}', f'{tag}: cell ({r0},{c0}) of {s} was '
                                              f'given the value of cell ({src},{c0}) but is embedded differently', case,
                                              x[src, c0].tolist(), xp[r0, c0].tolist())
                elif not torch.equal(torch.nan_to_num(xp[r0, c0]), torch.nan_to_num(x[r0, c0])):
                    hit('perturb:own-embedding-changed')
            # (5) permuting rows permutes the output
            perm = list(range(B))
            rng.shuffle(perm)
            xq = run(m, feat[perm] if not isinstance(feat, torch.Tensor) else feat[torch.tensor(perm)])
            if not same(xq, x[torch.tensor(perm)], rows=perm):
                return core.Violation(f'C13/not-row-equivariant/{cls}', f'{tag}: encoding of permuted rows is not the permuted '
                                      f'encoding', case, x[torch.tensor(perm)].tolist(), xq.tolist())
            hit('row-perm' + (':nontrivial' if perm != sorted(perm) else ':identity'))
        except _Modified:
            return core.Violation(f'C13/input-modified/{cls}', f'{tag}: the {s} features handed to the encoder were modified by '
                                  f'the call', case, 'unchanged input', 'changed')
        if self.snapshot(feat) != snap0:
            return core.Violation(f'C13/input-modified/{cls}', f'{tag}: the {s} features were modified', case)
        return None

    @staticmethod
    def check_hypotheses(case, m, e):
        """MissingHyp of the theorem missing_is_zero, on the real module"""
        cls = e['cls']
        if cls == 'embedding' and float(m.emb.weight[0].abs().max()) != 0.0:
            return core.Violation('C13/padding-row', 'row 0 (padding_idx) of the shared Embedding table is not zero', case)
        if cls == 'embedding' and m.emb.padding_idx != 0:
            return core.Violation('C13/padding-row', 'the shared Embedding has no padding_idx=0', case)
        if cls == 'bag' and any(emb.padding_idx != 0 for emb in m.embs):
            return core.Violation('C13/padding-idx', 'an EmbeddingBag has no padding_idx=0', case)
        if cls == 'bucket' and (m.boundaries.shape[1] < 2 or m.weight.shape[1] != m.boundaries.shape[1] - 1):
            return core.Violation('C13/bucket-shape', f'boundaries {list(m.boundaries.shape)} / weight '
                                  f'{list(m.weight.shape)} do not give one weight row per bucket', case)
        if cls == 'linemb' and [int(w.shape[0]) for w in m.weight_list] != [int(d) for d in m.emb_dim_list]:
            return core.Violation('C13/linemb-shape', 'weight_list rows differ from emb_dim_list', case)
        return None

    @staticmethod
    def missing_mask(s, feat):
        torch = G.T()['torch']
        if s == 'numerical':
            return torch.isnan(feat).tolist()
        if s == 'categorical':
            return (feat < 0).tolist()
        if s == 'timestamp':
            return (feat < 0).any(dim=-1).tolist()
        if s == 'multicategorical':
            return [[cell == [-1] for cell in row] for row in G.mnt_cells(feat)]
        off = feat.offset.tolist()
        vals = feat.values
        return [[bool(torch.isnan(vals[r, off[c]:off[c + 1]]).any()) for c in range(feat.num_cols)]
                for r in range(feat.num_rows)]

    @staticmethod
    def impute(ds, frame, s, feat, names, na, miss, double=False):
        """the frame with every missing cell replaced by the value the documentation promises, computed here from
        the dataset's statistics of THAT column (not read from the encoder)"""
        t = G.T()
        torch, Stat = t['torch'], t['Stat']
        if s == 'multicategorical':
            cells = [[([0] if cell == [-1] else cell) for cell in row] for row in G.mnt_cells(feat)]
            from torch_frame.data import MultiNestedTensor
            if not cells:
                return feat
            return MultiNestedTensor.from_tensor_mat([[torch.tensor(c, dtype=torch.long) for c in row] for row in cells])
        out = feat.clone()
        if double:
            out = out.double()          # the replacement value is the column mean itself, not its float32 rounding
        for c, name in enumerate(names):
            st = ds.col_stats[name]
            for r in range(feat.shape[0]):
                if not miss[r][c]:
                    continue
                if s == 'numerical':
                    out[r, c] = st[Stat.MEAN] if na == 'mean' else 0.0
                elif s == 'categorical':
                    out[r, c] = 0                                   # index 0 = the most frequent category
                else:
                    k = {'median_timestamp': Stat.MEDIAN_TIME, 'oldest_timestamp': Stat.OLDEST_TIME,
                         'newest_timestamp': Stat.NEWEST_TIME}[na]
                    out[r, c] = st[k]
        return out

    @staticmethod
    def replace_cell(s, feat, r0, c0, src, rng):
        """(the same features with cell (r0, c0) replaced by another legal value of that column, copied?) where
        copied = the new value is exactly the value of cell (src, c0)"""
        t = G.T()
        torch = t['torch']
        copy_it = src != r0 and rng.random() < 0.5
        if s == 'multicategorical':
            cells = G.mnt_cells(feat)
            cells[r0][c0] = list(cells[src][c0]) if copy_it else ([] if cells[r0][c0] else [-1])
            from torch_frame.data import MultiNestedTensor
            return MultiNestedTensor.from_tensor_mat(
                [[torch.tensor(c, dtype=torch.long) for c in row] for row in cells]), copy_it
        if s == 'embedding':
            from torch_frame.data import MultiEmbeddingTensor
            vals = feat.values.clone()
            off = feat.offset.tolist()
            if copy_it:
                vals[r0, off[c0]:off[c0 + 1]] = vals[src, off[c0]:off[c0 + 1]]
            else:
                vals[r0, off[c0]:off[c0 + 1]] = torch.nan_to_num(vals[src, off[c0]:off[c0 + 1]]) * 0.5 + 1.0
                if rng.random() < 0.2:
                    vals[r0, off[c0] + rng.randrange(off[c0 + 1] - off[c0])] = float('nan')
            return MultiEmbeddingTensor(feat.num_rows, feat.num_cols, vals, feat.offset), copy_it
        out = feat.clone()
        if copy_it:
            out[r0, c0] = feat[src, c0]
        elif s == 'numerical':
            out[r0, c0] = float('nan') if rng.random() < 0.25 else torch.nan_to_num(feat[src, c0], posinf=3.0, neginf=-3.0) * 0.5 + 0.25
        elif s == 'categorical':
            out[r0, c0] = -1 if int(feat[r0, c0]) >= 0 else 0
        else:
            if bool((feat[r0, c0] < 0).any()):
                donors = [r for r in range(feat.shape[0]) if not bool((feat[r, c0] < 0).any())]
                if not donors:
                    return None, False
                out[r0, c0] = feat[donors[0], c0]
            else:
                out[r0, c0] = torch.full((7,), -1, dtype=out.dtype)
        return out, copy_it

    # ------------------------------------------------------------------ model side: the per-cell specification
    def model_requests(self, case):
        return self._req.get(core.stable_hash(case), [])

    def model_outcome(self, case, replies):
        out = {'groups': []}
        for rep in replies:
            if rep.get('construct') != 'ok':
                out['groups'].append({'construct': 'raises'})
                continue
            cells = rep['cells']
            if any(c == 'raises' for row in cells for c in row):
                out['groups'].append({'raises': True})
            else:
                out['groups'].append({'data': G.decode(cells), 'batched': rep['out']})
        return out

    def equal(self, real, model):
        if len(real['groups']) != len(model['groups']):
            return False
        for a, b in zip(real['groups'], model['groups']):
            if a.get('raises') or b.get('raises'):
                if bool(a.get('raises')) != bool(b.get('raises')):
                    return False
                continue
            if 'data' not in b:
                return False
            if a['shape'][0] != len(b['data']) or (a['shape'][0] and a['shape'][1] != len(b['data'][0])):
                return False
            if not G.close_nested(a['data'], b['data'], a['tol']):
                return False
            # the batched model agrees with its own per-cell specification (what per_cell proves)
            bo = b['batched']
            if bo == 'raises' or not G.close_nested(G.decode(bo['data']), b['data'], a['tol']):
                return False
        return True

    def oracle(self, case, real_outcome):
        return self._viol.get(core.stable_hash(case))

    def nontrivial_key(self, case, r):
        if any(g.get('shape') and g['shape'][0] * g['shape'][1] > 0 for g in r['groups']):
            return core.stable_hash(case)
        return None

    def classify(self, case, r):
        def bucket(v):
            for t in (16385, 4097, 2049, 1025, 513, 257, 129, 65, 33, 17):
                if v >= t:
                    return f'{t}+'
            return str(v)
        labs = [f"rows:{bucket(case['nrows'])}", f"eval-rows:{case.get('eval_nrows', 0)}", f"ch:{bucket(case['ch'])}"]
        if case['nrows'] >= 17:
            labs.append(f"scale:rows:{bucket(case['nrows'])}")
        if case['ch'] >= 17:
            labs.append(f"scale:channels:{bucket(case['ch'])}")
        per = {}
        for c in case['cols']:
            per[c['stype']] = per.get(c['stype'], 0) + 1
            if c['stype'] in ('categorical', 'multicategorical'):
                voc = {t for v in c['values'] if v for t in (v.split(',') if c['stype'] == 'multicategorical' else [v])}
                if len(voc) >= 17:
                    labs.append(f"scale:categories:{c['stype']}:{bucket(len(voc))}")
                if voc & (set(G.SPECIAL_CATS) - {'a'}):
                    labs.append('values:sentinel-like-categories')
                if c['stype'] == 'multicategorical' and any(v and v.count(',') >= 16 for v in c['values']):
                    labs.append('scale:cell-length:17+')
            if c['stype'] == 'embedding' and not c.get('via') and len(c['values'][0]) >= 17:
                labs.append(f"scale:embedding-width:{bucket(len(c['values'][0]))}")
            if c['stype'] == 'numerical':
                if any(isinstance(v, float) and v in G.F64_VALUES for v in c['values']):
                    labs.append('dtype:float64-only-values')
                if any(isinstance(v, float) and v in G.EDGE_VALUES for v in c['values']):
                    labs.append('values:edge-magnitudes')
            if c['name'] in G.SPECIAL_NAMES:
                labs.append('values:special-column-names')
        for st, k in per.items():
            if k >= 17:
                labs.append(f'scale:columns:{st}:{bucket(k)}')
        for h in case.get('hist', []):
            labs.append(f'hist:{h}')
        labs += G.family_labels(case, r)
        for c in case.get('eval_cols', []):
            if c['stype'] == 'multicategorical' and c['values'] and c['values'][-1] == '':
                labs.append('ragged:empty-cell:last-row:eval')
        for st, d in (case.get('block_dtype') or {}).items():
            if st in case['enc']:
                labs.append(f'dtype:{st}:{d}')
        for s, e in case['enc'].items():
            labs.append(f"enc:{e['cls']}" + (f":{e['mode']}" if 'mode' in e else '') + f":na={e['na']}")
            labs.append(f"post:{e['post']['t']}")
        for g in r['groups']:
            if g.get('raises'):
                labs.append('ts-out-of-domain')
        for c in case['cols']:
            if any(v is None or (isinstance(v, list) and 'nan' in v) for v in c['values']):
                labs.append(f"has-missing:{c['stype']}")
            if c['stype'] == 'numerical' and any(isinstance(v, str) for v in c['values']):
                labs.append('has-inf')
        for name in r.get('relations', {}):
            labs.append('rel:' + name)
        for c in case.get('eval_cols', []):
            if c['stype'] in ('categorical', 'multicategorical') and any(v and 'UNSEEN' in v for v in c['values']):
                labs.append(f"unseen:{c['stype']}")
        return labs

    # ------------------------------------------------------------------ rejected combinations (complete enumeration)
    # what the documentation of NAStrategy / the encoders allows, written down independently of the Lean model
    DOCUMENTED = {
        'LinearEncoder': ('numerical', {None, 'mean', 'zeros'}),
        'StackEncoder': ('numerical', {None, 'mean', 'zeros'}),
        'LinearBucketEncoder': ('numerical', {None, 'mean', 'zeros'}),
        'LinearPeriodicEncoder': ('numerical', {None, 'mean', 'zeros'}),
        'ExcelFormerEncoder': ('numerical', {None, 'mean', 'zeros'}),
        'EmbeddingEncoder': ('categorical', {None, 'most_frequent'}),
        'MultiCategoricalEmbeddingEncoder': ('multicategorical', {None, 'zeros'}),
        'TimestampEncoder': ('timestamp', {None, 'oldest_timestamp', 'newest_timestamp', 'median_timestamp'}),
        'LinearEmbeddingEncoder': ('embedding', {None}),
    }

    def extra_checks(self, rng, tier, report):
        """every (parameterised class, stype, strategy) triple: constructed on the real code (directly with the
        statistics of that stype, and through StypeWiseFeatureEncoder), compared with the documented table and
        with the model's table"""
        from harness.tabs import encoder as tab
        t = tab.compute()
        cls_names, st_names, na_names = t['classNames'], t['stypeNames'], [None] + t['naNames']
        direct, wise = set(map(tuple, t['directAccepted'])), set(map(tuple, t['wiseAccepted']))
        n_triples = n_bad_rejected = 0
        reqs, keys = [], []
        for ci, cn in enumerate(cls_names):
            if cn not in self.DOCUMENTED:
                if cn != 'LinearModelEncoder':
                    report['broken'].append(f'rejected-combinations: unknown encoder class {cn} in the live package')
                continue
            doc_st, doc_na = self.DOCUMENTED[cn]
            if [st_names[i] for i in t['supported'][ci]] != [doc_st]:
                report['violations'].append(core.Violation(
                    f'C13/supported-stypes/{cn}', f'{cn}.supported_stypes is {[st_names[i] for i in t["supported"][ci]]}, '
                    f'documented: [{doc_st}]', {'kind': 'table', 'cls': cn}, [doc_st], [st_names[i] for i in t['supported'][ci]]))
            for si, sn in enumerate(st_names):
                for ni, na in enumerate(na_names):
                    n_triples += 1
                    want = sn == doc_st and na in doc_na
                    got_wise = (ci, si, ni) in wise
                    got_direct = (ci, si, ni) in direct if si in t['supported'][ci] else None
                    for how, got in (('StypeWiseFeatureEncoder', got_wise), ('direct construction', got_direct)):
                        if got is None or got == want:
                            continue
                        if not want:
                            n_bad_rejected += 1
                        report['violations'].append(core.Violation(
                            f'C13/combination/{cn}/{sn}/{na}',
                            f'{cn} x stype {sn} x na_strategy {na}: {how} ' + ('accepts' if got else 'rejects') +
                            ' it; the documentation says it must be ' + ('accepted' if want else 'rejected at construction'),
                            {'kind': 'table', 'cls': cn, 'stype': sn, 'na': na, 'how': how},
                            'accepted' if want else 'raises', 'accepted' if got else 'raises'))
                    reqs.append({'cmd': 'accept', 'cls': ci, 'stype': sn, 'na': na})
                    keys.append((cn, sn, na, want))
        bad_model = 0
        try:
            reps = core.Driver(self.driver).ask(reqs)
            for (cn, sn, na, want), rep in zip(keys, reps):
                if bool(rep['supported'] and rep['direct']) != want or bool(rep['wise']) != want:
                    bad_model += 1
                    report['broken'].append(f'rejected-combinations: model table says {rep} for {cn} x {sn} x {na}, '
                                            f'documented {"accept" if want else "reject"}')
        except Exception as ex:      # noqa
            report['broken'].append(f'rejected-combinations: driver unavailable ({ex})')
        report['extra']['rejected_combinations'] = {
            'triples': n_triples, 'exhaustive': True, 'classes': len(self.DOCUMENTED),
            'documented_accepted': sum(len(v[1]) for v in self.DOCUMENTED.values()),
            'code_vs_documentation_disagreements': len([v for v in report['violations'] if v.key.startswith('C13/combination')]),
            'model_vs_documentation_disagreements': bad_model}


CHECK = C13()

"""C05 - ragged containers: every selection equals the same selection on nested lists."""
from harness import core, ragged


class C05(core.Check):
    pid = 'C05'
    driver = 'drv_ragged'
    quick_cases = 12000
    thorough_cases = 120000
    rule = ('random containers (0-6 rows x 0-5 cols, cell lengths 0-4 incl. all-empty, int and float payload) x '
            'programs of 1-6 selections from the IndexSelectType grammar (int/slice/list/range/tensor/mask, both axes, '
            'tuples, single cells, ~12% deliberately illegal); a case is non-trivial when at least one step returns a '
            'container with >=1 cell; distinct = distinct (container, program) hash')
    partial_notes = ('"no selection modifies its source" is checked on the real objects (snapshot before/after), '
                     'the functional Lean model cannot express aliasing',)

    def generate(self, rng, n, tier):
        for _ in range(n):
            spec = ragged.gen_cells(rng, rng.choice(['mnt', 'met']))
            payload = rng.choice(['int', 'float'])
            yield {'spec': spec, 'payload': payload, 'ops': ragged.gen_ops(rng, spec['R'], spec['C'])}

    def real(self, case):
        outs, _, findings = ragged.run_real_program(case['spec'], case['payload'], case['ops'])
        self._findings = findings
        return outs

    def model_requests(self, case):
        ops = []
        for op in case['ops']:
            if op['op'] == 'sel':
                ops.append({'op': 'sel', 'ix': ragged.model_index(op['ix']), 'dim': op['dim']})
            elif op['op'] == 'sel2':
                ops.append({'op': 'sel2', 'ix0': ragged.model_index(op['ix0']), 'ix1': ragged.model_index(op['ix1'])})
            else:
                ops.append(op)
        return [{'cmd': 'prog', 'kind': case['spec']['kind'], 'base': ragged.canonical_repr(case['spec']), 'ops': ops}]

    def model_outcome(self, case, replies):
        return replies[0]

    def oracle(self, case, real_outcome):
        if self._findings:
            k, what, exp, got = self._findings[0]
            op = case['ops'][k]
            kind = case['spec']['kind']
            key = f'{kind}/{op["op"]}/{what}'
            return core.Violation(key, f'{kind} step {k} ({op}): {what}', case, exp, got)
        return None

    def nontrivial_key(self, case, outs):
        for o in outs:
            if isinstance(o, dict) and isinstance(o['ok'], dict) and o['ok']['R'] * o['ok']['C'] > 0:
                return core.stable_hash(case)
        return None

    def classify(self, case, outs):
        labs = [f"kind:{case['spec']['kind']}", f"payload:{case['payload']}",
                f"rows:{case['spec']['R']}", f"cols:{case['spec']['C']}", f"steps:{len(case['ops'])}"]
        for op, o in zip(case['ops'], outs):
            if o is None:
                continue
            res = 'raises' if o == 'raises' else 'ok'
            if op['op'] == 'sel':
                labs.append(f"sel:{op['ix']['t']}/{op['ix'].get('as', '')}:dim{op['dim']}:{res}")
            else:
                labs.append(f"{op['op']}:{res}")
            if isinstance(o, dict) and isinstance(o['ok'], dict) and o['ok']['R'] * o['ok']['C'] == 0:
                labs.append('passes-through-empty')
        return labs

    def extra_checks(self, rng, tier, report):
        """exhaustive slice box (thorough: bounds -9..9 u {None}; quick: -4..4), both kinds, both axes"""
        import itertools
        B = 9 if tier == 'thorough' else 3
        sizes = range(0, 6) if tier == 'thorough' else range(0, 4)
        bounds = [None] + list(range(-B, B + 1))
        steps = [None, -1, 0, 1, 2, 3]
        reqs, expect, metas = [], [], []
        for kind in ('mnt', 'met'):
            for n in sizes:
                for dim in (0, 1):
                    R, C = (n, 2) if dim == 0 else (2, n)
                    spec = ragged.gen_cells(rng, kind, R, C)
                    base = ragged.canonical_repr(spec)
                    for a, b, s in itertools.product(bounds, bounds, steps):
                        ix = {'t': 'slice', 'a': a, 'b': b, 's': s}
                        op = {'op': 'sel', 'ix': ix, 'dim': dim, 'via': 'select'}
                        outs, _, findings = ragged.run_real_program(spec, 'int', [op])
                        if findings:
                            k, what, exp, got = findings[0]
                            report['violations'].append(core.Violation(
                                f'{kind}/slice-box/{what}', f'{kind} slice {a}:{b}:{s} dim {dim} size {n}: {what}',
                                {'spec': spec, 'payload': 'int', 'ops': [op]}, exp, got))
                        reqs.append({'cmd': 'prog', 'kind': kind, 'base': base,
                                     'ops': [{'op': 'sel', 'ix': ix, 'dim': dim}]})
                        expect.append(outs)
                        metas.append((spec, op))
        bad = 0
        try:
            replies = core.Driver(self.driver).ask(reqs)
            for rep, exp, (spec, op) in zip(replies, expect, metas):
                if rep != exp:
                    bad += 1
                    if bad <= 3:
                        report['broken'].append(f'correspondence (slice box): model {rep} vs code {exp} on {op}')
                        report.setdefault('disagree_samples', []).append(
                            {'case': {'spec': spec, 'payload': 'int', 'ops': [op]}, 'real': exp, 'model': rep})
        except Exception as e:
            report['broken'].append(f'slice box: driver unavailable ({e})')
        # _batched_arange: real helper vs its docstring model vs the literal transcription
        import torch
        from torch_frame.data.multi_tensor import _batched_arange
        counts = [[rng.choice([0, 0, 1, 2, 3, 5]) for _ in range(rng.randint(0, 7))] for _ in range(300)]
        try:
            reps = core.Driver(self.driver).ask([{'cmd': 'ba', 'count': c} for c in counts])
            nbad = 0
            for c, rep in zip(counts, reps):
                b, a = _batched_arange(torch.tensor(c, dtype=torch.long))
                if not rep['agree'] or rep['batch'] != b.tolist() or rep['arange'] != a.tolist():
                    nbad += 1
                    report['broken'].append(f'correspondence (_batched_arange): count={c} model={rep} code={(b.tolist(), a.tolist())}')
            report['extra']['batched_arange'] = {'cases': len(counts), 'disagreements': nbad}
        except Exception as e:
            report['broken'].append(f'_batched_arange comparison unavailable ({e})')
        report['extra']['slice_box'] = {'cases': len(reqs), 'bounds': f'-{B}..{B} and None', 'steps': str(steps),
                                        'sizes': str(list(sizes)), 'exhaustive': True, 'disagreements': bad}


CHECK = C05()

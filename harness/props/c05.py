"""C05 - ragged containers: every selection equals the same selection on nested lists."""
from harness import core, ragged, stress


class C05(core.Check):
    pid = 'C05'
    driver = 'drv_ragged'
    quick_cases = 12000
    thorough_cases = 120000
    rule = ('random containers (0-6 rows x 0-5 cols, cell lengths 0-4 incl. all-empty; payload int64 / int32 / float32 / '
            'float64 with sentinel look-alikes and edge magnitudes (-1.0, -0.0, +-inf, 2^24+2, float64-only values) in 30% '
            'of them; storage optionally handed over as non-contiguous views) x programs of 1-6 selections from the '
            'IndexSelectType grammar (int/slice/list/range/int64 or int32 tensor/mask, both axes, tuples, single cells, '
            '~12% deliberately illegal); aliasing family: the SAME index tensor object on both axes of m[idx, idx] / in '
            'several steps (axes of different size), the caller\'s tensor compared with its content afterwards; scale '
            'family (per run: 80 / 150 / 500 containers + 6 / 16 / 30 heavy ones at stress level 0 / 1 / 2): rows, columns, cell length and column '
            'width from the stress ladder (<= 259 / 4 099 / 4 099), plus `heavy` containers in which ONE gather moves '
            '>= 16 385 / 32 769 (thorough: 65 537) values - always with empty cells, all-empty rows (leading / interior / '
            'consecutive / trailing) and zero-width columns; long structured index lists (runs, reversed, strides, '
            'constants, sorted with duplicates, permutations; interior entries disturbed; negative spellings), long masks; '
            'spelling family: every single-axis selection is issued through one of the public spellings of the same '
            'operation - __getitem__ (m[i], m[i, :], m[:, j]), select, index_select (index tensors), narrow (plain '
            'slices) - with the axis written 0 / 1 or -3 / -2 and the arguments positional or by keyword; direct '
            'narrow(dim, start, length) calls inside their contract (0 <= start, start + length <= size) with lengths '
            'around the OTHER axis\' size, this axis\' size, 0, 1 and starts 0 / flush with the end / anywhere (12% of the '
            'steps), plus an exhaustive spelling box (all spellings x all aliases x every in-contract (start, length) x '
            'a fixed index set on every shape 0..4 x 0..4, thorough 0..5); the caller\'s ONE mutable list object refilled '
            'and re-used as index (also: used for another selection of the same length on the same container just before); '
            'row / column counts asked through size(0/-3/1/-2), len, shape must agree; tall family (6 / 30 / 80 cases, '
            'direct oracle only, vectorised with numpy): 2^17+1 .. 2^17+1001 (level 1: 2^18, thorough: up to 2^20) rows - '
            'or columns - i.e. beyond the shared size ladder, every value encoding its own (cell, position), gathers along '
            'the small axis (lists / tensors / ranges / masks / stepped slices), symbolic long indices (permutations, '
            'runs, reversed, strides, sorted, random, masks; negative spellings; int32) on the huge axis, chains of 1-3; '
            'a case is non-trivial when at least one step returns a container with >=1 cell; distinct = distinct '
            '(container, program) hash')
    partial_notes = ('"no selection modifies its source" (and: does not modify the index tensor it is given) is checked on '
                     'the real objects (snapshot before/after), the functional Lean model cannot express aliasing',
                     'the model has ONE spelling of a selection (index expression, axis 0/1): the public spellings (select / '
                     'index_select / narrow / __getitem__, negative axis aliases, keyword arguments) are tied to it by the '
                     'correspondence and judged by the direct oracle',
                     'containers with more than 2^17 rows / columns (tall family) and with 16 385 .. 65 539 rows (huge) are '
                     'judged by the direct oracle only (too large for the model driver)')
    N_SCALE = {0: 80, 1: 150, 2: 500}
    N_HEAVY = {0: 6, 1: 16, 2: 30}
    N_HUGE = {0: 0, 1: 0, 2: 4}      # 16 385 .. 65 539 rows: judged by the direct oracle only (too large for the model driver)
    N_TALL = {0: 6, 1: 30, 2: 80}    # 2^17+1 .. 2^20+1001 rows or columns: vectorised direct oracle only (ragged.run_tall)

    def generate(self, rng, n, tier):
        lv = self.level
        n_heavy, n_scale = min(self.N_HEAVY[lv], n // 4), min(self.N_SCALE[lv], n // 2)
        n_tall = min(self.N_TALL[lv], n // 4)
        for i in range(n):
            if i >= n - n_tall:
                yield ragged.gen_tall_case(rng, lv)
                continue
            payload = rng.choice(['int', 'float', 'int', 'float', 'int32', 'float64'])
            kind = rng.choice(['mnt', 'met'])
            if i < self.N_HUGE[lv]:
                spec = ragged.gen_cells_scaled(rng, kind, lv, payload, 'tall',
                                               R=rng.choice(stress.LADDER_BIG) + rng.choice([0, 1, 2]))
                yield {'spec': spec, 'payload': payload, 'fam': 'huge', 'oracle_only': True,
                       'ops': ragged.gen_ops(rng, spec['R'], spec['C'], 2, level=lv, big=True)}
            elif i < n_heavy:
                spec = ragged.gen_cells_scaled(rng, kind, lv, payload, 'heavy')
                yield {'spec': spec, 'payload': payload, 'ops': self.heavy_ops(rng, spec), 'fam': 'heavy'}
            elif i < n_heavy + n_scale:
                spec = ragged.gen_cells_scaled(rng, kind, lv, payload,
                                               rng.choice([s for s in ragged.SHAPES[kind] if s != 'heavy']))
                yield {'spec': spec, 'payload': payload, 'fam': 'scale',
                       'ops': ragged.fit_program(lambda: ragged.gen_ops(rng, spec['R'], spec['C'], 3, level=lv, big=True),
                                                 spec['cells'], spec['C'], ragged.BUDGET[lv])}
            elif rng.random() < .04:
                spec = ragged.gen_cells(rng, kind, rng.choice([1, 2, 3, 4, 5, 6]), rng.choice([1, 2, 3, 4, 5, 7]), payload)
                yield {'spec': spec, 'payload': payload, 'ops': ragged.gen_alias_ops(rng, spec['R'], spec['C']),
                       'fam': 'alias'}
            else:
                spec = ragged.gen_cells(rng, kind, payload=payload)
                yield {'spec': spec, 'payload': payload, 'ops': ragged.gen_ops(rng, spec['R'], spec['C'])}

    def heavy_ops(self, rng, spec):
        """the first step is a gather (index list / tensor / mask / stepped slice over the rows, or a column selection
        that is not the identity) that moves >= 16 385 values; 0-2 further random steps follow"""
        R, C = spec['R'], spec['C']
        cells = spec['cells']
        for _ in range(60):
            if spec['kind'] == 'met' or rng.random() < .5:
                ix = ragged.gen_index(rng, C, allow_bad=False)
                first = ragged.spell(rng, {'op': 'sel', 'ix': ix, 'dim': 1})
                gathers = not (ix['t'] == 'slice' and ix['s'] in (None, 1) and spec['kind'] == 'met') and \
                    ragged.py_select(list(range(C)), ix) != list(range(C))
            else:
                ix = ragged.gen_big_index(rng, R, self.level, allow_bad=False, max_len=R + 2)
                first = ragged.spell(rng, {'op': 'sel', 'ix': ix, 'dim': 0})
                gathers = ix['t'] in ('list', 'mask') or (ix['t'] == 'slice' and (ix['s'] or 1) > 1)
            ref, ncols = ragged.ref_apply(cells, C, first)
            moved = sum(len(c) for c in ref[0]) if spec['kind'] == 'met' and ref else sum(len(c) for row in ref for c in row)
            total = sum(len(c) for row in ref for c in row)
            if gathers and moved >= 16385 and total <= ragged.BUDGET[self.level]:
                break
        else:
            first = {'op': 'sel', 'ix': {'t': 'int', 'i': 0}, 'dim': 1, 'via': 'select'}      # the heavy column itself
            ref, ncols = ragged.ref_apply(cells, C, first)
        r, c = len(ref), ncols
        if rng.random() < .6:
            more = ragged.fit_program(lambda: ragged.gen_ops(rng, r, c, 2, allow_bad=False, level=self.level, big=True,
                                                             heavy=True), ref, c, ragged.BUDGET[self.level])
        else:
            more = []
        return [first] + more

    def _key(self, case):
        """hash of a case (memoised for the case object handled last: real and oracle are called back to back)"""
        if getattr(self, '_last', (None, None))[0] is not case:
            self._last = (case, core.stable_hash(case))
        return self._last[1]

    def real(self, case):
        try:
            if case.get('fam') == 'tall':
                outs, findings = ragged.run_tall(case)
            else:
                outs, _, findings = ragged.run_real_program(case['spec'], case['payload'], case['ops'])
        except Exception as e:     # a library that hands back unreadable objects must yield a finding, not a crash
            outs, findings = [f'unreadable:{type(e).__name__}'], [(0, 'reading a result raises unexpectedly', None, None)]
        # findings of the direct oracle are produced while the real code runs; they are remembered per case so that
        # `oracle(case, outcome)` is a function of the case (the engine calls it again when it builds the verdict)
        self.__dict__.setdefault('_fcache', {})[self._key(case)] = findings
        return outs

    def model_requests(self, case):
        if case.get('oracle_only'):
            return []
        ops = []
        for op in case['ops']:
            if op['op'] == 'sel':
                ops.append({'op': 'sel', 'ix': ragged.model_index(op['ix']), 'dim': op['dim']})
            elif op['op'] == 'sel2':
                ops.append({'op': 'sel2', 'ix0': ragged.model_index(op['ix0']), 'ix1': ragged.model_index(op['ix1'])})
            else:
                ops.append(op)
        return [{'cmd': 'prog', 'kind': case['spec']['kind'], 'base': ragged.canonical_repr(case['spec']), 'ops': ops}]

    def model_outcome(self, case, replies):
        if case.get('oracle_only'):
            return core.SKIP_MODEL
        return replies[0]

    def oracle(self, case, real_outcome):
        h = self._key(case)
        if h not in self.__dict__.setdefault('_fcache', {}):
            self.real(case)
        findings = self._fcache[h]
        if findings:
            k, what, exp, got = findings[0]
            op = case['ops'][k]
            kind = case['tall']['kind'] if case.get('fam') == 'tall' else case['spec']['kind']
            key = f'{kind}/{op["op"]}/{what}'
            return core.Violation(key, f'{kind} step {k} ({op}): {what}', case, exp, got)
        return None

    def nontrivial_key(self, case, outs):
        for o in outs:
            if isinstance(o, dict) and isinstance(o['ok'], dict) and o['ok']['R'] * o['ok']['C'] > 0:
                return core.stable_hash(case)
        return None

    @staticmethod
    def spelling_labels(op):
        labs = [f"via:{op.get('via')}"]
        if op.get('via') == 'method':
            ix = op['ix']
            meth = 'index_select' if ix['t'] == 'mask' or ix.get('as') == 'tensor' or (ix['t'] == 'sym' and ix.get('as', 'tensor') == 'tensor') \
                else 'narrow' if ix['t'] == 'slice' and ix['s'] in (None, 1) else 'select'
            labs.append(f"spelling:{meth}:dim={op['dim'] - 3 if op.get('neg') else op['dim']}:{'keyword' if op.get('kw') else 'positional'}")
            if ix.get('nar'):
                labs.append('spelling:narrow-direct(start,length)')
                if ix['a'] == 0:
                    labs.append('spelling:narrow-direct:start=0')
        elif op.get('via') == 'select':
            labs.append(f"spelling:select:dim={op['dim'] - 3 if op.get('neg') else op['dim']}:{'keyword' if op.get('kw') else 'positional'}")
        elif op.get('full'):
            labs.append('spelling:getitem[i, :]')
        if 'buf' in op['ix']:
            labs.append('alias:list-buffer-reused' + ('+refilled-between-two-selections' if 'prebuf' in op else ''))
        return labs

    def classify(self, case, outs):
        if case.get('fam') == 'tall':
            t = case['tall']
            labs = ['fam:tall', f"kind:{t['kind']}", f"payload:{t['payload']}", 'scale:rows>=131073(oracle-only)' if t['R'] > t['C']
                    else 'scale:cols>=131073(oracle-only)', f"steps:{len(case['ops'])}"]
            for sz in (2 ** 20, 2 ** 19, 2 ** 18, 2 ** 17):
                if max(t['R'], t['C']) > sz:
                    labs.append(f'scale:tall-axis>2^{sz.bit_length() - 1}')
                    break
            for op, o in zip(case['ops'], outs):
                ix = op['ix']
                labs.append(f"tall-sel:{ix['t']}/{ix.get('pat', ix.get('as', ''))}:{'huge' if ix['t'] == 'sym' or (op['dim'] == 0) == (t['R'] > t['C']) else 'small'}-axis:"
                            f"{'raises' if o == 'raises' else 'ok'}")
                labs += self.spelling_labels(op)
            return sorted(set(labs))
        spec = case['spec']
        big = lambda x: str(x) if x <= 7 else '8..16' if x <= 16 else '17..256' if x <= 256 else '257..4096' if x <= 4096 else '4097+'
        labs = [f"kind:{spec['kind']}", f"payload:{case['payload']}",
                f"rows:{big(spec['R'])}", f"cols:{big(spec['C'])}", f"steps:{len(case['ops'])}"]
        if case.get('fam'):
            labs.append(f"fam:{case['fam']}" + (f":{spec['shape']}" if 'shape' in spec else ''))
        if spec.get('special'):
            labs.append('values:special-pool')
        if spec.get('storage'):
            labs.append('storage:strided-views')
        if spec['R'] >= 257:
            labs.append('scale:rows>=257' if spec['R'] < 16385 else 'scale:rows>=16385(oracle-only)')
        if spec['C'] >= 257:
            labs.append('scale:cols>=257')
        if any(len(c) >= 257 for row in spec['cells'] for c in row):
            labs.append('scale:cell-or-width>=257')
        seen = {}
        if any(op.get('twice') for op in case['ops']):
            labs.append('history:selection-issued-twice')
        for op in case['ops']:
            for ix in ([op['ix']] if op['op'] == 'sel' else [op['ix0'], op['ix1']] if op['op'] == 'sel2' else []):
                if ix.get('dt'):
                    labs.append('dtype:index-int32')
                if ix.get('view'):
                    labs.append('alias:index-is-a-view')
                if ix.get('pat'):
                    labs.append(f"index-pattern:{'disturbed' if 'disturbed' in ix['pat'] else 'regular'}")
                n = len(ix.get('is', ix.get('bs', [])))
                if n >= 64:
                    labs.append('scale:index-length>=64' if n < 1025 else 'scale:index-length>=1025')
                if 'share' in ix:
                    seen[ix['share']] = seen.get(ix['share'], 0) + 1
        if any(v >= 2 for v in seen.values()):
            labs.append('alias:index-reused')
        for op, o in zip(case['ops'], outs):
            if o is None:
                continue
            res = 'raises' if o == 'raises' else 'ok'
            if op['op'] == 'sel':
                labs.append(f"sel:{op['ix']['t']}/{op['ix'].get('as', '')}:dim{op['dim']}:{res}")
                labs += self.spelling_labels(op)
            else:
                labs.append(f"{op['op']}:{res}")
            if isinstance(o, dict) and isinstance(o['ok'], dict):
                if o['ok']['R'] * o['ok']['C'] == 0:
                    labs.append('passes-through-empty')
                if o['ok']['values'] != 'bad-ndim':
                    nv = len(o['ok']['values']) if spec['kind'] == 'mnt' else o['ok'].get('W', 0)
                    for t in (32769, 16385, 1025):
                        if nv >= t:
                            labs.append(f'scale:gathered-values>={t}')
                            break
        return sorted(set(labs)) if case.get('fam') in ('heavy', 'scale', 'huge') else labs

    def extra_checks(self, rng, tier, report):
        """exhaustive slice box (thorough: bounds -9..9 u {None}; quick: -4..4), both kinds, both axes"""
        import itertools
        B = 9 if tier == 'thorough' else 3
        sizes = range(0, 6) if tier == 'thorough' else range(0, 4)
        bounds = [None] + list(range(-B, B + 1))
        steps = [None, -1, 0, 1, 2, 3]
        reqs, expect, metas = [], [], []
        for kind in ('mnt', 'met'):
            for n in sizes:
                for dim in (0, 1):
                    R, C = (n, 2) if dim == 0 else (2, n)
                    spec = ragged.gen_cells(rng, kind, R, C)
                    base = ragged.canonical_repr(spec)
                    for a, b, s in itertools.product(bounds, bounds, steps):
                        ix = {'t': 'slice', 'a': a, 'b': b, 's': s}
                        op = {'op': 'sel', 'ix': ix, 'dim': dim, 'via': 'select'}
                        outs, _, findings = ragged.run_real_program(spec, 'int', [op])
                        if findings:
                            k, what, exp, got = findings[0]
                            report['violations'].append(core.Violation(
                                f'{kind}/slice-box/{what}', f'{kind} slice {a}:{b}:{s} dim {dim} size {n}: {what}',
                                {'spec': spec, 'payload': 'int', 'ops': [op]}, exp, got))
                        reqs.append({'cmd': 'prog', 'kind': kind, 'base': base,
                                     'ops': [{'op': 'sel', 'ix': ix, 'dim': dim}]})
                        expect.append(outs)
                        metas.append((spec, op))
        bad = 0
        try:
            replies = core.Driver(self.driver).ask(reqs)
            for rep, exp, (spec, op) in zip(replies, expect, metas):
                if rep != exp:
                    bad += 1
                    if bad <= 3:
                        report['broken'].append(f'correspondence (slice box): model {rep} vs code {exp} on {op}')
                        report.setdefault('disagree_samples', []).append(
                            {'case': {'spec': spec, 'payload': 'int', 'ops': [op]}, 'real': exp, 'model': rep})
        except Exception as e:
            report['broken'].append(f'slice box: driver unavailable ({e})')
        # exhaustive spelling box: every public spelling (select / index_select / narrow / __getitem__) x every legal way
        # of writing the axis (0, 1, -3, -2) x positional / keyword arguments, for EVERY in-contract narrow (start,
        # length) and a fixed set of index expressions, on every shape 0..N x 0..N (so that start / length pass the
        # OTHER axis' size in both directions); judged by the direct oracle (the model has one spelling)
        N = 5 if tier == 'thorough' else 4
        nsp = 0
        for kind in ('mnt', 'met'):
            for R in range(0, N + 1):
                for C in range(0, N + 1):
                    spec = ragged.gen_cells(rng, kind, R, C)
                    progs = []
                    for dim in (0, 1):
                        n = R if dim == 0 else C
                        ixs = [{'t': 'slice', 'a': a, 'b': a + ln, 's': None, 'nar': True}
                               for a in range(n + 1) for ln in range(n - a + 1)]
                        ixs += [{'t': 'slice', 'a': None, 'b': None, 's': None}, {'t': 'slice', 'a': 1, 'b': n + 3, 's': None},
                                {'t': 'slice', 'a': None, 'b': None, 's': 2}]
                        if n:
                            ixs += [{'t': 'int', 'i': n - 1}, {'t': 'int', 'i': -n},
                                    {'t': 'list', 'is': [n - 1, -n, 0], 'as': 'list'},
                                    {'t': 'list', 'is': [-1, 0, n - 1, -1], 'as': 'tensor'},
                                    {'t': 'list', 'is': list(range(n - 1, -1, -1)), 'as': 'range', 'range': [n - 1, -1, -1]},
                                    {'t': 'mask', 'bs': [i % 2 == 0 for i in range(n)]}]
                        for ix in ixs:
                            for via in (('method',) if ix.get('nar') else ('method', 'select', 'getitem')):
                                for neg in ((False,) if via == 'getitem' else (False, True)):
                                    for kw in ((False,) if via == 'getitem' else (False, True)):
                                        op = {'op': 'sel', 'ix': ix, 'dim': dim, 'via': via}
                                        if neg:
                                            op['neg'] = True
                                        if kw:
                                            op['kw'] = True
                                        progs.append(op)
                    for op in progs:
                        nsp += 1
                        _, _, findings = ragged.run_real_program(spec, 'int', [op])
                        if findings:
                            k, what, exp, got = findings[0]
                            report['violations'].append(core.Violation(
                                f'{kind}/spelling-box/{what}', f'{kind} {R}x{C} {op}: {what}',
                                {'spec': spec, 'payload': 'int', 'ops': [op]}, exp, got))
        report['extra']['spelling_box'] = {'cases': nsp, 'shapes': f'0..{N} x 0..{N}', 'exhaustive': True,
                                           'spellings': 'select / index_select / narrow / __getitem__; dim 0, 1, -3, -2; '
                                                        'positional and keyword; every narrow(start, length) with '
                                                        '0 <= start, start + length <= size'}
        # _batched_arange: real helper vs its docstring model vs the literal transcription
        import torch
        from torch_frame.data.multi_tensor import _batched_arange
        counts = [[rng.choice([0, 0, 1, 2, 3, 5]) for _ in range(rng.randint(0, 7))] for _ in range(300)]
        # ... and at scale: many segments, long segments, totals just above 16 384 / 32 768 (thorough: 65 536), with
        # zero-length segments leading, in the interior (also consecutive) and trailing
        from harness import stress
        for _ in range({0: 6, 1: 16, 2: 30}[self.level]):
            total = ragged.heavy_total(rng, self.level) if rng.random() < .6 else stress.pick_size(rng, self.level, 4099)
            k = rng.choice([3, 17, 65, 140, 257])
            cuts = sorted(rng.randint(0, total) for _ in range(k - 1))
            cnt = [b - a for a, b in zip([0] + cuts, cuts + [total])]
            for _ in range(rng.choice([1, 2, 5])):
                j = rng.choice([0, k - 1, rng.randrange(k), rng.randrange(k)])
                for jj in range(j, min(k, j + rng.choice([1, 1, 2, 3]))):
                    cnt[jj] = 0
            cnt[rng.randrange(k)] += total - sum(cnt)
            counts.append(cnt)
        try:
            reps = core.Driver(self.driver).ask([{'cmd': 'ba', 'count': c} for c in counts])
            nbad = 0
            for c, rep in zip(counts, reps):
                b, a = _batched_arange(torch.tensor(c, dtype=torch.long))
                b, a = b.tolist(), a.tolist()
                # the docstring of the helper, literally (independent of the model)
                eb = [i for i, n in enumerate(c) for _ in range(n)]
                ea = [j for n in c for j in range(n)]
                if (b, a) != (eb, ea):
                    report['violations'].append(core.Violation(
                        'mnt/batched-arange/differs from its documented meaning',
                        f'_batched_arange(count) with {len(c)} segments, {sum(c)} elements, zero-length segments at '
                        f'{[i for i, n in enumerate(c) if n == 0][:8]} differs from cat(full)/cat(arange)',
                        {'count': c}, None, None))
                if not rep['agree'] or rep['batch'] != b or rep['arange'] != a:
                    nbad += 1
                    if nbad <= 3:
                        report['broken'].append(f'correspondence (_batched_arange): count={c[:40]} ({len(c)} segments, total {sum(c)}) differs from the model')
            report['extra']['batched_arange'] = {'cases': len(counts), 'disagreements': nbad,
                                                 'largest_total': max(sum(c) for c in counts)}
        except Exception as e:
            report['broken'].append(f'_batched_arange comparison unavailable ({e})')
        report['extra']['slice_box'] = {'cases': len(reqs), 'bounds': f'-{B}..{B} and None', 'steps': str(steps),
                                        'sizes': str(list(sizes)), 'exhaustive': True, 'disagreements': bad}
        report['extra']['observed_outside_generated_domain'] = [
            'index tensors of dtype uint8 / int8 / int16: PyTorch advanced indexing itself rejects int8 / int16 '
            '("tensors used as indices must be long, int, byte or bool") and reads uint8 as a (deprecated) mask, so '
            'x[torch.tensor([2, 0, 1], dtype=torch.uint8)] raises IndexError; only int64 / int32 / bool index tensors '
            'are generated',
            'narrow(dim, start, length) outside torch.narrow\'s contract is not generated: with start > 0 and start + length '
            '> size MultiEmbeddingTensor.narrow returns a container whose num_rows exceeds the rows it stores (e.g. 3x2 '
            'container, narrow(0, 1, 5): num_rows 5, values of 2 rows) and MultiNestedTensor.narrow fails an assert / a '
            'RuntimeError; a negative length returns an empty container; start = 0 with length > size returns the container '
            'itself',
            'dim = -1, 2, -4: IndexError (the ragged third axis / out of range) - not a selection of the property']


CHECK = C05()

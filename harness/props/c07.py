"""C07 - TensorFrame row selection is coherent across all stypes and the target."""
from harness import core, frame, ragged


def columns_agree(spec, cur, new, ix, eref):
    """every column of the selection, looked up by name, agrees with selecting from that column separately"""
    pix = ragged.to_py_index(frame.intlist(ix))
    try:
        for name in frame.all_names(spec):
            f_new, st = new.get_col_feat(name, return_stype=True)
            f_old = cur.get_col_feat(name)
            sep = {kk: v[pix] for kk, v in f_old.items()} if isinstance(f_old, dict) else f_old[pix]
            es, ecol = frame.ref_column(eref, name)
            if (st.value != es or frame.cells_of_featdata(st.value, f_new) != ecol
                    or frame.cells_of_featdata(st.value, sep) != ecol):
                return f'a column of the selection differs from selecting from that column separately'
    except Exception as e:
        return f'column lookup on the selection raises {type(e).__name__}'
    return None


def run_real_program(spec, ops):
    """Run selections / column lookups on the real frame.  Returns (outcomes, findings): the canonical per-step
    outcomes for the model comparison, and direct violations of the property text (independent of the model)."""
    tf = frame.build_real(spec)
    ref = frame.ref_of_spec(spec)
    outs, findings = [], []
    cur = tf
    for k, op in enumerate(ops):
        if cur is None:
            outs.append(None)
            continue
        before = frame.frame_repr(cur)
        if op['op'] == 'col':
            try:
                feat, st = cur.get_col_feat(op['name'], return_stype=True)
                out = {'ok': {'stype': st.value, 'feat': frame.feat_repr(feat)}}
                got = (st.value, frame.cells_of_featdata(st.value, feat))
            except Exception:
                out, got = 'raises', None
            es, ecol = frame.ref_column(ref, op['name']) if ref is not None else (None, None)
            if ref is None:
                pass
            elif (es is None) != (got is None):
                findings.append((k, 'get_col_feat raises for an existing column' if got is None
                                 else 'get_col_feat returns data for an unknown column', es, out))
            elif got is not None and (got[0] != es or got[1] != ecol):
                findings.append((k, 'get_col_feat returns other data than the column', ecol, got[1]))
            outs.append(out)
            continue
        ix = op['ix']
        try:
            new = frame.real_select(cur, ix)
            out = {'ok': frame.frame_repr(new)}
        except Exception:
            new, out = None, 'raises'
        outs.append(out)
        if frame.frame_repr(cur) != before:
            findings.append((k, 'selection modified its source frame', None, None))
        if ref is not None:
            try:
                eref = frame.ref_select(ref, ix)
            except (IndexError, ValueError):
                eref = None
            # a frame without features and target has nothing PyTorch could bounds-check an index list against:
            # the outcome of an out-of-range index list is not specified there (model comparison only)
            if eref is None and not spec['feats'] and spec['y'] is None and (ix['t'] in ('int', 'list')
                                                                               or spec['num_rows'] is None):
                ref = None
            elif (eref is None) != (new is None):
                findings.append((k, 'raises where the list selection is defined' if new is None
                                 else 'returns a frame where Python list indexing raises',
                                 'raises' if eref is None else {'rows': eref['n']}, out))
                ref = None
            elif new is not None:
                bad = frame.compare_to_ref(new, eref)
                if bad is None and not frame.repr_well_formed(out['ok']):
                    bad = 'a ragged feature of the result is not a well-formed container'
                if bad is None:
                    bad = columns_agree(spec, cur, new, ix, eref)
                if bad is not None:
                    findings.append((k, bad, {'rows': eref['n'], 'y': eref['y']}, out))
                ref = eref
        cur = new
    if frame.frame_repr(tf) != frame.frame_repr(frame.build_real(spec)):
        findings.append((len(ops) - 1, 'the program modified the original frame', None, None))
    return outs, findings


class C07(frame.Findings, core.Check):
    pid = 'C07'
    title = 'TensorFrame row selection is coherent across all stypes and the target'
    driver = 'drv_c07'
    quick_cases = 4000
    thorough_cases = 30000
    rule = ('random TensorFrames (0-6 rows; 0-5 of the 9 stypes in random dict order: dense 2-D float/int, dense 3-D, '
            'MultiNestedTensor int/float, MultiEmbeddingTensor, dict-valued text_tokenized; 1-3 columns each; with/without y; '
            'explicit num_rows; feature-less frames) x programs of 1-5 steps: row selections from the IndexSelectType '
            'grammar (int/slice/list/range/index tensor/mask, ~10% illegal) and get_col_feat lookups; non-trivial = at '
            'least one selection returns a frame with >=1 row and >=1 feature; distinct = distinct (frame, program) hash')
    partial_notes = (
        'the theorems are proved for every storage kind satisfying the row-selection refinement FeatSpec; Dense is proved '
        'to satisfy it, MultiNestedTensor/MultiEmbeddingTensor satisfy it by the C05 refinement theorems (tied by the '
        'C05 and this correspondence run on the concrete MNT.select/MET.select dispatch)',
        '"the source frame is left unchanged" is checked on the real objects (representation snapshot before/after every step)',
        'y is modelled as a 1-D tensor; dict-valued features have at least one key',
        'PyTorch does not bounds-check an integer index list against the zero-element dummy tensor of a frame without '
        'features: TensorFrame({}, {}, num_rows=5)[[7]] has length 1 (modelled by dummyLen, excluded from the oracle)',
    )

    def generate(self, rng, n, tier):
        for _ in range(n):
            spec = frame.gen_frame(rng)
            names = frame.all_names(spec)
            ops, rows = [], spec['R']
            for _ in range(rng.randint(1, 5)):
                u = rng.random()
                if u < .2:
                    nm = rng.choice(names) if names and rng.random() < .9 else 'no_such_col'
                    ops.append({'op': 'col', 'name': nm})
                    continue
                ix = frame.gen_index(rng, rows, allow_bad=rng.random() < .8)
                ops.append({'op': 'sel', 'ix': ix})
                k = ragged.py_len(ix, rows)
                if k is None:
                    break
                rows = k
            yield {'frame': spec, 'ops': ops}

    def real(self, case):
        outs, findings = run_real_program(case['frame'], case['ops'])
        self.remember(case, findings)
        return outs

    def model_requests(self, case):
        return [{'cmd': 'prog', 'frame': frame.model_frame(case['frame']), 'ops': frame.model_ops(case['ops'])}]

    def model_outcome(self, case, replies):
        return replies[0]

    def oracle(self, case, real_outcome):
        findings = self.recall(case)
        if findings:
            k, what, exp, got = findings[0]
            op = case['ops'][min(k, len(case['ops']) - 1)]
            return core.Violation(f"frame/{op['op']}/{what}", f'step {k} ({op}): {what}', case, exp, got)
        return None

    def nontrivial_key(self, case, outs):
        for op, o in zip(case['ops'], outs):
            if op['op'] == 'sel' and isinstance(o, dict) and o['ok'].get('len', 0) > 0 and o['ok']['feats']:
                return core.stable_hash(case)
        return None

    def classify(self, case, outs):
        spec = case['frame']
        labs = [f"rows:{spec['R']}", f"stypes:{len(spec['feats'])}", f"y:{'none' if spec['y'] is None else spec['y']['payload']}",
                f"explicit_num_rows:{spec['num_rows'] is not None}", f"steps:{len(case['ops'])}"]
        labs += [f"kind:{ft['kind']}" for ft in spec['feats']]
        if not spec['feats']:
            labs.append('feature-less')
        for op, o in zip(case['ops'], outs):
            if o is None:
                continue
            res = 'raises' if o == 'raises' else 'ok'
            if op['op'] == 'sel':
                labs.append(f"sel:{op['ix']['t']}/{op['ix'].get('as', '')}:{res}")
                if res == 'ok' and o['ok'].get('len') == 0:
                    labs.append('selects-zero-rows')
            else:
                labs.append(f'col:{res}')
        return labs

    def extra_checks(self, rng, tier, report):
        """exhaustive slice box on one frame holding every storage kind: all (start, stop, step) with bounds in
        -B..B u {None}, every size 0..N; code vs model vs Python list slicing"""
        import itertools
        B = 8 if tier == 'thorough' else 3
        sizes = range(0, 6) if tier == 'thorough' else range(0, 4)
        bounds = [None] + list(range(-B, B + 1))
        steps = [None, -1, 0, 1, 2, 3]
        reqs, expect, metas = [], [], []
        for n in sizes:
            spec = {'R': n, 'feats': [frame.gen_feat(rng, s, n, '') for s in
                                      ('numerical', 'timestamp', 'multicategorical', 'embedding', 'text_tokenized')],
                    'y': {'payload': 'float', 'vals': list(range(n))}, 'num_rows': n}
            spec['names_order'] = [ft['s'] for ft in spec['feats']]
            mf = frame.model_frame(spec)
            for a, b, s in itertools.product(bounds, bounds, steps):
                op = {'op': 'sel', 'ix': {'t': 'slice', 'a': a, 'b': b, 's': s}}
                outs, findings = run_real_program(spec, [op])
                if findings:
                    k, what, exp, got = findings[0]
                    report['violations'].append(core.Violation(
                        f'frame/slice-box/{what}', f'slice {a}:{b}:{s} on {n} rows: {what}',
                        {'frame': spec, 'ops': [op]}, exp, got))
                reqs.append({'cmd': 'prog', 'frame': mf, 'ops': frame.model_ops([op])})
                expect.append(outs)
                metas.append((spec, op))
        bad = 0
        try:
            replies = core.Driver(self.driver).ask(reqs)
            for rep, exp, (spec, op) in zip(replies, expect, metas):
                if rep != exp:
                    bad += 1
                    if bad <= 3:
                        report['broken'].append(f'correspondence (slice box): model and code differ on {op}')
                        report.setdefault('disagree_samples', []).append(
                            {'case': {'frame': spec, 'ops': [op]}, 'real': exp, 'model': rep})
        except Exception as e:
            report['broken'].append(f'slice box: driver unavailable ({e})')
        report['extra']['slice_box'] = {'cases': len(reqs), 'bounds': f'-{B}..{B} and None', 'steps': str(steps),
                                        'sizes': str(list(sizes)), 'exhaustive': True, 'disagreements': bad}


CHECK = C07()

"""C07 - TensorFrame row selection is coherent across all stypes and the target."""
from harness import core, frame, ragged


def columns_agree(spec, cur, new, ix, eref):
    """every column of the selection, looked up by name, agrees with selecting from that column separately"""
    pix = ragged.to_py_index(frame.intlist(ix))
    try:
        for name in frame.all_names(spec):
            f_new, st = new.get_col_feat(name, return_stype=True)
            f_old = cur.get_col_feat(name)
            sep = {kk: v[pix] for kk, v in f_old.items()} if isinstance(f_old, dict) else f_old[pix]
            es, ecol = frame.ref_column(eref, name)
            if (st.value != es or frame.cells_of_featdata(st.value, f_new) != ecol
                    or frame.cells_of_featdata(st.value, sep) != ecol):
                return f'a column of the selection differs from selecting from that column separately'
    except Exception as e:
        return f'column lookup on the selection raises {type(e).__name__}'
    return None


def run_real_program(spec, ops):
    """Run selections / column lookups on the real frame.  Returns (outcomes, findings): the canonical per-step
    outcomes for the model comparison, and direct violations of the property text (independent of the model)."""
    tf = frame.build_real(spec)
    ref = frame.ref_of_spec(spec)
    outs, findings = [], []
    cur = tf
    shared = {}
    for k, op in enumerate(ops):
        if cur is None:
            outs.append(None)
            continue
        before = frame.frame_repr(cur)
        if op['op'] == 'col':
            try:
                feat, st = cur.get_col_feat(op['name'], return_stype=True)
                out = {'ok': {'stype': st.value, 'feat': frame.feat_repr(feat)}}
                got = (st.value, frame.cells_of_featdata(st.value, feat))
            except Exception:
                out, got = 'raises', None
            es, ecol = frame.ref_column(ref, op['name']) if ref is not None else (None, None)
            if ref is None:
                pass
            elif (es is None) != (got is None):
                findings.append((k, 'get_col_feat raises for an existing column' if got is None
                                 else 'get_col_feat returns data for an unknown column', es, out))
            elif got is not None and (got[0] != es or got[1] != ecol):
                findings.append((k, 'get_col_feat returns other data than the column', ecol, got[1]))
            outs.append(out)
            continue
        ix = op['ix']
        if op.get('prebuf') is not None and ref is not None:
            # history of one mutable index object: the caller's list served another selection (same length, other
            # rows) on this frame just before; to_py_index refills the SAME list object for this step
            pre = dict(ix, **{'is': list(op['prebuf'])})
            try:
                bad = frame.compare_to_ref(cur[ragged.to_py_index(pre, shared)], frame.ref_select(ref, pre))
                if bad is not None:
                    findings.append((k, bad, None, None))
            except Exception as e:
                findings.append((k, f'raises where the list selection is defined ({type(e).__name__})', None, None))
        pyix = ragged.to_py_index(ix, shared)        # the same `share` id = the same tensor object as before
        try:
            new = cur[pyix]
            out = {'ok': frame.frame_repr(new)}
        except Exception:
            new, out = None, 'raises'
        outs.append(out)
        if frame.frame_repr(cur) != before:
            findings.append((k, 'selection modified its source frame', None, None))
        idx_bad = not ragged.index_intact(pyix, ix)
        if ref is not None:
            try:
                eref = frame.ref_select(ref, ix)
            except (IndexError, ValueError):
                eref = None
            # a frame without features and target has nothing PyTorch could bounds-check an index list against:
            # the outcome of an out-of-range index list is not specified there (model comparison only)
            if eref is None and not spec['feats'] and spec['y'] is None and (ix['t'] in ('int', 'list')
                                                                               or spec['num_rows'] is None):
                ref = None
            elif (eref is None) != (new is None):
                findings.append((k, 'raises where the list selection is defined' if new is None
                                 else 'returns a frame where Python list indexing raises',
                                 'raises' if eref is None else {'rows': eref['n']}, out))
                ref = None
            elif new is not None:
                bad = frame.compare_to_ref(new, eref)
                if bad is None and not frame.repr_well_formed(out['ok']):
                    bad = 'a ragged feature of the result is not a well-formed container'
                if bad is None:
                    bad = columns_agree(spec, cur, new, ix, eref)
                if bad is not None:
                    findings.append((k, bad, {'rows': eref['n'], 'y': eref['y'][:50] if eref['y'] else eref['y']}, None))
                ref = eref
        if op.get('twice') and new is not None:
            # history on one object: the same selection once more on the same frame (same index object)
            try:
                again = frame.frame_repr(cur[pyix])
            except Exception:
                again = 'raises'
            if again != out['ok']:
                findings.append((k, 'the same selection issued twice on one frame gives two different results', None, None))
            elif frame.frame_repr(new) != out['ok']:
                findings.append((k, 'a later selection on the same frame changed an earlier result', None, None))
        if idx_bad:
            findings.append((k, "selection modified the caller's index tensor", None, None))
        cur = new
    if frame.frame_repr(tf) != frame.frame_repr(frame.build_real(spec)):
        findings.append((len(ops) - 1, 'the program modified the original frame', None, None))
    return outs, findings


class C07(frame.Findings, core.Check):
    pid = 'C07'
    title = 'TensorFrame row selection is coherent across all stypes and the target'
    driver = 'drv_c07'
    quick_cases = 4000
    thorough_cases = 30000
    rule = ('targets of every legal kind: absent, dense 1-D float / int, ragged MultiNestedTensor (18% of the frames; 1-3 '
            'columns, empty cells, all-empty rows, special values; what Dataset.materialize() produces for a '
            'sequence_numerical target) - frames with a ragged target are judged by the direct oracle only; the caller\'s '
            'ONE mutable list object refilled and re-used as row index (also: used for another selection of the same '
            'length on the same frame just before); hardening families: special values (+-inf, -0.0, 2^24+2, -1.0, integers 2^24+1 / 2^40) and float64 features; dict '
            'features in either key order; index tensors int64 / int32 / non-contiguous views; the SAME index tensor object '
            'in several steps of a chain (caller\'s tensor compared afterwards); scale (60 / 120 / 300 frames at stress level '
            '0 / 1 / 2): rows from the ladder (<= 259 / 4 099) with all-empty ragged rows, long cells / wide embeddings, long '
            'structured index lists (runs, reversed, strides, constants, sorted-with-duplicates, permutations, interior '
            'disturbed, negative spellings) and masks; heavy frames (5 / 12 / 24) in which one row gather moves >= 16 385 / '
            '32 769 values of a ragged feature; base: '
            'random TensorFrames (0-6 rows; 0-5 of the 9 stypes in random dict order: dense 2-D float/int, dense 3-D, '
            'MultiNestedTensor int/float, MultiEmbeddingTensor, dict-valued text_tokenized; 1-3 columns each; with/without y; '
            'explicit num_rows; feature-less frames) x programs of 1-5 steps: row selections from the IndexSelectType '
            'grammar (int/slice/list/range/index tensor/mask, ~10% illegal) and get_col_feat lookups; non-trivial = at '
            'least one selection returns a frame with >=1 row and >=1 feature; distinct = distinct (frame, program) hash')
    partial_notes = (
        'the theorems are proved for every storage kind satisfying the row-selection refinement FeatSpec; Dense is proved '
        'to satisfy it, MultiNestedTensor/MultiEmbeddingTensor satisfy it by the C05 refinement theorems (tied by the '
        'C05 and this correspondence run on the concrete MNT.select/MET.select dispatch)',
        '"the source frame is left unchanged" is checked on the real objects (representation snapshot before/after every step)',
        'y is modelled as a 1-D tensor; dict-valued features have at least one key; a ragged (MultiNestedTensor) target '
        'cannot be expressed in the model: such frames are judged by the direct oracle only (nested-list reference of the '
        'target rows, counted as oracle_only_cases)',
        'PyTorch does not bounds-check an integer index list against the zero-element dummy tensor of a frame without '
        'features: TensorFrame({}, {}, num_rows=5)[[7]] has length 1 (modelled by dummyLen, excluded from the oracle)',
    )

    N_SCALE = {0: 60, 1: 120, 2: 300}
    N_HEAVY = {0: 5, 1: 12, 2: 24}
    N_HUGE = {0: 0, 1: 0, 2: 3}      # 16 385 .. 65 539 rows: judged by the direct oracle only

    def gen_program(self, rng, spec, kmax=5, big=False, first_gathers=False):
        names = frame.all_names(spec)
        ops, rows, pool = [], spec['R'], []
        weights = frame.row_weights(spec) if big else None      # values a row gather moves, per current row
        for step in range(rng.randint(1, kmax)):
            u = rng.random()
            if u < .2 and not (first_gathers and step == 0):
                nm = rng.choice(names) if names and rng.random() < .9 else 'no_such_col'
                ops.append({'op': 'col', 'name': nm})
                continue
            allow_bad = rng.random() < .8
            if big and rows > 12:
                for attempt in range(200):
                    ix = ragged.gen_big_index(rng, rows, self.level, allow_bad and not first_gathers,
                                              max_len=rows + 2 if spec.get('scaled') == 'heavy' else None)
                    try:
                        cost = sum(ragged.py_select(weights, ix))
                    except (IndexError, ValueError):
                        cost = 0
                    if cost > ragged.BUDGET[self.level]:
                        continue            # repeating heavy rows would multiply the values beyond the model driver
                    if not (first_gathers and step == 0) or (ragged.py_len(ix, rows) or 0) * 2 >= rows and (
                            ix['t'] in ('list', 'mask') or (ix['t'] == 'slice' and (ix['s'] or 1) > 1)):
                        break
                else:
                    ix = {'t': 'list', 'is': list(range(rows - 1, -1, -1)), 'as': 'list', 'pat': 'reversed'}
            else:
                ix = frame.gen_index(rng, rows, allow_bad=allow_bad)
            if ix['t'] == 'mask' or ix.get('as') == 'tensor':
                # aliasing family: the same index tensor object in a later step of the chain
                cand = [p for p in pool if ragged._valid_for(p, rows) and
                        (weights is None or sum(ragged.py_select(weights, p)) <= ragged.BUDGET[self.level])]
                if cand and rng.random() < .5:
                    ix = dict(rng.choice(cand))
                elif rng.random() < .6:
                    if ix['t'] == 'list' and rows >= 1 and not big and rng.random() < .5:
                        m = max(1, min(rows, len(ix['is'])))
                        ix['is'] = [rng.randint(-m, m - 1) for _ in ix['is']] or [-1]
                    ix['share'] = len(pool)
                    pool.append(dict(ix))
            ops.append({'op': 'sel', 'ix': ix})
            if rng.random() < .1:
                ops[-1]['twice'] = True
            if ix['t'] == 'list' and ix.get('as') == 'list' and rng.random() < .35:
                # the program's ONE mutable list object, refilled before every use (mini-batch loops re-using a buffer)
                ix['buf'] = 0
                if rows >= 1 and 1 <= len(ix['is']) <= 64 and ragged._valid_for(ix, rows) and rng.random() < .6:
                    ops[-1]['prebuf'] = [rng.randint(-rows, rows - 1) for _ in ix['is']]
            k = ragged.py_len(ix, rows)
            if k is None:
                break
            rows = k
            if weights is not None:
                weights = ragged.py_select(weights, ix)
        return ops

    def generate(self, rng, n, tier):
        lv = self.level
        n_heavy, n_scale = min(self.N_HEAVY[lv], n // 4), min(self.N_SCALE[lv], n // 2)
        for i in range(n):
            if i < self.N_HUGE[lv]:
                from harness import stress
                spec = frame.gen_frame_scaled(rng, lv, 'rows', R=rng.choice(stress.LADDER_BIG) + rng.choice([0, 1, 2]),
                                              pool='full', ragged_y=True)
                yield {'frame': spec, 'ops': self.gen_program(rng, spec, 2, big=True), 'oracle_only': True}
            elif i < n_heavy:
                spec = frame.gen_frame_scaled(rng, lv, 'heavy', pool='full', ragged_y=True)
                yield self.case_of(spec, self.gen_program(rng, spec, 2, big=True, first_gathers=True))
            elif i < n_heavy + n_scale:
                spec = frame.gen_frame_scaled(rng, lv, rng.choice(['rows', 'rows', 'rows', 'longcells', 'cols']), pool='full',
                                              ragged_y=True)
                yield self.case_of(spec, self.gen_program(rng, spec, 3, big=True))
            else:
                spec = frame.gen_frame(rng, pool='full', ragged_y=True)
                yield self.case_of(spec, self.gen_program(rng, spec))

    @staticmethod
    def case_of(spec, ops):
        case = {'frame': spec, 'ops': ops}
        if not frame.model_expressible(spec):
            case['oracle_only'] = True         # ragged target: the model's target is a 1-D tensor
        return case

    def real(self, case):
        outs, findings = run_real_program(case['frame'], case['ops'])
        self.remember(case, findings)
        return outs

    def model_requests(self, case):
        if case.get('oracle_only'):
            return []
        return [{'cmd': 'prog', 'frame': frame.model_frame(case['frame']), 'ops': frame.model_ops(case['ops'])}]

    def model_outcome(self, case, replies):
        if case.get('oracle_only'):
            return core.SKIP_MODEL
        return replies[0]

    def oracle(self, case, real_outcome):
        findings = self.recall(case)
        if findings:
            k, what, exp, got = findings[0]
            op = case['ops'][min(k, len(case['ops']) - 1)]
            import re
            return core.Violation(f"frame/{op['op']}/" + re.sub(r'\d+', 'N', what), f'step {k} ({str(op)[:400]}): {what}',
                                  case, exp, got)
        return None

    def nontrivial_key(self, case, outs):
        for op, o in zip(case['ops'], outs):
            if op['op'] == 'sel' and isinstance(o, dict) and o['ok'].get('len', 0) > 0 and o['ok']['feats']:
                return core.stable_hash(case)
        return None

    def classify(self, case, outs):
        spec = case['frame']
        R = spec['R']
        rows = str(R) if R <= 7 else '8..16' if R <= 16 else '17..256' if R <= 256 else '257..1024' if R <= 1024 else '1025+'
        labs = [f"rows:{rows}", f"stypes:{len(spec['feats'])}", f"y:{'none' if spec['y'] is None else ('ragged-' if frame.ragged_y(spec) else 'dense-') + spec['y']['payload']}",
                f"explicit_num_rows:{spec['num_rows'] is not None}", f"steps:{len(case['ops'])}"]
        labs += [f"kind:{ft['kind']}" for ft in spec['feats']]
        if any(ft['payload'] == 'float64' for ft in spec['feats']):
            labs.append('dtype:float64-feature')
        if spec['num_rows'] is not None and spec['feats']:
            labs.append('explicit-num_rows-with-features')
        if any(ft['kind'] == 'dict' and ft['keys'][0] != 'input_ids' for ft in spec['feats']):
            labs.append('dict:other-key-order')
        if not spec['feats']:
            labs.append('feature-less')
        if frame.ragged_y(spec):
            labs.append('target:ragged(oracle-only)' + (f":cols={spec['y']['C']}" if spec['y']['C'] > 1 else ''))
        if spec.get('scaled'):
            labs.append(f"scale:{spec['scaled']}")
        if R >= 257:
            labs.append('scale:rows>=257' if R < 1025 else 'scale:rows>=1025' if R < 16385 else 'scale:rows>=16385(oracle-only)')
        if any(ft['C'] >= 257 for ft in spec['feats']):
            labs.append('scale:cols>=257')
        seen = {}
        if any(op.get('twice') for op in case['ops']):
            labs.append('history:selection-issued-twice')
        for op, o in zip(case['ops'], outs):
            if o is None:
                continue
            res = 'raises' if o == 'raises' else 'ok'
            if op['op'] == 'sel':
                ix = op['ix']
                labs.append(f"sel:{ix['t']}/{ix.get('as', '')}:{res}")
                if res == 'ok' and o['ok'].get('len') == 0:
                    labs.append('selects-zero-rows')
                if ix.get('dt'):
                    labs.append('dtype:index-int32')
                if ix.get('view'):
                    labs.append('alias:index-is-a-view')
                if ix.get('pat'):
                    labs.append(f"index-pattern:{'disturbed' if 'disturbed' in ix['pat'] else 'regular'}")
                n = len(ix.get('is', ix.get('bs', [])))
                if n >= 64:
                    labs.append('scale:index-length>=64' if n < 1025 else 'scale:index-length>=1025')
                if 'share' in ix:
                    seen[ix['share']] = seen.get(ix['share'], 0) + 1
                if 'buf' in ix:
                    labs.append('alias:list-buffer-reused' + ('+refilled-between-two-selections' if 'prebuf' in op else ''))
                if res == 'ok':
                    nv = max([len(m['values']) for _, f in o['ok'].get('feats', []) for m in
                              ([f] if f['k'] == 'mnt' else [mm for _, mm in f['d']] if f['k'] == 'dict' else [])
                              if m['values'] != 'bad-ndim'] or [0])
                    if nv >= 16385:
                        labs.append('scale:gathered-values>=32769' if nv >= 32769 else 'scale:gathered-values>=16385')
            else:
                labs.append(f'col:{res}')
        if any(v >= 2 for v in seen.values()):
            labs.append('alias:index-reused')
        return labs

    def extra_checks(self, rng, tier, report):
        """exhaustive slice box on one frame holding every storage kind: all (start, stop, step) with bounds in
        -B..B u {None}, every size 0..N; code vs model vs Python list slicing"""
        import itertools
        B = 8 if tier == 'thorough' else 3
        sizes = range(0, 6) if tier == 'thorough' else range(0, 4)
        bounds = [None] + list(range(-B, B + 1))
        steps = [None, -1, 0, 1, 2, 3]
        reqs, expect, metas = [], [], []
        for n in sizes:
            spec = {'R': n, 'feats': [frame.gen_feat(rng, s, n, '') for s in
                                      ('numerical', 'timestamp', 'multicategorical', 'embedding', 'text_tokenized')],
                    'y': {'payload': 'float', 'vals': list(range(n))}, 'num_rows': n}
            spec['names_order'] = [ft['s'] for ft in spec['feats']]
            mf = frame.model_frame(spec)
            for a, b, s in itertools.product(bounds, bounds, steps):
                op = {'op': 'sel', 'ix': {'t': 'slice', 'a': a, 'b': b, 's': s}}
                outs, findings = run_real_program(spec, [op])
                if findings:
                    k, what, exp, got = findings[0]
                    import re
                    report['violations'].append(core.Violation(
                        'frame/slice-box/' + re.sub(r'\d+', 'N', what), f'slice {a}:{b}:{s} on {n} rows: {what}',
                        {'frame': spec, 'ops': [op]}, exp, got))
                reqs.append({'cmd': 'prog', 'frame': mf, 'ops': frame.model_ops([op])})
                expect.append(outs)
                metas.append((spec, op))
        bad = 0
        try:
            replies = core.Driver(self.driver).ask(reqs)
            for rep, exp, (spec, op) in zip(replies, expect, metas):
                if rep != exp:
                    bad += 1
                    if bad <= 3:
                        report['broken'].append(f'correspondence (slice box): model and code differ on {op}')
                        report.setdefault('disagree_samples', []).append(
                            {'case': {'frame': spec, 'ops': [op]}, 'real': exp, 'model': rep})
        except Exception as e:
            report['broken'].append(f'slice box: driver unavailable ({e})')
        report['extra']['slice_box'] = {'cases': len(reqs), 'bounds': f'-{B}..{B} and None', 'steps': str(steps),
                                        'sizes': str(list(sizes)), 'exhaustive': True, 'disagreements': bad}
        report['extra']['observed_outside_generated_domain'] = [
            'index tensors of dtype uint8 / int8 / int16: PyTorch advanced indexing itself rejects int8 / int16 '
            '("tensors used as indices must be long, int, byte or bool") and reads uint8 as a (deprecated) mask, so '
            'x[torch.tensor([2, 0, 1], dtype=torch.uint8)] raises IndexError; only int64 / int32 / bool index tensors '
            'are generated']


CHECK = C07()

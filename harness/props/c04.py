"""C04 - train/inference consistency of the DataFrame-to-TensorFrame converter."""
import copy
import traceback

from harness import core
from harness import matgen as mg
from harness.props import c01, c02

from harness import stress

UNSEEN_STR, UNSEEN_INT, UNSEEN_TOK = 'never-seen', 997, 'unseen-tok'
MAX_MODEL_CALLS = 1100


def call_frame(frame, call):
    """the abstract frame a converter call receives: the listed rows of the source (repeats, any order) with
    unseen categories / tokens injected, optionally without the target column"""
    rows = call['rows']
    cols = []
    inj = {}
    for name, k, val in call.get('inject', []):
        inj.setdefault(name, []).append((k, val))
    for col in frame['cols']:
        if call.get('drop_target') and col['name'] == frame['target']:
            continue
        c2 = dict(col)
        src = col['cells']
        if col['name'] in inj:
            c2['cells'] = [copy.deepcopy(src[i]) for i in rows]
        else:
            c2['cells'] = [src[i] for i in rows]       # (never mutated below)
        cols.append(c2)
    byname = {c['name']: c for c in cols}
    for name, lst in inj.items():
        col = byname.get(name)
        if col is None:
            continue
        for k, val in lst:
            if col['stype'] == 'categorical':
                col['cells'][k] = val
            else:
                cell = col['cells'][k]
                col['cells'][k] = (list(cell) if cell else []) + [val]
    out = {'n': len(rows), 'cols': cols, 'target': None if call.get('drop_target') else frame['target']}
    if frame.get('cfg'):
        out['cfg'] = dict(frame['cfg'], split_col=False)
    return out


def gen_unseen(rng, col, level):
    """(value, family): a value of the column's kind that was NOT seen at materialization, drawn from look-alike
    families: extension of the longest fitted value, proper prefix of a fitted value, other case, trailing NUL,
    sentinel look-alikes, longer than every fitted value (size ladder), surrounding blanks (categorical only)"""
    seen = mg.observed_values(col)
    multi = col['stype'] == 'multicategorical'
    ints = [v for v in seen if isinstance(v, int)]
    if not multi and (ints or col['r']['dtype'] in ('Int64', 'int64', 'Int32', 'int32', 'float64')):
        small = col['r']['dtype'] in ('float64', 'Int32', 'int32')
        cands = [(max(ints) + 1, 'successor'), (min(ints) - 1, 'predecessor'), (-1, 'sentinel'), (UNSEEN_INT, 'plain')] if ints \
            else [(UNSEEN_INT, 'plain'), (-1, 'sentinel')]
        if not small:
            cands += [(2 ** 53 + 1, 'big'), (2 ** 31, 'big'), (-2 ** 40, 'big')]
        rng.shuffle(cands)
        for v, fam in cands:
            if v not in seen:
                return v, fam
        return 10 ** 6 + rng.randint(0, 999), 'plain'
    sep = col['r'].get('sep') if multi else None
    fitted = sorted((v for v in seen if isinstance(v, str)), key=lambda v: (len(v), v))
    longest = fitted[-1] if fitted else 'x'
    some = rng.choice(fitted) if fitted else 'x'
    fams = [('extension-of-longest', longest + rng.choice(['wear', 'x', '2', 'é', '_prev'])),
            ('extension', some + rng.choice(['wear', 'x', '0'])),
            ('prefix', some[:-1]), ('case', some.swapcase()), ('trailing-NUL', some + '\x00'),
            ('sentinel', rng.choice(['-1', 'nan', 'None', '<NA>', 'NaN', '0', '-1.0'])),
            ('longer-than-every-fitted', longest + 'x' * stress.pick_size(rng, level, 4097)),
            ('plain', UNSEEN_TOK if multi else UNSEEN_STR)]
    if not multi:
        fams += [('blank-padded', ' ' + some), ('blank-padded', some + ' '), ('sentinel', '')]
    rng.shuffle(fams)
    for fam, v in fams:
        if v in seen:
            continue
        if multi and (v == '' or v != v.strip() or (sep and sep in v)):
            continue
        return v, fam
    return (UNSEEN_TOK if multi else UNSEEN_STR) + str(rng.randint(0, 999)), 'plain'


def gen_call(rng, frame, level=0, kind=None, size=None):
    n = frame['n']
    kind = kind or rng.choice(['all', 'multiset', 'multiset', 'single', 'perm', 'repeat', 'long'])
    if kind == 'long' and size is None and rng.random() < (0.9 if level < 2 else 0.97):
        kind = 'multiset'           # (most draws stay short; a long one per ~70 calls)
    if kind == 'all':
        rows = list(range(n))
    elif kind == 'single':
        rows = [rng.randrange(n)]
    elif kind == 'perm':
        rows = rng.sample(range(n), n)
    elif kind == 'repeat':
        rows = [rng.randrange(n)] * rng.randint(2, 4)
    elif kind in ('long', 'long-sorted'):
        # far more picks than the source has rows (repetition), shuffled or ascending
        m = size or stress.pick_size(rng, level)
        rows = [rng.randrange(n) for _ in range(m)]
        if kind == 'long-sorted':
            rows.sort()
    else:
        rows = [rng.randrange(n) for _ in range(rng.randint(1, 9))]
    call = {'kind': kind, 'rows': rows, 'drop_target': frame['target'] is not None and rng.random() < 0.3,
            'how': rng.choice(['iloc', 'iloc', 'fresh', 'take']), 'inject': [], 'unseen': []}
    if rng.random() < 0.45:
        p = 0.3 if len(rows) < 50 else 3.0 / len(rows)
        for col in frame['cols']:
            if col['name'] == frame['target'] or col['stype'] not in ('categorical', 'multicategorical'):
                continue
            for k in range(len(rows)):
                if rng.random() < p:
                    v, fam = gen_unseen(rng, col, level)
                    if col['stype'] == 'multicategorical' and col['r'].get('pad') is not None and \
                            not mg.sep_roundtrip(col['r'], list(col['cells'][rows[k]] or []) + [v]):
                        # (under a separator of several characters the extended text must still denote its token list)
                        continue
                    call['inject'].append([col['name'], k, v])
                    call['unseen'].append(fam)
        if call['inject']:
            call['how'] = 'fresh'
    if call['how'] == 'fresh':
        call['labels'] = mg.gen_labels(rng, len(rows), rng.choice(['range', 'dup', 'str', 'offset', 'perm', 'bigint', 'spread']))
        k = len(frame['cols']) - (1 if call['drop_target'] else 0)
        call['dfperm'] = rng.sample(range(k), k)
        call['twin'] = len(rows) <= 64 and rng.random() < 0.3
    return call


def gen_stats_rows(rng, frame):
    """a row multiset of the frame whose statistics are 'previously computed' ones (last week's table, the training part):
    few distinct rows with repeats, so that counts - and with them the frequency ranks - differ from the frame's own; every
    plain embedding column keeps one vector (a column without any has no width)"""
    n = frame['n']
    m = rng.choice([1, 2, 3, max(1, n // 2), n])
    base = [rng.randrange(n) for _ in range(m)]
    rows = [rng.choice(base) for _ in range(rng.randint(m, 2 * m + 1))]
    for col in frame['cols']:
        if col['stype'] == 'embedding' and all(col['cells'][i] is None for i in rows):
            rows.append(next(i for i, c in enumerate(col['cells']) if c is not None))
    return rows


CACHE_FILES = ['missing', 'own', 'foreign']          # state of the cache file before the call under test
CACHE_STATS = ['none', 'own', 'foreign']             # the col_stats argument of the call under test
CACHE_PATHS = ['abs', 'abs', 'pathlib', 'bare', 'rel', 'nested-abs']


def gen_cache(rng, frame):
    """one point of materialize(path=..., col_stats=...) x state of the cache file"""
    return {'file': rng.choice(CACHE_FILES), 'stats': rng.choice(CACHE_STATS), 'rows': gen_stats_rows(rng, frame),
            'shape': rng.choice(CACHE_PATHS), 'again': rng.random() < 0.4}


def run_cache(frame, labels, combo, own_view, own_stats):
    """materialize(path x col_stats) on a fresh Dataset of the frame, the cache file missing / written by a plain
    materialization of the same frame / written under other ('foreign') statistics.  What governs the result: the file when
    it exists (the frame and the statistics stored together), else the supplied statistics, else the frame's own.  Judged
    straight from the text: (a) the dataset's statistics are the governing ones, (b) every cell of the TensorFrame is the
    encoding of the raw cell under them, (c) converting the dataset's own frame reproduces its TensorFrame, (d) a missing
    file is written, reloads equal and serves a later materialization whatever statistics that one is handed, (e) the
    supplied statistics object is not modified.  -> None | (key, message, expected, actual)"""
    import os
    import pathlib
    import shutil
    import tempfile
    import torch_frame
    from torch_frame.data import Dataset

    def fresh():
        df = mg.render(frame, labels)
        c2s, kw, _ = mg.dataset_kwargs(frame)
        return Dataset(df, c2s, **kw)
    tmp = tempfile.mkdtemp(prefix='c04cache_')
    cwd = os.getcwd()
    try:
        shape = combo['shape']
        real_path = os.path.join(tmp, 'cache.pt')
        if shape == 'nested-abs':
            os.makedirs(os.path.join(tmp, 'a', 'b c'))
            real_path = os.path.join(tmp, 'a', 'b c', 'cache.v1.pt')
        elif shape == 'rel':
            os.makedirs(os.path.join(tmp, 'sub'))
            real_path = os.path.join(tmp, 'sub', 'cache.pt')
        if shape in ('bare', 'rel'):
            os.chdir(tmp)
        arg = {'abs': real_path, 'nested-abs': real_path, 'pathlib': pathlib.Path(real_path), 'bare': 'cache.pt',
               'rel': os.path.join('sub', 'cache.pt')}[shape]
        # previously computed statistics: those of a row multiset of the same table
        sub = call_frame(frame, {'rows': combo['rows']})
        fds, _ = mg.make_dataset(sub)
        fds.materialize()
        foreign = fds.col_stats
        foreign_canon = mg.canon_stats_full(foreign)
        stats_of = {'own': (mg.model_stats, own_stats), 'foreign': (mg.model_stats, foreign)}
        if combo['file'] == 'own':
            fresh().materialize(path=arg)
        elif combo['file'] == 'foreign':
            fresh().materialize(path=arg, col_stats=copy.deepcopy(foreign))
        if combo['file'] != 'missing' and not os.path.isfile(real_path):
            return ('materialize-args/cache-not-written', f'materialize(path={arg!r}) did not write {real_path}', 'a file', None)
        supplied = None if combo['stats'] == 'none' else copy.deepcopy(stats_of[combo['stats']][1])
        supplied_before = None if supplied is None else mg.canon_stats_full(supplied)
        ds = fresh()
        ds.materialize(path=arg, col_stats=supplied)
        governing = combo['file'] if combo['file'] != 'missing' else ('own' if combo['stats'] == 'none' else combo['stats'])
        gov = own_stats if governing == 'own' else foreign
        what = f"materialize(path=<{shape}>, col_stats=<{combo['stats']}>) with the cache file {combo['file']}"
        got_stats = mg.canon_stats_full(ds.col_stats)
        want_stats = mg.canon_stats_full(gov)
        if got_stats != want_stats:
            return ('materialize-args/stats', f'{what}: dataset.col_stats are not the {governing} statistics', want_stats, got_stats)
        view = mg.canon_tf(ds.tensor_frame)
        v = c01.check_cells(frame, view, mg.model_stats(gov), what, fitted=True)
        if v:
            return (f'materialize-args/{v[0]}', v[1], v[2], v[3])
        if governing == 'own' and view != own_view:
            return ('materialize-args/frame', f'{what}: the TensorFrame differs from a plain materialization', 'the same frame',
                    'different')
        again = mg.canon_tf(ds.convert_to_tensor_frame(ds.df))
        if again != view:
            return ('materialize-args/own-frame-conversion', f'{what}: converting the dataset\'s own frame does not reproduce '
                    f'its TensorFrame', {k: view[k] for k in ('cells', 'y')}, {k: again[k] for k in ('cells', 'y')})
        if supplied is not None and mg.canon_stats_full(supplied) != supplied_before:
            return ('materialize-args/supplied-stats-modified', f'{what}: the col_stats argument was modified', supplied_before,
                    mg.canon_stats_full(supplied))
        if not os.path.isfile(real_path):
            return ('materialize-args/cache-not-written', f'{what}: no file at {real_path} afterwards', 'a file', None)
        ltf, lstats = torch_frame.load(real_path)
        if mg.canon_tf(ltf) != view or mg.canon_stats_full(lstats) != got_stats:
            return ('materialize-args/cache-content', f'{what}: the cache file does not hold the dataset\'s frame and statistics',
                    'equal', 'different')
        if combo.get('again'):
            # a later session on the same path, handed the OTHER statistics (or none): the cache governs
            other = {'none': foreign, 'own': foreign, 'foreign': own_stats}[combo['stats']]
            ds3 = fresh()
            ds3.materialize(path=arg, col_stats=copy.deepcopy(other))
            v3 = mg.canon_tf(ds3.tensor_frame)
            if v3 != view or mg.canon_stats_full(ds3.col_stats) != got_stats:
                return ('materialize-args/later-session', f'{what}; then a new Dataset.materialize(path, other statistics): frame or '
                        f'statistics differ from what the first session cached', 'the cached frame and statistics', 'different')
            if mg.canon_tf(ds3.convert_to_tensor_frame(ds3.df)) != v3:
                return ('materialize-args/own-frame-conversion', f'{what}; then a new Dataset.materialize(path, other statistics): '
                        f'converting the dataset\'s own frame does not reproduce its TensorFrame', 'equal', 'different')
        if foreign_canon != mg.canon_stats_full(fds.col_stats):
            return ('materialize-args/donor-stats-modified', f'{what}: the statistics of the donor dataset changed', 'unchanged',
                    'changed')
        return None
    finally:
        os.chdir(cwd)
        shutil.rmtree(tmp, ignore_errors=True)


def case_feasible(case):
    """can the list-based Lean state machine take the whole history?"""
    if not mg.model_feasible(case['frame']) or len(case['calls']) > MAX_MODEL_CALLS:
        return False
    per_row = max(1, mg.frame_items(case['frame']) // max(1, case['frame']['n']))
    tot = sum(len(c['rows']) for c in case['calls'])
    return all(len(c['rows']) <= 4200 for c in case['calls']) and tot * per_row <= mg.MODEL_ITEMS


class C04(core.Check):
    pid = 'C04'
    driver = 'drv_c01'
    quick_cases = 800
    thorough_cases = 6000      # (was 9000 before the hardening families made a case ~20% dearer; thorough must stay <= 15 min)
    rule = ("C01's abstract frames (all its dtype / value / container / shared-raw-text / configuration families; every 40th case - "
            '240th in the thorough tier - scales one dimension of the SOURCE frame to a rung of the size ladder; optionally '
            'under a non-default index) are materialized - half of them a second time '
            'with the col_stats of the first materialization supplied - and the dataset\'s converter is then called 1-4 '
            'times in a row on: the whole frame, a single row, a permutation, one row repeated, random row multisets '
            '(1-9 picks); either as df.iloc[rows] (duplicate labels) or as a freshly rendered frame with its own '
            'labelling and column order, or as df.take(rows); selections far longer than the source (size ladder; at stress level '
            '>= 1 one history converts 65 537-65 539 shuffled and 16 385+ ascending picks of a 300-5 000-row source, more of them '
            'in the thorough tier); histories of up to 259 / 1 027 / 2 051 calls on one converter; 45% of the calls carry unseen '
            'categorical values / unseen multicategorical tokens in ~30% of their cells, drawn from look-alike families '
            '(extension of the longest fitted value, proper prefix, other case, trailing NUL, sentinel strings, blank-padded, '
            'longer than every fitted value by a ladder size, integer successor / predecessor / > 2^53); 30% of the calls lack '
            'the target column; 30% of the histories read every returned frame again after the last call, 12% convert another '
            'dataset (own separators, shared raw texts) in between, freshly rendered call frames are compared with a twin '
            'afterwards; 15% of the histories hand the converter the dataset\'s OWN DataFrame object; in 20% (50% with a numerical '
            'target) a caller writes in place into tensors it was handed - y / features of converter results and / or of the '
            'materialized frame - after which the dataset\'s frame and statistics, the other results, the DataFrame (against an '
            'untouched twin) and a last conversion of the dataset\'s own frame are observed again; 6% run one point of '
            'materialize(path x col_stats) x cache file {missing, written by a plain materialization, written under the statistics of '
            'a row multiset of the table} x 6 path shapes, optionally followed by a later session that supplies the other statistics '
            '(judged by the oracle: the dataset\'s statistics are the governing ones, its cells their encoding, converting its own '
            'frame reproduces its TensorFrame, the file holds both). Compared with the Lean state '
            'machine: every cell of every returned frame, y, the converter\'s col_names_dict after every call, the '
            'frame and statistics under supplied col_stats; plus convert(df.iloc[rows]) == tensor_frame[rows] through '
            'the library. Non-trivial = at least one call returned a frame; distinct = hash of the case.')
    partial_notes = (
        'theorems are stated inside the typed domain (ConvFrameOK / CallOK: distinct column names, no text_tokenized '
        'column, >= 1 row, one cell per row, every plain embedding column fitted with a width >= 0 that all its vectors '
        'have); the empty selection df.iloc[[]] is outside it (the mappers need >= 1 row) and is not generated',
        'convert_rows compares cell-wise through the frame\'s own lookup table (get_col_feat) and y; that this equals '
        'TensorFrame.__getitem__ (tensor_frame[idx]) is C07\'s theorem and is checked here on the real objects only',
        'the aliasing itself (the converter\'s dict object is shared with every returned TensorFrame) is not '
        'expressible in the functional model: the model threads the name table as state; the harness checks the '
        'real dict after every call',
        'pandas parsing / dtype inference of the converted frame is outside the model (abstract cells)',
        'tensor_frame[rows] (row selection of a TensorFrame) belongs to C07; here it is only used as a second '
        'witness through the library\'s own ==',
    )

    def __init__(self):
        self._side = {}

    _replaying = False

    def replay(self, path):
        self._replaying = True
        return super().replay(path)

    def skip_model(self):
        """SKIP_MODEL for the engine; a printable marker while replaying (core.replay json-dumps the model outcome)"""
        return 'oracle-only case: not shipped to the Lean model' if self._replaying else core.SKIP_MODEL

    def extra_checks(self, rng, tier, report):
        out = []
        try:
            import pandas as pd
            import torch_frame
            from torch_frame.data import Dataset
            ds = Dataset(pd.DataFrame({'c': ['a', 'b', 'a'], 'x': [1.0, 2.0, 3.0]}),
                         {'c': torch_frame.categorical, 'x': torch_frame.numerical}).materialize()
            try:
                tf = ds.convert_to_tensor_frame(ds.df.iloc[[]])
                obs = f'a TensorFrame with {tf.num_rows} rows'
            except Exception as e:   # noqa
                obs = f'raises {type(e).__name__}: {str(e)[:140]}'
            out.append({'input': 'converter called on the empty selection df.iloc[[]]', 'observed': obs,
                        'why_not_generated': 'the property quantifies over row multisets of the source frame; the typed domain of '
                                             'the theorems (CallOK) needs >= 1 row'})
            out += [x for x in mg.probe_outside_domain() if 'Categorical' in x['input'] or 'string' in x['input']]
        except Exception as e:   # noqa
            out.append(f'probe failed: {type(e).__name__}: {e}')
        report['extra']['observed_outside_generated_domain'] = out

    def generate(self, rng, n, tier):
        lvl = self.level
        period = 40 if lvl < 2 else 240
        for k in range(n):
            focus = [None, 'multicategorical', 'categorical', 'text_embedded', 'embedding', 'image_embedded'][k % 6]
            calls = None
            labels = None
            if (lvl >= 1 and k == 11) or (lvl == 2 and k % 1200 == 11):
                # conversions far above every ladder rung (> 16 384 / 32 768 / 65 536 rows) of a modest source frame:
                # shuffled and ascending selections with repeats, under id-like / shuffled / default integer labels
                frame = mg.gen_frame(rng, n=rng.choice([300, 1100, 5000]), ncols=rng.choice([1, 2]),
                                     focus=rng.choice(['categorical', 'multicategorical', 'numerical']), level=lvl, plain=True)
                big = rng.choice(stress.LADDER_BIG[1:] if k == 11 else stress.LADDER_BIG) + rng.choice([0, 1, 2])
                calls = [gen_call(rng, frame, lvl, 'long', 65537 + rng.choice([0, 1, 2]) if k == 11 else big),
                         gen_call(rng, frame, lvl, 'long-sorted', big)]
                for c in calls:
                    c.update(how='iloc', inject=[], unseen=[])
                labels = mg.gen_labels(rng, frame['n'], 'spread' if k == 11 else rng.choice(['spread', 'perm', 'range', 'dup', 'setindex']))
                frame['fam'] = frame.get('fam', []) + ['scale:call-rows:above-the-ladder(16385..65539)']
            elif (lvl >= 1 and k == 12) or (lvl == 2 and k % 1200 == 12):
                # a source frame longer than 65 536 rows, converted as a whole and in shuffled order
                frame = mg.gen_frame(rng, n=65537 + rng.choice([0, 1, 2]), ncols=rng.choice([1, 2]), target=rng.choice(['none', 'multi']),
                                     focus=rng.choice(['categorical', 'multicategorical', 'numerical']), level=lvl, plain=True)
                calls = [gen_call(rng, frame, lvl, 'perm'), gen_call(rng, frame, lvl, 'all')]
                for c in calls:
                    c.update(how=rng.choice(['iloc', 'take']), inject=[], unseen=[])
                labels = mg.gen_labels(rng, frame['n'], rng.choice(['range', 'perm', 'spread']))
                frame['fam'] = frame.get('fam', []) + ['scale:source-rows:above-the-ladder(65537+)']
            elif k % period == 9:
                dims = ['rows', 'cats', 'multicats', 'tokens', 'celllen', 'cols', 'rows', 'seqlen', 'embwidth']
                frame = mg.gen_scaled_frame(rng, lvl, dims[(k // period) % len(dims)], top=k // period < len(dims), max_cols=1025)
            elif k % 89 == 7:
                # a long frame (size-gated code paths: whole-frame conversion vs. short selections of it)
                frame = mg.gen_frame(rng, n=rng.randint(1024, 1100), ncols=rng.choice([1, 2, 3]),
                                     focus=rng.choice(['categorical', 'multicategorical', None]), level=lvl)
            else:
                frame = mg.gen_frame(rng, focus=focus, level=lvl)
            if labels is not None:
                pass
            elif frame['n'] > 16 and rng.random() < 0.5:
                labels = mg.gen_labels(rng, frame['n'], rng.choice(['perm', 'dup', 'bigint', 'offset', 'spread', 'spread']))
            elif rng.random() < 0.3:
                labels = mg.gen_labels(rng, frame['n'])
            else:
                labels = mg.gen_labels(rng, frame['n'], 'range')
            if calls is None:
                ncalls = rng.randint(1, 4)
                if k % (4 * period) == 23:
                    # a long history on one converter (number of prior calls from the size ladder) of a one-column frame
                    frame = mg.gen_frame(rng, n=rng.randint(2, 8), ncols=1, level=lvl, target=rng.choice(['none', 'binary']),
                                         focus=rng.choice(['categorical', 'multicategorical', 'timestamp', 'numerical']))
                    labels = mg.gen_labels(rng, frame['n'])
                    ncalls = stress.pick_size(rng, lvl, [257, 1025, 2049][lvl])
                if mg.frame_items(frame) > 20000 or len(frame['cols']) > 256:
                    ncalls = min(ncalls, 2)
                calls = [gen_call(rng, frame, lvl) for _ in range(ncalls)]
            case = {'frame': frame, 'labels': labels, 'supplied': rng.random() < 0.5, 'calls': calls}
            small = mg.frame_items(frame) < 3000 and len(calls) <= 8
            if small and rng.random() < 0.15:
                # the dataset's own frame object handed to the converter (not a selection / copy of it)
                c = gen_call(rng, frame, lvl, 'all')
                c.update(how='self', inject=[], unseen=[], drop_target=False)
                for key in ('labels', 'dfperm', 'twin'):
                    c.pop(key, None)
                calls.insert(rng.randint(0, len(calls)), c)
            tcol = next((c for c in frame['cols'] if c['name'] == frame['target']), None)
            if small and rng.random() < (0.5 if tcol is not None and tcol['stype'] == 'numerical' else 0.2):
                # a caller writes in place into tensors it was handed: results of converter calls and / or the dataset's
                # materialized frame; afterwards the dataset's own state, the other results, the input DataFrame (against an
                # untouched twin) and a last conversion of the dataset's own frame are observed again
                w = []
                for _ in range(rng.choice([1, 1, 2, 3])):
                    w.append({'after': rng.randint(0, len(calls)), 'part': rng.choice(['y', 'y', 'feat', 'all'])})
                if frame['target'] is not None and rng.random() < 0.5:
                    w[0]['part'] = 'y'
                case['writes'] = sorted(w, key=lambda x: x['after'])
                c = gen_call(rng, frame, lvl, 'all')
                c.update(how=rng.choice(['self', 'self', 'fresh', 'iloc']), inject=[], unseen=[], drop_target=False)
                if c['how'] == 'fresh':
                    c.update(labels=mg.gen_labels(rng, frame['n'], rng.choice(['range', 'perm', 'offset'])),
                             dfperm=rng.sample(range(len(frame['cols'])), len(frame['cols'])), twin=False)
                else:
                    for key in ('labels', 'dfperm', 'twin'):
                        c.pop(key, None)
                calls.append(c)
            if small and mg.frame_items(frame) < 1500 and rng.random() < 0.06:
                case['cache'] = gen_cache(rng, frame)
            if rng.random() < 0.3:
                case['reinspect'] = True        # every returned frame is read again after the last call
            if rng.random() < 0.12 and mg.frame_items(frame) < 2000:
                # another dataset (own configuration, shared raw values where the frame has them) is materialized and its
                # converter is called between the calls
                other = (frame.get('prelude') or [None])[0] if rng.random() < 0.4 else None
                case['interleave'] = other or mg.gen_sibling(rng, frame)
            yield case

    # ------------------------------------------------------------------ real
    def real(self, case):
        from torch_frame.data import Dataset
        frame = case['frame']
        side = {'cats': {}, 'errors': [], 'lib_eq': []}
        self._side[id(case)] = side
        st, ds, _ = c01.materialize_real(frame, case['labels'])
        if st == 'raises':
            side['errors'].append(ds)
            return 'raises'
        first_view = mg.canon_tf(ds.tensor_frame)
        first_stats = mg.canon_stats_full(ds.col_stats)
        ds_first_stats = copy.deepcopy(ds.col_stats)
        if case['supplied']:
            try:
                df = mg.render(frame, case['labels'])
                c2s, kw, _ = mg.dataset_kwargs(frame)
                ds2 = Dataset(df, c2s, **kw).materialize(col_stats=ds.col_stats)
                side['supplied_same'] = (mg.canon_tf(ds2.tensor_frame) == first_view and
                                         mg.canon_stats_full(ds2.col_stats) == first_stats and
                                         (c02.nan_target(frame) or bool(ds2.tensor_frame == ds.tensor_frame)))
                ds = ds2
            except Exception as e:   # noqa
                side['errors'].append(f'materialize(col_stats=...): {type(e).__name__}: {str(e)[:200]}')
                return 'raises'
        out = {'tf': mg.canon_tf(ds.tensor_frame), 'stats': mg.model_stats(ds.col_stats), 'calls': []}
        side['cats'] = {c: s['cats'] for c, s in out['stats'].items()}
        conv = ds.convert_to_tensor_frame
        base_df = ds.df
        writes = case.get('writes') or []
        # (once a caller has written into the dataset's own frame, the library's == is asked against a pristine copy)
        ref_tf = copy.deepcopy(ds.tensor_frame) if any(w['after'] == 0 for w in writes) else ds.tensor_frame
        written = set()
        for w in writes:
            if w['after'] == 0:
                side['tensors_written'] = side.get('tensors_written', 0) + mg.scribble(ds.tensor_frame, w['part'])
        other = None
        if case.get('interleave'):
            try:
                ods, _ = mg.make_dataset(case['interleave'])
                ods.materialize()
                other = (ods.convert_to_tensor_frame, ods.df)
            except Exception as e:   # noqa
                side['errors'].append(f'interleaved dataset: {type(e).__name__}: {str(e)[:200]}')
        kept = []
        for kc, call in enumerate(case['calls']):
            cf = call_frame(frame, call)
            try:
                if call['how'] == 'self':
                    df = base_df
                elif call['how'] == 'iloc':
                    df = base_df.iloc[call['rows']]
                elif call['how'] == 'take':
                    df = base_df.take(call['rows'])
                else:
                    df = mg.render(cf, call['labels'], call['dfperm'])
                if call['how'] != 'fresh' and call['drop_target']:
                    df = df.drop(columns=[frame['target']])
                tf = conv(df)
                view = mg.canon_tf(tf)
                out['calls'].append({'ok': {'tf': view, 'convNames': mg.canon_names(conv.col_names_dict)}})
                if case.get('reinspect') or writes:
                    kept.append((tf, view))
                if call['how'] != 'fresh' and not call['drop_target'] and not c02.nan_target(frame):
                    side['lib_eq'].append((call['rows'][:40], bool(tf == ref_tf[call['rows']])))
                for w in writes:
                    if w['after'] == kc + 1:
                        side['tensors_written'] = side.get('tensors_written', 0) + mg.scribble(tf, w['part'])
                        written.add(len(kept) - 1)
                if call.get('twin'):
                    bad = mg.frames_identical(df, mg.render(cf, call['labels'], call['dfperm']))
                    if bad:
                        side['input_modified'] = bad
            except Exception as e:   # noqa
                side['errors'].append(f'{type(e).__name__}: {str(e)[:200]} @ {traceback.format_exc().splitlines()[-3].strip()[:100]}')
                out['calls'].append('raises')
            if other is not None:
                try:
                    other[0](other[1])
                except Exception as e:   # noqa
                    side['errors'].append(f'interleaved converter: {type(e).__name__}: {str(e)[:200]}')
        for k, (tf, view) in enumerate(kept):
            # aliasing of output buffers: a frame returned earlier must still read the same after the later calls
            if k not in written and mg.canon_tf(tf) != view:
                side['reinspect'] = f'the frame returned by call {k + 1} reads differently after the later calls' + \
                    (' and the in-place writes into OTHER returned frames' if writes else '')
                break
        if writes:
            # what a write into a returned tensor must leave alone: the dataset's own frame (unless that was the one written
            # into), its statistics, the DataFrame it was built from (against an untouched twin)
            try:
                if not any(w['after'] == 0 for w in writes) and mg.canon_tf(ds.tensor_frame) != out['tf']:
                    side['write'] = ('alias/write-reaches-dataset-frame', 'after in-place writes into frames returned by the '
                                     'converter, dataset.tensor_frame reads differently')
                elif mg.canon_stats_full(ds.col_stats) != first_stats:
                    side['write'] = ('alias/write-reaches-col-stats', 'after in-place writes into returned tensors, '
                                     'dataset.col_stats differ')
                else:
                    bad = mg.frames_identical(ds.df, mg.render(frame, case['labels']))
                    if bad:
                        side['write'] = ('alias/write-reaches-input-frame', 'after in-place writes into returned tensors the '
                                         f'dataset\'s DataFrame differs from an untouched twin: {bad}')
            except Exception as e:   # noqa
                side['write'] = ('alias/write-observation-raises', f'{type(e).__name__}: {str(e)[:160]}')
        if case.get('cache'):
            try:
                side['cache'] = run_cache(frame, case['labels'], case['cache'], first_view, ds_first_stats)
            except Exception as e:   # noqa
                side['cache'] = ('materialize-args/raises', f"materialize(path, col_stats) point {case['cache']['file']}/"
                                 f"{case['cache']['stats']}/{case['cache']['shape']} raises {type(e).__name__}: {str(e)[:200]} @ "
                                 f"{traceback.format_exc().splitlines()[-3].strip()[:100]}", 'no exception', type(e).__name__)
        res = {'ok': out}
        if not case_feasible(case):
            side['verdict'] = self.judge(case, res)
            side['judged'] = True
            return {'ok': {'oracle-only': core.stable_hash(res), 'calls': ['raises' if c == 'raises' else 'ok' for c in out['calls']]}}
        return res

    # ------------------------------------------------------------------ model
    def model_requests(self, case):
        frame = case['frame']
        if not case_feasible(case):
            return []
        side = self._side.get(id(case), {'cats': {}})
        req = {'cmd': 'conv', 'supplied': case['supplied']}
        req.update(mg.model_frame(frame, side['cats'], case['labels']))
        req['labels'] = [mg.model_label(v) for v in req['labels']]
        calls = []
        for call in case['calls']:
            cf = call_frame(frame, call)
            if call['how'] != 'fresh':
                labels = [case['labels']['values'][i] for i in call['rows']]
                order = None
            else:
                labels, order = call['labels']['values'], call['dfperm']
            calls.append({'labels': [mg.model_label(v) for v in labels], 'cols': mg.model_cols(cf, order=order)})
        req['calls'] = calls
        return [req]

    def model_outcome(self, case, replies):
        if not case_feasible(case):
            return self.skip_model()
        rep = replies[0]
        if not isinstance(rep, dict) or 'ok' not in rep:
            return rep
        frame = case['frame']
        o = dict(rep['ok'])
        o['tf'] = mg.sort_multicat(o['tf'], frame)
        calls = []
        for c in o['calls']:
            if isinstance(c, dict) and 'ok' in c:
                calls.append({'ok': {'tf': mg.sort_multicat(c['ok']['tf'], frame), 'convNames': c['ok']['convNames']}})
            else:
                calls.append(c)
        o['calls'] = calls
        return {'ok': o}

    # ------------------------------------------------------------------ oracle
    def oracle(self, case, real_outcome):
        side = self._side.get(id(case), {})
        if side.get('judged'):
            return side['verdict']
        return self.judge(case, real_outcome)

    def judge(self, case, real_outcome):
        frame = case['frame']
        side = self._side.get(id(case), {})
        errs = side.get('errors', [])
        if real_outcome == 'raises':
            return core.Violation('materialize-raises', f'materialize() raised on an in-domain frame: {errs[:1]}', case,
                                  'a TensorFrame', errs[:1])
        o = real_outcome['ok']
        if case['supplied'] and not side.get('supplied_same', False):
            return core.Violation('supplied-stats', 'materialize(col_stats=<the statistics of a first materialization>) '
                                  'differs from materialize()', case, 'same TensorFrame and col_stats', 'different')
        v = c01.check_cells(frame, o['tf'], o['stats'], 'materialized frame')
        if v:
            return core.Violation(v[0], v[1], case, v[2], v[3])
        base = o['tf']
        merged_names = mg.expected_names(frame)
        for k, (call, c) in enumerate(zip(case['calls'], o['calls'])):
            tag = f"call {k + 1}/{len(case['calls'])} ({call['kind']}, {call['how']}" + \
                  (', unseen values' if call['inject'] else '') + (', no target' if call['drop_target'] else '') + ')'
            if c == 'raises':
                key = 'convert-raises/unseen' if call['inject'] else 'convert-raises'
                return core.Violation(key, f'converter raised on {tag}: {errs[:1]}', case, 'a TensorFrame', errs[:1])
            tf = c['ok']['tf']
            cf = call_frame(frame, call)
            # (a) straight from the text: the encoding of every cell of the converted frame under the FITTED lists
            v = c01.check_cells(cf, tf, o['stats'], tag, fitted=True)
            if v:
                return core.Violation(f'convert/{v[0]}', v[1], case, v[2], v[3])
            # (b) metamorphic: rows of the materialized frame, wherever nothing was injected
            injected = {(nm, kk) for nm, kk, _ in call['inject']}
            for name, cells in tf['cells'].items():
                for kk, (i, cell) in enumerate(zip(call['rows'], cells)):
                    if (name, kk) not in injected and cell != base['cells'][name][i]:
                        return core.Violation('convert/row-locality', f'{tag}: column {name!r} row {kk} is not row {i} of the '
                                              f'materialized frame', case, base['cells'][name][i], cell)
            if not call['drop_target'] and base['y'] is not None:
                if tf['y'] != [base['y'][i] for i in call['rows']]:
                    return core.Violation('convert/y', f'{tag}: y is not the selected rows of the materialized y', case,
                                          [base['y'][i] for i in call['rows']], tf['y'])
            if call['drop_target'] and tf['y'] is not None:
                return core.Violation('convert/y-without-target', f'{tag}: y present although the frame has no target column',
                                      case, None, tf['y'])
            for name, kk, val in call['inject']:
                cell = tf['cells'][name][kk]
                col = next(cc for cc in frame['cols'] if cc['name'] == name)
                if col['stype'] == 'categorical' and cell != [-1]:
                    return core.Violation('convert/unseen-category', f'{tag}: unseen category {val!r} encoded as {cell}', case,
                                          [-1], cell)
            if c['ok']['convNames'] != merged_names or tf['names'] != merged_names:
                return core.Violation('convert/name-table', f'{tag}: the converter\'s col_names_dict is not the merged canonical '
                                      f'schema after the call', case, merged_names, c['ok']['convNames'])
        for rows, eq in side.get('lib_eq', []):
            if not eq:
                return core.Violation('convert/lib-eq', f'convert(df.iloc[{rows}...]) != tensor_frame[{rows}...] through TensorFrame.__eq__',
                                      case, True, False)
        if side.get('reinspect'):
            return core.Violation('alias/returned-frame-changed', side['reinspect'], case, 'the same cells', 'different')
        if side.get('write'):
            return core.Violation(side['write'][0], side['write'][1], case, 'unchanged', 'changed')
        if side.get('cache'):
            k, what, exp, got = side['cache']
            return core.Violation(k, what, case, exp, got)
        if side.get('input_modified'):
            return core.Violation('alias/input-frame-modified', f'the converter modified the DataFrame it was given: '
                                  f'{side["input_modified"]}', case, 'an unchanged DataFrame', side['input_modified'])
        if any(e.startswith('interleaved') for e in errs):
            return core.Violation('history/interleaved-dataset-raises', f'{errs}', case, 'no exception', errs[:2])
        return None

    def nontrivial_key(self, case, real_outcome):
        if real_outcome == 'raises' or all(c == 'raises' for c in real_outcome['ok']['calls']):
            return None
        return core.stable_hash([case['frame'], case['labels'], case['supplied'],
                                 [[c['kind'], c['how'], c['rows'][:200], c['inject'][:50]] for c in case['calls'][:50]]])

    def classify(self, case, real_outcome):
        frame = case['frame']
        nc = len(case['calls'])
        labs = [f"rows:{frame['n']}" if frame['n'] <= 12 else 'rows:13+',
                f"cols:{len(frame['cols'])}" if len(frame['cols']) <= 9 else 'cols:10+',
                f"calls:{nc}" if nc <= 4 else 'calls:5+',
                f"supplied-stats:{case['supplied']}", f"labels:{case['labels']['kind']}",
                'outcome:' + ('raises' if real_outcome == 'raises' else 'ok')]
        labs += c01.frame_labels(frame)
        lab = mg.size_label('prior-calls', nc)
        if lab:
            labs.append(lab)
        if case.get('reinspect'):
            labs.append('alias:returned-frames-reinspected')
        if case.get('interleave'):
            labs.append('history:other-dataset-converted-in-between')
        for w in case.get('writes') or []:
            labs.append('alias:in-place-write-into:' + ('materialized-frame' if w['after'] == 0 else 'converter-result') + ':' + w['part'])
            tcol = next((c for c in frame['cols'] if c['name'] == frame['target']), None)
            if tcol is not None and w['part'] in ('y', 'all'):
                labs.append(f"alias:in-place-write:y-of-{tcol['stype']}-target:{tcol['r'].get('dtype', tcol['r'].get('kind'))}")
        if case.get('cache'):
            cc = case['cache']
            labs.append(f"materialize-args:file={cc['file']}:col_stats={cc['stats']}")
            labs.append(f"materialize-args:path={cc['shape']}")
            if cc.get('again'):
                labs.append('materialize-args:later-session-with-other-stats')
        if real_outcome != 'raises' and 'oracle-only' in real_outcome['ok']:
            labs.append('judged:oracle-only(too large for the Lean model)')
        for k, call in enumerate(case['calls'][:50]):
            labs += [f"call:{call['kind']}", f"call:how:{call['how']}"]
            lab = mg.size_label('call-rows', len(call['rows']))
            if lab:
                labs.append(lab)
                if call['how'] != 'fresh' and case['labels']['kind'] in ('range', 'perm', 'dup', 'bigint', 'offset', 'spread') and \
                        call['kind'] in ('long', 'perm', 'multiset'):
                    labs.append(lab + ':shuffled-integer-labels')
            if call['inject']:
                labs.append('call:unseen-values')
                labs += [f'unseen:{f}' for f in set(call.get('unseen', []))]
            if call.get('twin'):
                labs.append('alias:converted-frame-unchanged')
            if call['drop_target']:
                labs.append('call:no-target')
            if len(set(call['rows'])) < len(call['rows']):
                labs.append('call:repeated-rows')
            if real_outcome != 'raises':
                labs.append('call:' + ('raises' if real_outcome['ok']['calls'][k] == 'raises' else 'ok'))
        kinds = {c['stype'] for c in frame['cols'] if c['name'] != frame['target']}
        if len(kinds & {'embedding', 'text_embedded', 'image_embedded'}) > 1 or \
                (kinds & {'text_embedded', 'image_embedded'}):
            labs.append('name-table-rewritten-by-merge')
        return sorted(set(labs))


CHECK = C04()
